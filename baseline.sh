#!/bin/bash
# MANIFEST.hooks.baseline_off_cmd: the repository's own test suite with the hook guard (build tag
# "verif") OFF, compared against the stable-pass list of /root/.vp/BASELINE.json.
#   ./baseline.sh            full suite (all Go modules under /repo, ~26 min)
#   ./baseline.sh fast       only RedisGO's own module + etcd/raft + wal + snap + fileutil (~3 min)
# go test -json output goes to .work/baseline/<module>.json; a summary is printed; exit 1 if a
# stable-pass test of the baseline did not pass.
export GOFLAGS=-mod=mod GOPROXY=off GOSUMDB=off GOTOOLCHAIN=local
cd "$(dirname "$0")"
REPO=${VP_RUN_REPO:-/repo}
OUT=$PWD/.work/baseline; rm -rf "$OUT"; mkdir -p "$OUT"
before=$(git -C $REPO status --porcelain)
if [ "$1" = fast ]; then
  run() { (cd $REPO/$1 && go test -json -vet=off -count=1 -timeout 25m $2) > "$OUT/$3.json" 2>"$OUT/$3.err"; }
  run . ./... root
  run etcd/raft ./... raft
  run etcd/server "./storage/wal/... ./etcdserver/api/snap/..." server
  run etcd/client/pkg ./fileutil/... clientpkg
else
  for gm in $(cd $REPO && find . -name go.mod -not -path '*/tools/*' | sort); do
    m=$(dirname "$gm"); n=$(echo "$m" | tr '/.' '__')
    (cd $REPO/$m && go test -json -vet=off -count=1 -timeout 25m ./...) > "$OUT/$n.json" 2>"$OUT/$n.err"
  done
fi
# go test with -mod=mod may touch go.mod/go.sum inside /repo; put those (and only those) back
after=$(git -C $REPO status --porcelain)
if [ "$before" != "$after" ]; then
  git -C $REPO status --porcelain | awk '{print $2}' | grep -E '(^|/)go\.(mod|sum)$' | while read f; do
    echo "$before" | grep -q " $f$" || git -C $REPO checkout -- "$f"; done
fi
python3 - "$OUT" "$1" <<'PY'
import json, sys, glob, os
out, mode = sys.argv[1], (sys.argv[2] if len(sys.argv) > 2 else "")
base = json.load(open('/root/.vp/BASELINE.json'))
stable = set(base['stable_pass'])
passed, failed, pkgs = set(), set(), set()
for f in glob.glob(os.path.join(out, '*.json')):
    for line in open(f, errors='replace'):
        try: e = json.loads(line)
        except Exception: continue
        if e.get('Package'): pkgs.add(e['Package'])
        if 'Test' not in e: continue
        k = e['Package'] + '::' + e['Test']
        if e.get('Action') == 'pass': passed.add(k)
        elif e.get('Action') == 'fail': failed.add(k)
want = stable if mode != 'fast' else {k for k in stable if k.split('::')[0] in pkgs}
missing = sorted(want - passed)
print("baseline (guard off): %d stable-pass tests expected, %d of them passed, %d missing; %d other passes, %d failures overall"
      % (len(want), len(want & passed), len(missing), len(passed - want), len(failed)))
for k in missing[:50]: print("MISSING", k)
sys.exit(1 if missing else 0)
PY
