#!/bin/bash
# MANIFEST.setup_cmd: offline; warms the Go build cache by compiling every check's test binary and
# the server binary from /repo's current working tree. Nothing is fetched.
export GOFLAGS=-mod=mod GOPROXY=off GOSUMDB=off GOTOOLCHAIN=local
cd "$(dirname "$0")"
mkdir -p .build .work evidence replays/found
rc=0
for pkg in $(python3 -c "import json;print(' '.join(sorted({v['pkg'] for v in json.load(open('checks.json')).values()})))"); do
  (cd harness && go test -c -tags verif -vet=off -o ../.build/setup-$pkg.test ./$pkg) || rc=1
done
(cd /repo && go build -tags verif -o /verif/.build/redisgo-setup .) || rc=1
rm -f .build/setup-*.test .build/redisgo-setup
exit $rc
