#!/usr/bin/env python3
"""Regenerates the 'fixed:' section of known-findings.txt from /repo's fix: commits and fixmap.json
(commit subject -> properties). 'finding:' lines are kept as they are."""
import json, subprocess, sys
m = json.load(open('fixmap.json'))
out = subprocess.check_output(['git', '-C', '/repo', 'log', '--reverse', '--format=%h%x09%s%x09%b%x1e', '9965592..HEAD'], text=True)
lines = [l for l in open('known-findings.txt').read().splitlines() if not l.startswith('fixed:')]
while lines and lines[-1] == '':
    lines.pop()
fixed = []
missing = []
for rec in out.split('\x1e'):
    rec = rec.strip('\n')
    if not rec:
        continue
    sha, subj, body = (rec.split('\t', 2) + ['', ''])[:3]
    if not subj.startswith('fix:'):
        continue
    if subj not in m:
        missing.append(subj)
        continue
    what = ' '.join(body.split())
    if len(what) > 260:
        what = what[:257] + '...'
    for p in m[subj]:
        fixed.append('fixed: property=%s %s %s -- %s' % (p, sha, subj[5:], what))
open('known-findings.txt', 'w').write('\n'.join(lines + fixed) + '\n')
print(len(fixed), 'fixed lines;', len(missing), 'fix commits without a mapping:', missing)
sys.exit(1 if missing else 0)
