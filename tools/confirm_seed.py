#!/usr/bin/env python3
"""tools/confirm_seed.py <worktree> <N> [<demo pkg dir>]
Confirms a seeded change in a scratch worktree: (1) with the patch: builds, existing tests pass (resp's two
known failures allowed), demonstration FAILS; (2) without: demonstration PASSES. Prints a verdict line."""
import subprocess, sys, os, re, shutil
wt, n = sys.argv[1], sys.argv[2]
out = os.path.join(wt, "out", n)
TAGS = ("-tags " + os.environ["SEED_TAGS"] + " ") if os.environ.get("SEED_TAGS") else ""  # demonstrations that use a verif hook
env = dict(os.environ, GOFLAGS="-mod=mod", GOPROXY="off", GOSUMDB="off", GOTOOLCHAIN="local")
def sh(cmd, timeout=900):
    p = subprocess.run(cmd, shell=True, cwd=wt, env=env, stdout=subprocess.PIPE, stderr=subprocess.STDOUT, text=True, timeout=timeout)
    return p.returncode, p.stdout
demo = os.path.join(out, "demo_test.go")
head = open(demo).read(1500)
pkg = sys.argv[3] if len(sys.argv) > 3 else None
if not pkg:
    m = re.search(r"(memdb|server|resp|util|raftexample|etcd/[\w/]+)/", head)
    pkg = m.group(1)
m = re.search(r"-run '?\"?([\w|]+)", head)
run = m.group(1) if m else "Demo"
dst = os.path.join(wt, pkg, "zz_seed_demo_test.go")
def clean():
    sh("git checkout -- . ; rm -f %s" % dst)
clean()
res = {}
try:
    rc, o = sh("git apply --whitespace=nowarn out/%s/patch.diff" % n)
    assert rc == 0, "patch does not apply: " + o
    rc, o = sh("go build ./... 2>&1 | tail -5")
    res["build"] = (rc == 0 and "error" not in o.lower())
    rc, o = sh("go test -count=1 ./memdb/ ./server/ ./util/ ./raftexample/ ./resp/ 2>&1 | grep -E '^(--- FAIL|FAIL|ok|panic)'")
    fails = [l for l in o.splitlines() if l.startswith("--- FAIL")]
    res["tests"] = all(("TestParseArrayHeader" in l or "TestParseStream" in l) for l in fails) and "panic" not in o
    res["tests_detail"] = o.replace("\n", " | ")[:300]
    shutil.copy(demo, dst)
    rc, o = sh("go test %s-count=1 -timeout 300s -run '%s' ./%s/ 2>&1 | tail -15" % (TAGS, run, pkg))
    res["demo_fails_with_patch"] = ("FAIL" in o or "panic" in o or "fatal error" in o)
    res["demo_with"] = o[-300:].replace("\n", " | ")
    sh("git checkout -- .")
    rc, o = sh("go test %s-count=1 -timeout 300s -run '%s' ./%s/ 2>&1 | tail -5" % (TAGS, run, pkg))
    res["demo_passes_without"] = (o.strip().startswith("ok") or "\nok" in o) and "FAIL" not in o
    res["demo_without"] = o[-200:].replace("\n", " | ")
finally:
    clean()
ok = res.get("build") and res.get("tests") and res.get("demo_fails_with_patch") and res.get("demo_passes_without")
print("%s/%s run=%s pkg=%s => %s" % (os.path.basename(wt), n, run, pkg, "CONFIRMED" if ok else "NOT-CONFIRMED " + str(res)))
