#!/usr/bin/env python3
"""tools/try_patch.py <patch.diff> <ID> [<ID>...] [--seed N] [--tier quick|thorough]
Applies a seeded change to /repo, runs the named checks, and always restores /repo afterwards.
Prints one line per check: CAUGHT / MISSED / INFRA (+ first violation line)."""
import subprocess, sys, os
args = sys.argv[1:]
seed, tier = "1", "quick"
if "--seed" in args:
    i = args.index("--seed"); seed = args[i + 1]; del args[i:i + 2]
if "--tier" in args:
    i = args.index("--tier"); tier = args[i + 1]; del args[i:i + 2]
patch, ids = os.path.abspath(args[0]), args[1:]
def repo_clean():
    return subprocess.check_output(["git", "-C", "/repo", "status", "--porcelain"], text=True).strip() == ""
assert repo_clean(), "/repo is not clean"
r = subprocess.run(["git", "-C", "/repo", "apply", "--whitespace=nowarn", patch])
if r.returncode != 0:
    sys.exit("patch does not apply")
try:
    for pid in ids:
        env = dict(os.environ, VERIF_SEED=seed)
        p = subprocess.run(["./check", pid, tier], cwd="/verif", env=env, stdout=subprocess.PIPE, stderr=subprocess.STDOUT, text=True)
        lines = p.stdout.splitlines()
        viol = [l for l in lines if l.startswith("VIOLATION")]
        first = ""
        if viol:
            i = lines.index(viol[0])
            first = (lines[i + 1].strip() if i + 1 < len(lines) else "")[:220]
        status = {0: "MISSED", 1: "CAUGHT"}.get(p.returncode, "INFRA rc=%d" % p.returncode)
        summ = [l for l in lines if l.startswith(pid + " ")]
        print("%s %s seed=%s: %s | %s | %s" % (pid, tier, seed, status, summ[-1] if summ else lines[-1][:200] if lines else "", first), flush=True)
finally:
    subprocess.run(["git", "-C", "/repo", "checkout", "--", "."])
    subprocess.run(["git", "-C", "/repo", "clean", "-fdq"])
    assert repo_clean(), "/repo not restored!"
