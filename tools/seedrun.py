#!/usr/bin/env python3
"""tools/seedrun.py [--round N] [--only <id-prefix>] [--seed S]
Runs every kept seeded change (seeded/<id>/patch.diff) through the checks named in its meta.json (checks_to_run,
default: the property it breaks) with tools/try_wt.py, three at a time, and records which ones caught it
(meta.json: caught_by, last_run)."""
import subprocess, sys, os, glob, json, threading, queue
args = sys.argv[1:]
rnd, only, seed = None, None, "1"
for flag in ("--round", "--only", "--seed"):
    if flag in args:
        i = args.index(flag); v = args[i + 1]; del args[i:i + 2]
        if flag == "--round": rnd = int(v)
        elif flag == "--only": only = v
        else: seed = v
jobs = queue.Queue()
for mp in sorted(glob.glob("/verif/seeded/*/meta.json")):
    m = json.load(open(mp))
    sid = m["id"]
    if "NOT-A-VIOLATION" in sid: continue
    if rnd is not None and m.get("round", 1) != rnd: continue
    if only and not sid.startswith(only): continue
    jobs.put((sid, mp, m))
lock = threading.Lock()
def worker(slot):
    while True:
        try: sid, mp, m = jobs.get_nowait()
        except queue.Empty: return
        checks = m.get("checks_to_run") or [m["breaks_property"]]
        r = subprocess.run(["python3", "/verif/tools/try_wt.py", os.path.join(os.path.dirname(mp), "patch.diff"), str(slot)] + checks + ["--seed", seed],
                           stdout=subprocess.PIPE, stderr=subprocess.STDOUT, text=True, errors="replace")
        caught, lines = [], []
        for l in r.stdout.splitlines():
            if " seed=" in l:
                lines.append(l[:500])
                parts = l.split()
                if ": CAUGHT" in l: caught.append(parts[1])
        with lock:
            m = json.load(open(mp))
            m["caught_by"] = caught
            m["last_run"] = {"seed": int(seed), "tier": "quick", "lines": lines}
            json.dump(m, open(mp, "w"), indent=1)
            print(sid, "->", caught or "MISSED", "|", (lines[-1] if lines else r.stdout[-300:])[:260], flush=True)
ts = [threading.Thread(target=worker, args=(s,)) for s in range(3)]
for t in ts: t.start()
for t in ts: t.join()
