#!/usr/bin/env python3
# mkround.py <round number> <root dir under /tmp> <count per property> <ID>...
# creates one scratch worktree of /repo per property under <root>, each with the TASK.md a fresh sub-agent is given:
# the property text, the rules for a kept change, and the list of changes already collected (so that they are not repeated).
import json, os, subprocess, glob, sys
ROUND = int(sys.argv[1]); ROOT = sys.argv[2]; COUNT = int(sys.argv[3]); IDS = sys.argv[4:]
os.makedirs(ROOT, exist_ok=True)
props = {json.loads(l)['id']: json.loads(l) for l in open('/verif/properties.jsonl')}
avoid = {}
for d in sorted(glob.glob('/verif/seeded/*/meta.json')):
    m = json.load(open(d)); pid = os.path.basename(os.path.dirname(d))[:3]
    avoid.setdefault(pid, []).append("%s (needs: %s)" % (os.path.basename(os.path.dirname(d))[6:], m['needs_to_manifest']))
T = """# Task: seed realistic property-breaking changes into RedisGO (round {rnd})

You work ONLY inside this git worktree: {wt}
(a scratch worktree of the repository innovationb1ue/RedisGO, a Redis-compatible in-memory KV server in Go with a
Raft cluster mode built on a copied-in etcd tree under etcd/). Never read or write /repo or /verif. Everything you
produce goes under {wt}/out/<n>/ (n = 1, 2, 3, 4).

Environment for every shell call (nothing can be downloaded, there is no network):
    export GOFLAGS=-mod=mod GOPROXY=off GOSUMDB=off GOTOOLCHAIN=local
If you start servers, use TCP ports only in the range {p0}-{p1}. Never use `pkill -f`; track child pids and kill them
individually. NEVER use `git stash` (the stash is shared between all worktrees of this repository and other agents work
in sibling worktrees): use `git diff > file`, `git apply`, `git apply -R`, `git checkout -- .` instead. Never run `go clean -cache`. Put scratch files under {wt}/out/ or {root}/scratch-{pid}/ and delete build output when done.

## The property (this is all you are given about what must hold)

id: {pid}
title: {title}

statement: {statement}

quantifier: {quant}

why the existing unit tests cannot settle it: {why}

where it lives in the code (anchors): {anchors}

## What to produce

Up to FOUR independent source changes (each on its own, relative to the clean worktree) to the repository's non-test
source code, each of which BREAKS THE PROPERTY ABOVE while
  (a) the project still compiles:  go build ./...   (in the root module; if you touch etcd/<module>, also `go build ./...` there),
  (b) the existing tests still pass unedited:
        go test -count=1 ./memdb/ ./server/ ./util/ ./raftexample/ ./resp/
      (resp has exactly two tests that already fail on the clean tree: TestParseArrayHeader and TestParseStream; they do not count),
      and, if you touched a copied-in etcd module, that module's own tests for the touched packages
      (e.g. in etcd/raft: `go test -count=1 . ./quorum/ ./tracker/ ./confchange/`; in etcd/server: `go test -count=1 ./storage/wal/... ./etcdserver/api/snap/...`),
  (c) the change looks like something a maintainer could plausibly commit: a refactoring, an optimisation, a fast path,
      a "simplification", a reordering, a changed boundary, a cache, a shared buffer, a missing re-check... not a sabotage
      comment, not an `if key == "magic"`.

IMPORTANT - what kind of change is wanted. The change must need SOMETHING SPECIFIC to manifest, so that ordinary use
would not expose it at once: a particular interleaving of two clients, a crash or fault at a particular point, a
multi-step sequence of operations, an unusual input (boundary value, unusual byte, option combination, aliasing of two
arguments), or two cooperating sites that each look fine alone. A change that makes the first plain use of a command
fail is NOT wanted. Make the four changes as different from one another as you can (different commands, code paths
and mechanisms). Earlier rounds produced many 'cache with a missed invalidation' and 'shared scratch buffer' changes:
prefer other families now - wrong boundary or comparison, lock taken too late / released too early / wrong lock, an error
path that leaves state half-updated, a re-check dropped after a wait, wrong order of two steps, integer overflow or
truncation, aliasing of two arguments, a changed default, state kept across reconnects or restarts, an off-by-one in a
rarely used option. Where the property is about concurrency, crashes or faults, at least two of the four changes must need
such a schedule or fault to manifest.

The following changes have already been collected in an earlier round; do NOT propose these or close variants:
{avoid}

For each change n write:
  out/<n>/patch.diff     `git diff` of the change against the clean worktree (source files only; must apply with `git apply`)
  out/<n>/demo_test.go   a Go test (or for process-level demonstrations a small program out/<n>/demo.go plus exact
                         instructions) that FAILS with the change and PASSES without it. Start the file with a comment
                         saying into which package directory it must be copied (e.g. memdb/) and the exact command, e.g.
                         //   cp out/1/demo_test.go memdb/zz_seed_demo_test.go && go test -count=1 -run 'TestSeedDemo1' ./memdb/
                         Name test functions TestSeedDemo<n>... . The demonstration must be reasonably reliable (fail in
                         at least 9 of 10 runs with the change; never fail without it) and finish within 5 minutes.
  out/<n>/notes.md       what the change is, why it breaks the property, exactly what it needs in order to manifest,
                         why the existing tests do not notice, and the commands you ran with their results
                         (with the change: build ok, tests ok, demo FAILS; without: demo PASSES).

You must actually run (a), (b) and the demonstration both ways for every change you hand in; drop a change you cannot
confirm. When you finish, leave the worktree clean apart from out/:  git checkout -- . ; remove any demo file you copied
into a package directory. Your final answer: one line per change (n, files touched, one-sentence mechanism, what it
needs to manifest, and the demo command).
"""
ids = [i for i in sorted(props) if not IDS or i in IDS]
for i, pid in enumerate(ids):
    wt = "%s/%s" % (ROOT, pid)
    if not os.path.isdir(wt):
        subprocess.check_call(["git", "-C", "/repo", "worktree", "add", "--detach", "-q", wt, "HEAD"])
    p = props[pid]
    txt = T.format(rnd=ROUND, root=ROOT, wt=wt, pid=pid, title=p['title'], statement=p['statement'], quant=json.dumps(p['quantifier']),
                   why=p['why_tests_cant'], anchors=json.dumps(p['anchors'], indent=1), p0=28000 + i * 100, p1=28000 + i * 100 + 99,
                   avoid="\n".join("  - " + a for a in avoid.get(pid, [])) or "  (none)")
    if COUNT == 3:
        txt = (txt.replace("Up to FOUR independent", "Up to THREE independent").replace("(n = 1, 2, 3, 4)", "(n = 1, 2, 3)")
               .replace("Make the four changes", "Make the three changes").replace("two of the four changes", "two of the three changes"))
    open(os.path.join(wt, "TASK.md"), "w").write(txt)
print("ok", len(ids))