#!/usr/bin/env python3
"""tools/round.py <round dir (e.g. /tmp/seed2)> <ID> [<ID>...] [--checks ID,ID] [--seed N]
For every <round dir>/<ID>/out/<n>/patch.diff: run the property's own check (or --checks) against a scratch
worktree with the change applied (tools/try_wt.py), four at a time. Results are appended to <round dir>/results.txt."""
import subprocess, sys, os, glob, threading, queue
args = sys.argv[1:]
checks, seed, slots = None, "1", [0, 1, 2]
if "--slots" in args:
    i = args.index("--slots"); slots = [int(x) for x in args[i + 1].split(",")]; del args[i:i + 2]
if "--checks" in args:
    i = args.index("--checks"); checks = args[i + 1].split(","); del args[i:i + 2]
if "--seed" in args:
    i = args.index("--seed"); seed = args[i + 1]; del args[i:i + 2]
rd, ids = args[0], args[1:]
jobs = queue.Queue()
for pid in ids:
    for p in sorted(glob.glob(os.path.join(rd, pid, "out", "*", "patch.diff"))):
        jobs.put((pid, p))
lock = threading.Lock()
def worker(slot):
    while True:
        try:
            pid, p = jobs.get_nowait()
        except queue.Empty:
            return
        n = os.path.basename(os.path.dirname(p))
        r = subprocess.run(["python3", "/verif/tools/try_wt.py", p, str(slot)] + (checks or [pid]) + ["--seed", seed],
                           stdout=subprocess.PIPE, stderr=subprocess.STDOUT, text=True, errors="replace")
        with lock:
            with open(os.path.join(rd, "results.txt"), "a") as f:
                for l in r.stdout.splitlines():
                    if " seed=" in l:
                        f.write("%s/%s %s\n" % (pid, n, l))
                        print("%s/%s %s" % (pid, n, l[:400]), flush=True)
ts = [threading.Thread(target=worker, args=(s,)) for s in slots]
for t in ts: t.start()
for t in ts: t.join()
