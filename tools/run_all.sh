#!/bin/bash
# tools/run_all.sh [quick|thorough] [seed]: runs every registered check on the current tree, one after the other.
cd "$(dirname "$0")/.."
tier=${1:-quick}; seed=${2:-1}
fail=0
for id in $(python3 -c "import json;print(' '.join(sorted(json.load(open('checks.json')))))"); do
  out=$(VERIF_SEED=$seed ./check $id $tier 2>&1); rc=$?
  echo "$out" | grep -E "^($id |VIOLATION|INFRA|KNOWN-FINDING)" | cut -c1-220
  [ $rc -ne 0 ] && { echo "  -> rc=$rc"; fail=1; }
done
python3-vt - <<'PY'
import json, jsonschema, glob
sch = json.load(open('/root/.vp/EVIDENCE.schema.json'))
bad = 0
for f in sorted(glob.glob('evidence/*.json')):
    try:
        jsonschema.validate(json.load(open(f)), sch)
    except Exception as e:
        bad += 1
        print("EVIDENCE INVALID", f, str(e)[:200])
print("evidence files valid" if not bad else "%d invalid evidence files" % bad)
PY
exit $fail
