#!/usr/bin/env python3
"""tools/try_wt.py <patch.diff> <slot 0-3> <ID> [<ID>...] [--seed N] [--tier quick|thorough] [--run <regex>]
Like try_patch.py, but leaves /repo alone: the seeded change is applied to a scratch worktree of /repo's HEAD
(/tmp/vt/<slot>/repo) and the checks are built against that tree (VERIF_REPO). Up to four slots can run side by
side (private port ranges). The worktree and the build output are removed afterwards.
Prints one line per check: CAUGHT / MISSED / INFRA (+ first violation line)."""
import subprocess, sys, os, shutil, hashlib
args = sys.argv[1:]
seed, tier, run = "1", "quick", None
for flag in ("--seed", "--tier", "--run"):
    if flag in args:
        i = args.index(flag)
        v = args[i + 1]
        del args[i:i + 2]
        if flag == "--seed": seed = v
        elif flag == "--tier": tier = v
        else: run = v
patch, slot, ids = os.path.abspath(args[0]), int(args[1]), args[2:]
wt = "/tmp/vt/%d/repo" % slot
subprocess.run(["git", "-C", "/repo", "worktree", "remove", "--force", wt], stderr=subprocess.DEVNULL)
shutil.rmtree(os.path.dirname(wt), ignore_errors=True)
os.makedirs(os.path.dirname(wt), exist_ok=True)
subprocess.check_call(["git", "-C", "/repo", "worktree", "add", "--detach", "-q", wt, "HEAD"])
alt = os.path.join("/verif/.build", "alt-" + hashlib.sha1(wt.encode()).hexdigest()[:10])
try:
    if patch != "/dev/null" and not patch.endswith("/none"):
        r = subprocess.run(["git", "-C", wt, "apply", "--whitespace=nowarn", patch])
        if r.returncode != 0:
            sys.exit("patch does not apply")
    for pid in ids:
        env = dict(os.environ, VERIF_SEED=seed, VERIF_REPO=wt, VERIF_PORT_OFFSET=str(4000 * slot))
        if run:
            env["VERIF_RUN"] = run
        p = subprocess.run(["./check", pid, tier], cwd="/verif", env=env, stdout=subprocess.PIPE, stderr=subprocess.STDOUT, text=True, errors="replace")
        lines = p.stdout.splitlines()
        viol = [l for l in lines if l.startswith("VIOLATION")]
        first = ""
        if viol:
            i = lines.index(viol[0])
            first = (lines[i + 1].strip() if i + 1 < len(lines) else "")[:300]
        status = {0: "MISSED", 1: "CAUGHT"}.get(p.returncode, "INFRA rc=%d" % p.returncode)
        summ = [l for l in lines if l.startswith(pid + " ")]
        print("%s %s %s seed=%s: %s | %s | %s" % (os.path.basename(os.path.dirname(patch)), pid, tier, seed, status,
                                                  summ[-1] if summ else (lines[-1][:300] if lines else ""), first), flush=True)
finally:
    subprocess.run(["git", "-C", "/repo", "worktree", "remove", "--force", wt])
    shutil.rmtree(os.path.dirname(wt), ignore_errors=True)
    shutil.rmtree(alt, ignore_errors=True)
