#!/usr/bin/env python3
"""tools/confirm_seed_etcd.py <worktree> <N> <module dir (e.g. etcd/raft | etcd/server)> <pkg within module (e.g. . | ./storage/wal/)> <TestName>
Like confirm_seed.py for demonstrations that live in one of the copied-in etcd modules: with the patch the
root module builds and its tests pass, the etcd packages' own tests pass, the demonstration fails; without
the patch the demonstration passes."""
import subprocess, sys, os, shutil
wt, n, mod, pkg, run = sys.argv[1:6]
out = os.path.join(wt, "out", n)
env = dict(os.environ, GOFLAGS="-mod=mod", GOPROXY="off", GOSUMDB="off", GOTOOLCHAIN="local")
def sh(cmd, cwd=None, timeout=1800):
    p = subprocess.run(cmd, shell=True, cwd=cwd or wt, env=env, stdout=subprocess.PIPE, stderr=subprocess.STDOUT, text=True, errors="replace", timeout=timeout)
    return p.returncode, p.stdout
moddir = os.path.join(wt, mod)
dst = os.path.join(moddir, pkg, "zz_seed_demo_test.go")
def clean():
    sh("git checkout -- . ; rm -f %s" % dst)
clean()
res = {}
try:
    rc, o = sh("git apply --whitespace=nowarn out/%s/patch.diff" % n)
    assert rc == 0, "patch does not apply: " + o
    rc, o = sh("go build ./... 2>&1 | tail -5")
    res["build"] = rc == 0 and "error" not in o.lower()
    rc, o = sh("go test -count=1 ./memdb/ ./server/ ./util/ ./raftexample/ ./resp/ 2>&1 | grep -E '^(--- FAIL|FAIL|ok|panic)'")
    fails = [l for l in o.splitlines() if l.startswith("--- FAIL")]
    res["tests"] = all(("TestParseArrayHeader" in l or "TestParseStream" in l) for l in fails) and "panic" not in o
    etcd_cmds = [("etcd/raft", "go test -count=1 . ./quorum/ ./tracker/ ./confchange/ ./raftpb/ 2>&1 | tail -8"),
                 ("etcd/server", "go test -count=1 ./storage/wal/... ./etcdserver/api/snap/... 2>&1 | tail -8"),
                 ("etcd/client/pkg", "go test -count=1 ./fileutil/... 2>&1 | tail -4")]
    ok = True
    for d, c in etcd_cmds:
        rc, o = sh(c, cwd=os.path.join(wt, d))
        if "FAIL" in o or "panic" in o:
            ok = False
            res["etcd_fail"] = (d + ": " + o[-300:]).replace("\n", " | ")
    res["etcd_tests"] = ok
    shutil.copy(os.path.join(out, "demo_test.go"), dst)
    rc, o = sh("go test %s -count=1 -timeout 600s -run '^%s$' %s 2>&1 | tail -15" % (os.environ.get('SEED_TAGS',''), run, pkg), cwd=moddir)
    res["demo_fails_with_patch"] = ("FAIL" in o or "panic" in o)
    res["demo_with"] = o[-300:].replace("\n", " | ")
    sh("git checkout -- .")
    rc, o = sh("go test %s -count=1 -timeout 600s -run '^%s$' %s 2>&1 | tail -5" % (os.environ.get('SEED_TAGS',''), run, pkg), cwd=moddir)
    res["demo_passes_without"] = (o.strip().startswith("ok") or "\nok" in o) and "FAIL" not in o
    res["demo_without"] = o[-200:].replace("\n", " | ")
finally:
    clean()
good = all(res.get(k) for k in ("build", "tests", "etcd_tests", "demo_fails_with_patch", "demo_passes_without"))
print("%s/%s run=%s => %s %s" % (os.path.basename(wt), n, run, "CONFIRMED" if good else "NOT CONFIRMED", "" if good else res))
