#!/bin/bash
# tools/finalize.sh: regenerates everything that is derived - evidence from a clean quick run of every check at
# VERIF_SEED=1 on /repo as it is, known-findings' fixed: lines, MANIFEST.json, the seeded-change table - and validates.
cd "$(dirname "$0")/.."
test -z "$(git -C /repo status --porcelain)" || { echo "/repo is not clean"; exit 1; }
python3 mkfindings.py || exit 1
python3 mkmanifest.py || exit 1
python3 tools/mkseedtable.py || exit 1
rm -f evidence/*.json
tools/run_all.sh quick 1 | tee .work/finalize.log
python3-vt - <<'PY'
import json, jsonschema
jsonschema.validate(json.load(open('MANIFEST.json')), json.load(open('/root/.vp/MANIFEST.schema.json')))
print("MANIFEST.json valid")
PY
