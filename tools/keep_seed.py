#!/usr/bin/env python3
"""tools/keep_seed.py <worktree> <N> <seed-id> <property> <needs> <caught-by (comma list or 'none')> [note]
Copies a confirmed seeded change into /verif/seeded/<seed-id>/ with meta.json."""
import sys, os, shutil, json, time
wt, n, sid, prop, needs, caught = sys.argv[1:7]
note = sys.argv[7] if len(sys.argv) > 7 else ""
src = os.path.join(wt, "out", n)
dst = os.path.join("/verif/seeded", sid)
os.makedirs(dst, exist_ok=True)
for f in os.listdir(src):
    shutil.copy(os.path.join(src, f), os.path.join(dst, f))
meta = {"id": sid, "breaks_property": prop, "needs_to_manifest": needs,
        "confirmed": "tools/confirm_seed.py: with the patch the tree builds, the existing tests pass (resp's two baseline failures aside) and the demonstration fails; without it the demonstration passes",
        "ran": "tools/try_patch.py seeded/%s/patch.diff <checks> (applies to /repo, runs ./check <ID> quick, restores /repo)" % sid,
        "caught_by": [c for c in caught.split(",") if c and c != "none"], "note": note,
        "date": time.strftime("%Y-%m-%d")}
json.dump(meta, open(os.path.join(dst, "meta.json"), "w"), indent=1)
print("kept", sid)
