#!/usr/bin/env python3
"""tools/confirm_seed_prog.py <worktree> <N>: like confirm_seed.py for demonstrations that are standalone programs
(out/N/demo.go run with `go run`, exit 0 = pass)."""
import subprocess, sys, os
wt, n = sys.argv[1], sys.argv[2]
env = dict(os.environ, GOFLAGS="-mod=mod", GOPROXY="off", GOSUMDB="off", GOTOOLCHAIN="local")
def sh(cmd, timeout=900):
    p = subprocess.run(cmd, shell=True, cwd=wt, env=env, stdout=subprocess.PIPE, stderr=subprocess.STDOUT, text=True, timeout=timeout)
    return p.returncode, p.stdout
sh("git checkout -- .")
res = {}
try:
    rc, o = sh("git apply --whitespace=nowarn out/%s/patch.diff" % n); assert rc == 0, o
    rc, o = sh("go build ./... 2>&1 | tail -3"); res["build"] = rc == 0 and "error" not in o.lower()
    rc, o = sh("go test -count=1 ./memdb/ ./server/ ./util/ ./raftexample/ ./resp/ 2>&1 | grep -E '^(--- FAIL|panic)'")
    fails = [l for l in o.splitlines() if l.startswith("--- FAIL")]
    res["tests"] = all(("TestParseArrayHeader" in l or "TestParseStream" in l) for l in fails) and "panic" not in o
    rc, o = sh("go run out/%s/demo.go 2>&1 | tail -6" % n); res["demo_fails_with_patch"] = rc != 0 or "FAIL" in o; res["with"] = o[-300:].replace("\n", " | ")
    sh("git checkout -- .")
    rc2, o2 = sh("go run out/%s/demo.go > /tmp/demo_out_$$ 2>&1; echo rc=$?; tail -3 /tmp/demo_out_$$; rm -f /tmp/demo_out_$$" % n)
    res["demo_passes_without"] = "rc=0" in o2; res["without"] = o2[-200:].replace("\n", " | ")
finally:
    sh("git checkout -- .")
ok = all(res.get(k) for k in ("build", "tests", "demo_fails_with_patch", "demo_passes_without"))
print("%s/%s => %s" % (os.path.basename(wt), n, "CONFIRMED" if ok else "NOT-CONFIRMED " + str(res)))
