#!/usr/bin/env python3
"""Regenerates DESIGN.md section 7.5 (between the SEEDED-TABLE markers) from seeded/*/meta.json."""
import glob, json, os, re
root = os.path.dirname(os.path.dirname(os.path.abspath(__file__)))
rows = []
for d in sorted(glob.glob(os.path.join(root, "seeded", "*"))):
    mp = os.path.join(d, "meta.json")
    if not os.path.exists(mp):
        continue
    m = json.load(open(mp))
    name = os.path.basename(d)
    caught = ", ".join(m.get("caught_by") or []) or "-"
    note = (m.get("note") or m.get("verdict") or "").replace("\n", " ").replace("|", "/")
    needs = (m.get("needs_to_manifest") or "").replace("\n", " ").replace("|", "/")
    rows.append("| %s | %s | %s | %s |" % (name, needs, caught, note))
table = ["| seeded change | needs, to manifest | caught by (quick tier) | what the miss changed in the checks |", "|---|---|---|---|"] + rows
p = os.path.join(root, "DESIGN.md")
s = open(p).read()
a, b = "<!-- SEEDED-TABLE-BEGIN -->", "<!-- SEEDED-TABLE-END -->"
assert a in s and b in s, "markers missing in DESIGN.md"
s = s[:s.index(a) + len(a)] + "\n" + "\n".join(table) + "\n" + s[s.index(b):]
open(p, "w").write(s)
print("%d seeded changes in the table" % len(rows))
