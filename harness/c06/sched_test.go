package c06

import (
	"testing"

	"verifharness/kit"
	"verifharness/schedx"
)

// Deadlines under schedules owned by the harness (package schedx). The batches above use one client per key;
// here a command is suspended just before its k-th stripe-lock event (hook H2) - in particular between
// CheckTTL's look at the deadline and the lock it deletes under, and between a command's reading of a
// deadline and its own lock - while another client sets, keeps, replaces or drops the deadline of the same
// key, or removes and re-creates the key. Replies, the final keyspace and every key's deadline (none /
// 100000 s from the prologue / 300000 s from EXPIRE / 500000 s from SETEX and SET EX) must be those of some
// serial order of the same commands.

func init() { schedx.Install() }

var deadlineFirst = []int{1, 0, 0, 1, 0, 6, 12}

// keys that are past their deadline but still stored (EXPIRE 1 issued late in a second; about a second per case)
func TestDeadlineSchedulesExpired(t *testing.T) {
	kit.Check(t, kit.Spec[schedx.Case]{Sub: "sched", Quick: 60, Thorough: 500,
		Gen: schedx.Gen(schedx.Profile{AWeights: deadlineFirst, Expired: 1, Deadlines: true}), Exec: schedx.Exec, TrackCase: true})
}

// far deadlines only: thousands of cases
func TestDeadlineSchedules(t *testing.T) {
	kit.Check(t, kit.Spec[schedx.Case]{Sub: "sched", Quick: 6000, Thorough: 40000,
		Gen: schedx.Gen(schedx.Profile{Fast: true, AWeights: deadlineFirst, Deadlines: true}), Exec: schedx.Exec, TrackCase: true})
}
