// Package c06 checks C06: expiring keys disappear at their deadline and not before.
package c06

import (
	"os"
	"encoding/json"
	"fmt"
	"sort"
	"strconv"
	"strings"
	"sync"
	"testing"
	"time"

	"pgregory.net/rapid"

	"verifharness/gen"
	"verifharness/inproc"
	"verifharness/kit"
	"verifharness/model"
	"verifharness/respx"
	"verifharness/schedx"
)

func TestMain(m *testing.M) { kit.Main(m, "C06") }

// Step: one command issued AtMs milliseconds after the beginning of the second in which the
// scenario starts ("grid time"). "@T" in an argument is replaced by (start second + T) for EXAT.
type Step struct {
	AtMs int     `json:"at_ms"`
	Cmd  kit.Cmd `json:"cmd"`
	Role string  `json:"role"` // create | attach | follow | probe
}

type Scenario struct {
	Type  string `json:"type"`
	Steps []Step `json:"steps"`
}

type Batch struct {
	Scenarios []Scenario `json:"scenarios"`
}

var types = []string{"string", "list", "set", "hash", "zset", "stream"}

func createCmd(typ, k string) kit.Cmd {
	switch typ {
	case "string":
		return kit.MkCmd("SET", k, "10")
	case "list":
		return kit.MkCmd("RPUSH", k, "a", "b")
	case "set":
		return kit.MkCmd("SADD", k, "a", "b")
	case "hash":
		return kit.MkCmd("HSET", k, "f", "1")
	case "zset":
		return kit.MkCmd("ZADD", k, "1", "a", "2", "b")
	}
	return kit.MkCmd("XADD", k, "5-1", "f", "v")
}

// probes per type: every reading and writing command applicable to the type
var readProbes = map[string][][]string{
	"string": {{"GET", "K"}, {"MGET", "K"}, {"STRLEN", "K"}, {"GETRANGE", "K", "0", "-1"}, {"EXISTS", "K"}, {"TYPE", "K"}, {"TTL", "K"}, {"KEYS", "K"}},
	"list":   {{"LLEN", "K"}, {"LRANGE", "K", "0", "-1"}, {"LINDEX", "K", "0"}, {"LPOS", "K", "a"}, {"EXISTS", "K"}, {"TYPE", "K"}, {"TTL", "K"}, {"KEYS", "K"}},
	"set":    {{"SCARD", "K"}, {"SMEMBERS", "K"}, {"SISMEMBER", "K", "a"}, {"SUNION", "K"}, {"SINTER", "K"}, {"SDIFF", "K"}, {"SRANDMEMBER", "K"}, {"EXISTS", "K"}, {"TYPE", "K"}, {"TTL", "K"}},
	"hash":   {{"HLEN", "K"}, {"HGET", "K", "f"}, {"HGETALL", "K"}, {"HEXISTS", "K", "f"}, {"HKEYS", "K"}, {"HVALS", "K"}, {"HMGET", "K", "f"}, {"HSTRLEN", "K", "f"}, {"EXISTS", "K"}, {"TYPE", "K"}, {"TTL", "K"}},
	"zset":   {{"ZRANGE", "K", "0", "-1"}, {"ZRANK", "K", "a"}, {"EXISTS", "K"}, {"TYPE", "K"}, {"TTL", "K"}},
	"stream": {{"XRANGE", "K", "-", "+"}, {"EXISTS", "K"}, {"TYPE", "K"}, {"TTL", "K"}},
}
var writeProbes = map[string][][]string{
	"string": {{"APPEND", "K", "x"}, {"INCR", "K"}, {"INCRBY", "K", "5"}, {"DECR", "K"}, {"SETNX", "K", "n"}, {"SETRANGE", "K", "1", "z"}, {"INCRBYFLOAT", "K", "1"}, {"SET", "K", "w", "XX"}, {"SET", "K", "w", "NX"}, {"SET", "K", "w", "KEEPTTL"}, {"SET", "K", "w", "GET"}, {"RENAME", "K", "K2"}, {"PERSIST", "K"}, {"EXPIRE", "K", "100", "XX"}, {"DEL", "K"}},
	"list":   {{"LPUSH", "K", "z"}, {"RPUSHX", "K", "z"}, {"LPOP", "K"}, {"LSET", "K", "0", "z"}, {"LREM", "K", "0", "a"}, {"LTRIM", "K", "0", "0"}, {"LMOVE", "K", "K2", "LEFT", "LEFT"}, {"RENAME", "K", "K2"}, {"PERSIST", "K"}, {"SET", "K", "w"}, {"SETNX", "K", "w"}, {"SADD", "K", "w"}, {"HSET", "K", "f", "w"}, {"INCR", "K"}},
	"set":    {{"SADD", "K", "z"}, {"SREM", "K", "a"}, {"SPOP", "K"}, {"SMOVE", "K", "K2", "a"}, {"SUNIONSTORE", "K2", "K"}, {"SDIFFSTORE", "K2", "K"}, {"SINTERSTORE", "K2", "K"}, {"RENAME", "K", "K2"}, {"PERSIST", "K"}, {"SET", "K", "w"}, {"SETNX", "K", "w"}, {"LPUSH", "K", "w"}, {"HSET", "K", "f", "w"}, {"APPEND", "K", "w"}},
	"hash":   {{"HSET", "K", "g", "2"}, {"HSETNX", "K", "f", "9"}, {"HINCRBY", "K", "f", "1"}, {"HDEL", "K", "f"}, {"HINCRBYFLOAT", "K", "f", "1"}, {"RENAME", "K", "K2"}, {"PERSIST", "K"}, {"SET", "K", "w"}, {"SETNX", "K", "w"}, {"LPUSH", "K", "w"}, {"SADD", "K", "w"}, {"INCR", "K"}},
	"zset":   {{"ZADD", "K", "3", "c"}, {"ZADD", "K", "XX", "5", "a"}, {"ZREM", "K", "a"}, {"RENAME", "K", "K2"}, {"PERSIST", "K"}, {"SET", "K", "w"}, {"SETNX", "K", "w"}, {"LPUSH", "K", "w"}, {"SADD", "K", "w"}, {"HSET", "K", "f", "w"}},
	"stream": {{"XADD", "K", "9-1", "g", "w"}, {"XADD", "K", "NOMKSTREAM", "9-2", "g", "w"}, {"RENAME", "K", "K2"}, {"PERSIST", "K"}, {"SET", "K", "w"}, {"SETNX", "K", "w"}, {"LPUSH", "K", "w"}, {"SADD", "K", "w"}, {"HSET", "K", "f", "w"}},
}

func subst(tpl []string, k string) kit.Cmd {
	out := make([]string, len(tpl))
	for i, a := range tpl {
		switch a {
		case "K":
			out[i] = k
		case "K2":
			out[i] = k + ":2"
		default:
			out[i] = a
		}
	}
	return kit.MkCmd(out...)
}

// genScenario draws one scenario; idx makes its key unique inside the batch.
func genScenario(t *rapid.T, idx int) Scenario {
	typ := rapid.SampledFrom(types).Draw(t, "type")
	k := fmt.Sprintf("k%d:%s", idx, typ)
	phase := rapid.SampledFrom([]int{100, 500, 900}).Draw(t, "phase")
	sc := Scenario{Type: typ}
	at := phase
	add := func(role string, cmd kit.Cmd) {
		sc.Steps = append(sc.Steps, Step{AtMs: at, Cmd: cmd, Role: role})
		at += 5
	}
	n := rapid.IntRange(1, 3).Draw(t, "n")
	d := -1 // nominal deadline in grid seconds (-1 = none)
	sec := func() int { return at / 1000 }
	if rapid.IntRange(0, 9).Draw(t, "pulledin") == 0 {
		// a deadline set far away and pulled in shortly afterwards; the first command after the new deadline
		// is one of the key's own type (nothing generic has had a chance to tidy up)
		add("create", createCmd(typ, k))
		add("attach", kit.MkCmd("EXPIRE", k, rapid.SampledFrom([]string{"30", "100", "100000"}).Draw(t, "far")))
		at += rapid.SampledFrom([]int{20, 200, 600}).Draw(t, "gap")
		switch rapid.IntRange(0, 3).Draw(t, "how") {
		case 0:
			add("follow", kit.MkCmd("EXPIRE", k, "1", "LT"))
		case 1:
			add("follow", kit.MkCmd("EXPIRE", k, "1", "XX"))
		default:
			add("follow", kit.MkCmd("EXPIRE", k, "1"))
		}
		d = sec() + 1
		at = d*1000 + rapid.SampledFrom([]int{1050, 1300, 1900, 2600}).Draw(t, "poff")
		own := readProbes[typ][:len(readProbes[typ])-3]
		if typ == "string" || typ == "list" {
			own = readProbes[typ][:len(readProbes[typ])-4]
		}
		if rapid.IntRange(0, 3).Draw(t, "ownw") == 0 {
			var ws [][]string
			for _, w := range writeProbes[typ] {
				if w[0] != "RENAME" && w[0] != "PERSIST" && w[0] != "EXPIRE" && w[0] != "DEL" {
					ws = append(ws, w)
				}
			}
			add("probe", subst(rapid.SampledFrom(ws).Draw(t, "oww"), k))
		} else {
			add("probe", subst(rapid.SampledFrom(own).Draw(t, "owr"), k))
		}
		add("probe", subst(readProbes[typ][0], k))
		add("probe", kit.MkCmd("EXISTS", k))
		add("probe", kit.MkCmd("TTL", k))
		return sc
	}
	// create (strings may be created by the attaching command itself)
	attach := rapid.SampledFrom([]string{"expire", "expire", "expire-opt", "setex", "set-ex", "set-px", "set-exat", "none", "expire-far"}).Draw(t, "attach")
	if typ != "string" && attach != "expire" && attach != "expire-opt" && attach != "none" && attach != "expire-far" {
		attach = "expire"
	}
	switch attach {
	case "setex":
		add("attach", kit.MkCmd("SETEX", k, strconv.Itoa(n), "10"))
		d = sec() + n
	case "set-ex":
		add("attach", kit.MkCmd("SET", k, "10", "EX", strconv.Itoa(n)))
		d = sec() + n
	case "set-px":
		add("attach", kit.MkCmd("SET", k, "10", "PX", strconv.Itoa(n*1000)))
		d = sec() + n
	case "set-exat":
		add("attach", kit.MkCmd("SET", k, "10", "EXAT", fmt.Sprintf("@%d", sec()+n)))
		d = sec() + n
	default:
		add("create", createCmd(typ, k))
		if attach == "expire" {
			add("attach", kit.MkCmd("EXPIRE", k, strconv.Itoa(n)))
			d = sec() + n
		} else if attach == "expire-far" {
			// a deadline far away that a follow-up usually pulls in: whatever was armed for the far instant
			// must not be what decides when the key goes
			far := rapid.SampledFrom([]int{30, 100, 100000}).Draw(t, "far")
			add("attach", kit.MkCmd("EXPIRE", k, strconv.Itoa(far)))
			d = sec() + far
		} else if attach == "expire-opt" {
			// optionally give the key a prior deadline, then EXPIRE with an option
			prior := rapid.SampledFrom([]int{0, 0, 1, 2, 50}).Draw(t, "prior")
			if prior > 0 {
				add("attach", kit.MkCmd("EXPIRE", k, strconv.Itoa(prior)))
				d = sec() + prior
			}
			opt := rapid.SampledFrom([]string{"NX", "XX", "GT", "LT", "nx", "xx", "gt", "lt"}).Draw(t, "opt")
			if rapid.IntRange(0, 3).Draw(t, "nonpos") == 0 {
				// a deadline that is already over: the key goes at once - if the option's condition holds
				n = rapid.SampledFrom([]int{0, -5}).Draw(t, "npval")
			}
			add("attach", kit.MkCmd("EXPIRE", k, strconv.Itoa(n), opt))
			nd := sec() + n
			switch strings.ToUpper(opt) {
			case "NX":
				if d < 0 {
					d = nd
				}
			case "XX":
				if d >= 0 {
					d = nd
				}
			case "GT":
				if d >= 0 && nd > d {
					d = nd
				}
			case "LT":
				if d < 0 || nd < d {
					d = nd
				}
			}
		}
	}
	// follow-ups at +200 ms
	at += 200
	nf := rapid.IntRange(0, 2).Draw(t, "nfollow")
	for i := 0; i < nf; i++ {
		var choices []string
		choices = append(choices, "persist", "del-recreate", "expire-longer", "expire-shorter", "touch")
		if typ != "string" && typ != "stream" {
			choices = append(choices, "empty-recreate", "empty-recreate")
		}
		if typ == "string" {
			choices = append(choices, "overwrite", "overwrite-keepttl", "mset", "refused-write", "refused-write")
		}
		if attach == "expire-far" {
			choices = append(choices, "expire-shorter", "expire-shorter", "expire-shorter", "expire-shorter-lt", "expire-shorter-lt")
		}
		switch rapid.SampledFrom(choices).Draw(t, "follow") {
		case "persist":
			add("follow", kit.MkCmd("PERSIST", k))
			d = -1
		case "empty-recreate": // the key ceases to exist because its last element goes: the deadline goes with it
			empt := map[string][][][]string{
				"list": {{{"LPOP", "K", "10"}}, {{"RPOP", "K", "10"}}, {{"LTRIM", "K", "1", "0"}}, {{"LREM", "K", "0", "a"}, {"LREM", "K", "0", "b"}, {"LREM", "K", "0", "y"}, {"LREM", "K", "0", "z"}},
					{{"LPOP", "K"}, {"RPOP", "K"}, {"LPOP", "K"}, {"LPOP", "K"}}, {{"LMOVE", "K", "K2", "LEFT", "LEFT"}, {"LMOVE", "K", "K2", "LEFT", "LEFT"}, {"LMOVE", "K", "K2", "LEFT", "LEFT"}, {"LMOVE", "K", "K2", "LEFT", "LEFT"}}},
				"set": {{{"SPOP", "K", "10"}}, {{"SPOP", "K", "4"}}, {{"SREM", "K", "a", "b", "y", "z"}}, {{"SPOP", "K"}, {"SPOP", "K"}, {"SPOP", "K"}, {"SPOP", "K"}},
					{{"SMOVE", "K", "K2", "a"}, {"SMOVE", "K", "K2", "b"}, {"SMOVE", "K", "K2", "y"}, {"SMOVE", "K", "K2", "z"}}},
				"hash": {{{"HDEL", "K", "f", "g", "y"}}, {{"HDEL", "K", "f"}, {"HDEL", "K", "g"}, {"HDEL", "K", "y"}}},
				"zset": {{{"ZREM", "K", "a", "b", "c", "y"}}, {{"ZREM", "K", "a"}, {"ZREM", "K", "b"}, {"ZREM", "K", "c"}, {"ZREM", "K", "y"}}},
			}[typ]
			for _, cmd := range rapid.SampledFrom(empt).Draw(t, "emptier") {
				add("follow", subst(cmd, k))
			}
			add("follow", createCmd(typ, k))
			d = -1
		case "del-recreate":
			add("follow", kit.MkCmd("DEL", k))
			add("follow", createCmd(typ, k))
			d = -1
		case "expire-longer":
			m := n + rapid.IntRange(1, 2).Draw(t, "longer")
			add("follow", kit.MkCmd("EXPIRE", k, strconv.Itoa(m)))
			d = sec() + m
		case "expire-shorter":
			add("follow", kit.MkCmd("EXPIRE", k, "1"))
			d = sec() + 1
		case "expire-shorter-lt":
			if d >= 0 && sec()+1 < d {
				add("follow", kit.MkCmd("EXPIRE", k, "1", "LT"))
				d = sec() + 1
			}
		case "touch": // a write that must not touch the deadline
			if typ == "list" && rapid.Bool().Draw(t, "rotate") {
				if rapid.Bool().Draw(t, "single") {
					add("follow", kit.MkCmd("LPOP", k)) // down to one element: the rotation passes through "empty"
				}
				add("follow", kit.MkCmd("LMOVE", k, k, "LEFT", "RIGHT")) // a rotation in place: same key, same deadline
				break
			}
			w := map[string][]string{"string": {"APPEND", "K", "y"}, "list": {"LPUSH", "K", "y"}, "set": {"SADD", "K", "y"},
				"hash": {"HSET", "K", "y", "1"}, "zset": {"ZADD", "K", "9", "y"}, "stream": {"XADD", "K", "7-1", "y", "1"}}[typ]
			add("follow", subst(w, k))
		case "refused-write": // a conditional write that is refused because the key exists: nothing changes, the deadline neither
			add("follow", subst(rapid.SampledFrom([][]string{{"SET", "K", "w", "NX"}, {"SET", "K", "w", "NX", "EX", "100"}, {"SET", "K", "w", "NX", "GET"},
				{"SETNX", "K", "w"}, {"SET", "K", "w", "NX", "PX", "100000"}}).Draw(t, "refused"), k))
		case "overwrite":
			add("follow", kit.MkCmd("SET", k, "20"))
			d = -1
		case "overwrite-keepttl":
			add("follow", kit.MkCmd("SET", k, "20", "KEEPTTL"))
		case "mset":
			add("follow", kit.MkCmd("MSET", k, "30"))
			d = -1
		}
	}
	// probes around the nominal deadline (or late in the batch for keys without one)
	np := rapid.IntRange(1, 3).Draw(t, "nprobes")
	var times []int
	for i := 0; i < np; i++ {
		if d >= 0 {
			times = append(times, d*1000+rapid.SampledFrom([]int{-600, -150, 30, 60, 400, 950, 1200, 1600, 2100}).Draw(t, "off"))
		} else {
			times = append(times, rapid.SampledFrom([]int{1500, 2500, 3500, 4200}).Draw(t, "late"))
		}
	}
	sort.Ints(times)
	for _, tm := range times {
		if tm <= at {
			tm = at + 20
		}
		at = tm
		var tpl []string
		switch rw := rapid.IntRange(0, 3).Draw(t, "rw"); {
		case rw == 0:
			tpl = rapid.SampledFrom(writeProbes[typ]).Draw(t, "wprobe")
		case rw == 3:
			// a command of the key's own type first: the generic ones (EXISTS TYPE TTL KEYS) may tidy up on their way
			own := readProbes[typ][:len(readProbes[typ])-3]
			tpl = rapid.SampledFrom(own).Draw(t, "oprobe")
		default:
			tpl = pickProbe(t, "rprobe", readProbes[typ])
		}
		add("probe", subst(tpl, k))
		// reads right after it: what a write started from, and whether different commands agree on
		// the key's presence within the same instant
		if rapid.Bool().Draw(t, "after") {
			add("probe", subst(readProbes[typ][0], k))
			add("probe", kit.MkCmd("TTL", k))
		}
		if rapid.Bool().Draw(t, "agree") {
			add("probe", kit.MkCmd("EXISTS", k))
			add("probe", subst(pickProbe(t, "rprobe2", readProbes[typ]), k))
			add("probe", subst(pickProbe(t, "rprobe3", readProbes[typ]), k))
		}
	}
	if at > 4800 {
		// keep the batch inside ~5 s: drop steps scheduled too late
		var kept []Step
		for _, s := range sc.Steps {
			if s.AtMs <= 4800 {
				kept = append(kept, s)
			}
		}
		sc.Steps = kept
	}
	return sc
}

// KEYS visits every key of the database and tidies up each expired one on its way: one KEYS anywhere in
// a batch would hide a key that outlives its deadline in every other scenario of the batch. Three batches
// in four therefore run without it.
var withKeys = true

func genBatch(t *rapid.T) Batch {
	n := rapid.SampledFrom([]int{40, 120, 250}).Draw(t, "scenarios")
	withKeys = rapid.IntRange(0, 3).Draw(t, "withkeys") == 0
	b := Batch{}
	for i := 0; i < n; i++ {
		b.Scenarios = append(b.Scenarios, genScenario(t, i))
	}
	return b
}

// pickProbe draws a probe; in a batch without KEYS a drawn KEYS becomes EXISTS.
func pickProbe(t *rapid.T, label string, from [][]string) []string {
	tpl := rapid.SampledFrom(from).Draw(t, label)
	if tpl[0] == "KEYS" && !withKeys {
		return []string{"EXISTS", "K"}
	}
	return tpl
}

type obs struct {
	cmd    kit.Cmd
	role   string
	tb, ta time.Time
	res    inproc.Result
}

// world: one possible state of the reference model + which deadlines are exact (EXAT)
type world struct {
	db    *model.DB
	exact map[string]bool
}

func (w *world) clone() *world {
	e := map[string]bool{}
	for k, v := range w.exact {
		e[k] = v
	}
	return &world{db: w.db.Clone(), exact: e}
}

// judge replays the observations of one scenario through the set of possible worlds.
func judge(sc Scenario, observations []obs) (fail string, decided int, inconclusive bool) {
	worlds := []*world{{db: model.NewDB(), exact: map[string]bool{}}}
	for i, ob := range observations {
		if ob.res.Panic != "" {
			return fmt.Sprintf("step %d %s panicked: %.300s", i, ob.cmd.String(), ob.res.Panic), decided, false
		}
		if ob.res.DecErr != nil {
			return fmt.Sprintf("step %d %s: malformed reply %q", i, ob.cmd.String(), ob.res.Raw), decided, false
		}
		s := ob.tb.Unix()
		if ob.ta.Unix() != s {
			return "", decided, true // the command straddled a second boundary: its clock reading is unknown
		}
		name := strings.ToLower(string(ob.cmd[0]))
		isExat := false
		for _, a := range ob.cmd {
			if strings.EqualFold(string(a), "exat") {
				isExat = true
			}
		}
		var next []*world
		var firstErr error
		ambiguous := false
		for _, w := range worlds {
			// keys of this scenario whose whole-second deadline is "now": the implementation may keep
			// sub-second precision, so within this second the key may or may not have expired yet
			var amb []string
			for k, d := range w.db.Exp {
				if d == s && !w.exact[k] {
					amb = append(amb, k)
				}
			}
			variants := []int64{s}
			if len(amb) > 0 {
				variants = append(variants, s-1) // second world: not expired yet
				ambiguous = true
			}
			for _, purgeNow := range variants {
				c := w.clone()
				before := map[string]int64{}
				for k, d := range c.db.Exp {
					before[k] = d
				}
				want := c.db.ExecP(ob.cmd.Bytes(), s, purgeNow)
				if want.T == '?' {
					return "", decided, true
				}
				// TTL in the not-yet-expired world: remaining time is a fraction of a second
				if purgeNow != s && name == "ttl" && ob.res.Val.Kind == respx.Integer && (ob.res.Val.Int == 0 || ob.res.Val.Int == 1) {
					if _, live := c.db.Keys[string(ob.cmd[1])]; live {
						next = append(next, c)
						continue
					}
				}
				if err := model.Match(want, ob.res.Val); err != nil {
					if firstErr == nil {
						firstErr = err
					}
					continue
				}
				for k, d := range c.db.Exp {
					if before[k] != d {
						c.exact[k] = isExat
					}
				}
				for k := range c.exact {
					if _, ok := c.db.Exp[k]; !ok {
						delete(c.exact, k)
					}
				}
				next = append(next, c)
			}
		}
		if len(next) == 0 {
			return fmt.Sprintf("step %d (%s, issued %s, %d ms into its second) %s: %v [type %s; %d candidate world(s)]",
				i, ob.role, ob.tb.Format("15:04:05.000"), ob.tb.Nanosecond()/1e6, ob.cmd.String(), firstErr, sc.Type, len(worlds)), decided, false
		}
		if !ambiguous && ob.role == "probe" {
			decided++
		}
		if len(next) > 16 {
			next = next[:16]
		}
		worlds = next
	}
	return "", decided, false
}

func execBatch(b Batch) kit.Outcome {
	db := inproc.New(16, 0)
	// align the grid: start at the beginning of the next second
	now := time.Now()
	base := now.Truncate(time.Second).Add(time.Second)
	if base.Sub(now) < 50*time.Millisecond {
		base = base.Add(time.Second)
	}
	results := make([][]obs, len(b.Scenarios))
	var wg sync.WaitGroup
	for i := range b.Scenarios {
		wg.Add(1)
		go func(i int) {
			defer wg.Done()
			for _, st := range b.Scenarios[i].Steps {
				target := base.Add(time.Duration(st.AtMs) * time.Millisecond)
				if d := time.Until(target); d > 0 {
					time.Sleep(d)
				}
				cmd := make(kit.Cmd, len(st.Cmd))
				for j, a := range st.Cmd {
					if strings.HasPrefix(string(a), "@") {
						n, _ := strconv.Atoi(string(a)[1:])
						cmd[j] = kit.B(strconv.FormatInt(base.Unix()+int64(n), 10))
					} else {
						cmd[j] = a
					}
				}
				tb := time.Now()
				res := db.Do(cmd.Bytes())
				ta := time.Now()
				results[i] = append(results[i], obs{cmd: cmd, role: st.Role, tb: tb, ta: ta, res: res})
			}
		}(i)
	}
	done := make(chan struct{})
	go func() { wg.Wait(); close(done) }()
	select {
	case <-done:
	case <-time.After(20 * time.Second):
		// commands that never return: a lock was leaked (e.g. by a panic inside a locked region, which
		// would have killed a real server) or executors deadlocked
		return kit.Outcome{Fail: "commands did not return within 15 s after the end of the schedule: executors are wedged on a lock (a panic inside a locked region, or a deadlock)"}
	}
	o := kit.Outcome{}
	decidedTotal, inconcl := 0, 0
	for i, sc := range b.Scenarios {
		fail, decided, inc := judge(sc, results[i])
		if inc {
			inconcl++
		}
		decidedTotal += decided
		if fail != "" && o.Fail == "" {
			o.Fail = fmt.Sprintf("scenario %d: %s", i, fail)
			// the failing scenario alone is the reproduction
			o.ReplayJSON, _ = json.Marshal(Batch{Scenarios: []Scenario{sc}})
		}
		if decided > 0 {
			// generator distribution: deadlines pulled in from far away, probed by a command of the key's own type
			far, pulled := false, false
			for _, st := range sc.Steps {
				name := strings.ToLower(string(st.Cmd[0]))
				if name == "expire" && len(st.Cmd) >= 3 {
					if v, _ := strconv.Atoi(string(st.Cmd[2])); v >= 30 && st.Role == "attach" {
						far = true
					} else if far && st.Role == "follow" && v == 1 {
						pulled = true
					}
				}
				if pulled && st.Role == "probe" {
					generic := name == "exists" || name == "type" || name == "ttl" || name == "keys" || name == "persist" || name == "rename" || name == "expire"
					if !generic {
						kit.C.Label("shape:far-deadline-pulled-in-then-own-type-probe-first:"+sc.Type, 1)
						if dbg := os.Getenv("VERIF_DEBUG_SHAPES"); dbg != "" && (sc.Type == "zset" || sc.Type == "stream") {
							if f, err := os.OpenFile(dbg, os.O_APPEND|os.O_CREATE|os.O_WRONLY, 0o644); err == nil {
								js, _ := json.Marshal(sc)
								fmt.Fprintf(f, "%s\n", js)
								for _, ob := range results[i] {
									fmt.Fprintf(f, "   %s %s -> %s\n", ob.tb.Format("05.000"), ob.cmd.String(), ob.res.Val.String())
								}
								f.Close()
							}
						}
					} else {
						kit.C.Label("shape:far-deadline-pulled-in-then-generic-probe-first", 1)
					}
					break
				}
			}
			sig := sc.Type
			for _, st := range sc.Steps {
				sig += "|" + strings.ToLower(string(st.Cmd[0]))
				if st.Role == "attach" && len(st.Cmd) > 3 {
					sig += ":" + strings.ToLower(string(st.Cmd[3]))
				}
			}
			kit.C.RecordHash(kit.Hash([]byte(sig)), true, "decided-scenario:"+sc.Type)
			if i < 2 {
				kit.C.AddSample(sc)
			}
		}
	}
	usedKeys := false
	for _, sc := range b.Scenarios {
		for _, st := range sc.Steps {
			if strings.EqualFold(string(st.Cmd[0]), "KEYS") {
				usedKeys = true
			}
		}
	}
	if usedKeys {
		kit.C.Label("batches-with-a-KEYS-probe (it tidies up every expired key)", 1)
	} else {
		kit.C.Label("batches-without-KEYS", 1)
	}
	kit.C.Label("decided-probes", int64(decidedTotal))
	kit.C.Label("inconclusive-scenarios(second-boundary)", int64(inconcl))
	o.NonTrivial = decidedTotal > 0
	if err := db.CheckAll(); err != nil && o.Fail == "" {
		o.Fail = "structural check after the batch: " + err.Error()
	}
	return o
}

func TestBatches(t *testing.T) {
	_ = gen.Pick
	kit.Check(t, kit.Spec[Batch]{Sub: "batch", Quick: 3, Thorough: 60, Gen: genBatch, Exec: execBatch, NoShrink: true})
}

func TestReplay(t *testing.T) {
	kit.Replay[Batch](t, map[string]func(kit.RawCase) kit.Outcome{"batch": kit.ReplaySub(execBatch), "sched": kit.ReplaySub(schedx.Exec)})
}
