// Package c14 checks C14: cluster mode does not change what a command means.
package c14

import (
	"bytes"
	"encoding/json"
	"fmt"
	"sort"
	"strconv"
	"strings"
	"testing"
	"time"

	"github.com/innovationb1ue/RedisGO/raftexample"
	"pgregory.net/rapid"

	"verifharness/c01"
	"verifharness/c09"
	"verifharness/c10"
	"verifharness/c11"
	"verifharness/c12"
	"verifharness/c18"
	"verifharness/gen"
	"verifharness/kit"
	"verifharness/prog"
	"verifharness/respx"
	"verifharness/srv"
)

func TestMain(m *testing.M) { kit.Main(m, "C14") }

// ---------------------------------------------------------------- in-process: the proposal payload round-trips

type EncCase struct {
	Args kit.Cmd   `json:"args"`
	More []kit.Cmd `json:"more,omitempty"` // further commands committed in the same batch
}

// effective argument vector the apply loop executes for a decoded proposal
func effective(q *raftexample.RaftProposal) [][]byte {
	if q.Args != nil {
		return q.Args
	}
	var out [][]byte
	for _, s := range strings.Split(q.Data, " ") {
		out = append(out, []byte(s))
	}
	return out
}

// execEnc: what a node proposes (RaftProposal.ToBytes, the payload handed to Raft) is decoded by the
// code path every replica and every replay uses (publishEntries, reached through hook VerifPublish);
// the argument vectors that come out must be the ones that went in, for every command of a batch.
func execEnc(c EncCase) kit.Outcome {
	cmds := append([]kit.Cmd{c.Args}, c.More...)
	var payloads [][]byte
	for i, cmd := range cmds {
		args := cmd.Bytes()
		strs := make([]string, len(args))
		for j, a := range args {
			strs[j] = string(a)
		}
		p := &raftexample.RaftProposal{Data: strings.Join(strs, " "), Args: args, ID: fmt.Sprintf("id-%d", i)}
		payloads = append(payloads, p.ToBytes())
	}
	out, err := raftexample.VerifPublish(payloads)
	if err != nil {
		return kit.Outcome{Fail: fmt.Sprintf("the log entries of %s do not decode: %v", c.Args.String(), err)}
	}
	o := kit.Outcome{}
	if len(out) != len(cmds) {
		o.Fail = fmt.Sprintf("%d commands went into the log, %d came out of it", len(cmds), len(out))
		return o
	}
	for i, cmd := range cmds {
		args := cmd.Bytes()
		for _, a := range args {
			if len(a) == 0 || bytes.ContainsAny(a, " \r\n\"\\") || !json.Valid(append(append([]byte{'"'}, bytes.ReplaceAll(a, []byte{'"'}, nil)...), '"')) {
				o.NonTrivial = true
			}
		}
		if len(args) >= 256 {
			o.NonTrivial = true
			o.Labels = append(o.Labels, "256-or-more-arguments")
		}
		if out[i].ID != fmt.Sprintf("id-%d", i) {
			o.Fail = fmt.Sprintf("command %d of the batch came out with id %q", i, out[i].ID)
			return o
		}
		got := effective(out[i])
		if len(got) != len(args) {
			o.Fail = fmt.Sprintf("%.300s: %d arguments went into the log entry, %d came out", cmd.String(), len(args), len(got))
			return o
		}
		for j := range args {
			if !bytes.Equal(got[j], args[j]) {
				o.Fail = fmt.Sprintf("%.300s: argument %d changed in the log entry: %q -> %q", cmd.String(), j, args[j], got[j])
				return o
			}
		}
	}
	if len(cmds) > 1 {
		o.Labels = append(o.Labels, "batch")
	}
	return o
}

func genEncCmd(t *rapid.T) kit.Cmd {
	n := rapid.IntRange(1, 6).Draw(t, "n")
	if rapid.IntRange(0, 11).Draw(t, "wide") == 0 {
		// argument counts around the byte and short boundaries
		n = rapid.SampledFrom([]int{127, 128, 129, 255, 256, 257, 300, 513, 1025}).Draw(t, "nwide")
	}
	args := make([]string, n)
	for i := range args {
		if n > 6 {
			args[i] = fmt.Sprintf("a%d", i)
			if i%50 == 7 {
				args[i] = gen.Value(t, "arg")
			}
			continue
		}
		args[i] = gen.Value(t, "arg")
	}
	if rapid.IntRange(0, 9).Draw(t, "huge") == 0 {
		unit := gen.Value(t, "unit")
		if len(unit) > 3 {
			unit = unit[:3]
		}
		args[len(args)-1] = strings.Repeat(unit+"x", rapid.SampledFrom([]int{255, 256, 65535, 65536, 70000}).Draw(t, "rep"))
	}
	return kit.MkCmd(args...)
}

func TestEncoding(t *testing.T) {
	kit.Check(t, kit.Spec[EncCase]{Sub: "enc", Quick: 600, Thorough: 60000,
		Gen: func(t *rapid.T) EncCase {
			c := EncCase{Args: genEncCmd(t)}
			for i := rapid.IntRange(0, 3).Draw(t, "more"); i > 0; i-- {
				c.More = append(c.More, genEncCmd(t))
			}
			return c
		},
		Exec: execEnc})
}

// ---------------------------------------------------------------- differential: standalone vs cluster

type Case struct {
	Family string       `json:"family"`
	Nodes  int          `json:"nodes"` // 1 or 3
	Prog   prog.Program `json:"prog"`
	Spray  []int        `json:"spray,omitempty"` // 3 nodes: which node gets command i (mod len)
}

var families = []string{"strings", "lists", "hashes", "sets", "zsets", "streams", "hostile"}

// commands whose outcome depends on the local clock or on randomness (C07's finding S7), on connection
// state or on timing: not part of "what a deterministic command means"
func excluded(cmd kit.Cmd) bool {
	name := strings.ToLower(string(cmd[0]))
	// a deadline is only part of a comparable program when it is refused (not positive, not a number) or so
	// far away that no replica reaches it while the case runs (every replica adds it to its own clock)
	farOrRefused := func(arg kit.B, far int64) bool {
		n, err := strconv.ParseInt(string(arg), 10, 64)
		return err != nil || n <= 0 || n >= far
	}
	switch name {
	case "spop", "srandmember", "hrandfield", "blpop", "brpop", "ttl", "subscribe", "publish", "select", "rconf", "member":
		return true
	case "expire", "setex":
		return len(cmd) < 3 || !farOrRefused(cmd[2], 100000)
	case "set":
		for i := 3; i < len(cmd); i++ {
			switch strings.ToLower(string(cmd[i])) {
			case "ex":
				if i+1 >= len(cmd) || !farOrRefused(cmd[i+1], 100000) {
					return true
				}
			case "px":
				if i+1 >= len(cmd) || !farOrRefused(cmd[i+1], 100000000) {
					return true
				}
			case "exat":
				if i+1 >= len(cmd) || !farOrRefused(cmd[i+1], 4000000000) {
					return true
				}
			}
		}
	}
	return false
}

// autoID: XADD with an ID the server derives from its clock: the IDs differ between any two servers, what is
// comparable is whether the command is accepted, and the entries' fields
func autoID(cmd kit.Cmd) bool {
	if !strings.EqualFold(string(cmd[0]), "xadd") {
		return false
	}
	for _, a := range cmd[1:] {
		if string(a) == "*" || strings.HasSuffix(string(a), "-*") {
			return true
		}
	}
	return false
}

func genHostile(t *rapid.T) prog.Program {
	var p prog.Program
	n := rapid.IntRange(2, 20).Draw(t, "n")
	vals := []string{"", " ", "a b", "  two  spaces ", "\r\n", "x\r\ny", "\"q\"", "\\", "\x80", "\xff\xfe", "{\"j\":1}", "ü", "日本", "tab\there", "a  b"}
	v := func() string { return rapid.SampledFrom(vals).Draw(t, "hv") }
	k := func() string { return gen.Pick(t, "hk", "k", "k 1", "", "K", "k\r\n", "\xffk") }
	for i := 0; i < n; i++ {
		switch rapid.IntRange(0, 10).Draw(t, "hop") {
		case 0:
			p.Ops = append(p.Ops, kit.MkCmd(gen.CaseOf(t, "set"), k(), v()), kit.MkCmd("GET", k()))
		case 1:
			p.Ops = append(p.Ops, kit.MkCmd("RPUSH", k(), v(), v()), kit.MkCmd("LRANGE", k(), "0", "-1"))
		case 2:
			p.Ops = append(p.Ops, kit.MkCmd("SADD", k(), v(), v()), kit.MkCmd("SMEMBERS", k()), kit.MkCmd("SISMEMBER", k(), v()))
		case 3:
			p.Ops = append(p.Ops, kit.MkCmd("HSET", k(), v(), v()), kit.MkCmd("HGETALL", k()), kit.MkCmd("HGET", k(), v()))
		case 4:
			p.Ops = append(p.Ops, kit.MkCmd("ZADD", k(), "1", v()), kit.MkCmd("ZRANGE", k(), "0", "-1"))
		case 5:
			p.Ops = append(p.Ops, kit.MkCmd("XADD", k(), fmt.Sprintf("%d-1", i+1), v(), v()), kit.MkCmd("XRANGE", k(), "-", "+"))
		case 6:
			p.Ops = append(p.Ops, kit.MkCmd("APPEND", k(), v()), kit.MkCmd("STRLEN", k()))
		case 7:
			p.Ops = append(p.Ops, kit.MkCmd("MSET", k(), v(), k(), v()), kit.MkCmd("MGET", k(), k()))
		case 8:
			p.Ops = append(p.Ops, kit.MkCmd("DEL", k()), kit.MkCmd("EXISTS", k(), k()), kit.MkCmd("TYPE", k()))
		case 9:
			// what stands in the place of the command name is one byte string like the others
			p.Ops = append(p.Ops, kit.MkCmd(gen.Pick(t, "hname", "SET k", "set  k", "GET k", "", " ", "PING x", "del k", "SET\r\n", "\xffSET", "LPUSH k"), k(), v()), kit.MkCmd("KEYS", "*"))
		default:
			p.Ops = append(p.Ops, kit.MkCmd("PING", v()), kit.MkCmd("KEYS", "*"), kit.MkCmd("RENAME", k(), k()))
		}
	}
	return p
}

func genCase(t *rapid.T) Case {
	c := Case{Family: rapid.SampledFrom(families).Draw(t, "family"), Nodes: 1}
	if rapid.IntRange(0, 3).Draw(t, "three") == 0 {
		c.Nodes = 3
		c.Spray = rapid.SliceOfN(rapid.IntRange(1, 3), 1, 8).Draw(t, "spray")
	}
	var p prog.Program
	switch c.Family {
	case "strings":
		p = c01.GenProgram(t)
	case "lists":
		p = c09.GenProgram(t)
	case "hashes":
		p = c10.GenProgram(t)
	case "sets":
		p = c11.GenProgram(t)
	case "zsets":
		p = c12.GenProgram(t)
	case "streams":
		p = c18.GenProgram(t)
	default:
		p = genHostile(t)
	}
	for _, op := range p.Ops {
		if len(op) > 0 && !excluded(op) {
			c.Prog.Ops = append(c.Prog.Ops, op)
		}
	}
	if len(c.Prog.Ops) > 60 {
		c.Prog.Ops = c.Prog.Ops[:60]
	}
	return c
}

var standalone *srv.Server
var clusters = map[int]*srv.Cluster{}

func fixtures(nodes int) (*srv.Server, *srv.Cluster, error) {
	if standalone == nil || !standalone.Alive() {
		if standalone != nil {
			standalone.Stop()
		}
		s, err := srv.Start(srv.Options{Databases: 1})
		if err != nil {
			return nil, nil, err
		}
		standalone = s
	}
	c := clusters[nodes]
	ok := c != nil
	if ok {
		for i := 1; i <= nodes; i++ {
			if !c.Alive(i) {
				ok = false
			}
		}
	}
	if !ok {
		if c != nil {
			c.Stop()
		}
		nc, err := srv.StartCluster(srv.ClusterOptions{Size: nodes})
		if err != nil {
			return nil, nil, err
		}
		clusters[nodes] = nc
		c = nc
	}
	return standalone, c, nil
}

func stopAll() {
	if standalone != nil {
		standalone.Stop()
		standalone = nil
	}
	for k, c := range clusters {
		c.Stop()
		delete(clusters, k)
	}
}

var unordered = map[string]int{"smembers": 1, "sunion": 1, "sinter": 1, "sdiff": 1, "hkeys": 1, "hvals": 1, "keys": 1, "hgetall": 2}

// canon renders a reply; replies whose element order is unspecified are sorted first.
func canon(cmd kit.Cmd, v respx.Value) string {
	name := strings.ToLower(string(cmd[0]))
	if step, ok := unordered[name]; ok && v.Kind == respx.Array && !v.Null {
		var items []string
		for i := 0; i+step <= len(v.Arr); i += step {
			s := v.Arr[i].String()
			if step == 2 {
				s += "=>" + v.Arr[i+1].String()
			}
			items = append(items, s)
		}
		sort.Strings(items)
		return "unordered[" + strings.Join(items, " ") + "]"
	}
	return v.String()
}

func wipe(cn *srv.Conn) error {
	v, err := cn.DoS(5*time.Second, "KEYS", "*")
	if err != nil {
		return err
	}
	for _, k := range v.Arr {
		if _, err := cn.Do(5*time.Second, []byte("DEL"), k.Str); err != nil {
			return err
		}
	}
	return nil
}

// maskIDs renders an XRANGE reply without its IDs
func maskIDs(v respx.Value) string {
	if v.Kind != respx.Array {
		return v.String()
	}
	var sb strings.Builder
	for _, e := range v.Arr {
		if e.Kind == respx.Array && len(e.Arr) == 2 {
			sb.WriteString("[<id> " + e.Arr[1].String() + "]")
		} else {
			sb.WriteString(e.String())
		}
	}
	return sb.String()
}

func dump(cn *srv.Conn, maskStreamIDs bool) (string, error) {
	v, err := cn.DoS(5*time.Second, "KEYS", "*")
	if err != nil {
		return "", err
	}
	var keys []string
	for _, k := range v.Arr {
		keys = append(keys, string(k.Str))
	}
	sort.Strings(keys)
	var sb strings.Builder
	for _, k := range keys {
		if strings.HasPrefix(k, "__ready:") {
			continue
		}
		t, err := cn.DoS(5*time.Second, "TYPE", k)
		if err != nil {
			return "", err
		}
		var read kit.Cmd
		switch string(t.Str) {
		case "string":
			read = kit.MkCmd("GET", k)
		case "list":
			read = kit.MkCmd("LRANGE", k, "0", "-1")
		case "set":
			read = kit.MkCmd("SMEMBERS", k)
		case "hash":
			read = kit.MkCmd("HGETALL", k)
		case "zset":
			read = kit.MkCmd("ZRANGE", k, "0", "-1", "WITHSCORES")
		case "stream":
			read = kit.MkCmd("XRANGE", k, "-", "+")
		default:
			read = kit.MkCmd("EXISTS", k)
		}
		r, err := cn.Do(5*time.Second, read.Bytes()...)
		if err != nil {
			return "", err
		}
		if maskStreamIDs && string(t.Str) == "stream" {
			fmt.Fprintf(&sb, "%q %s = %s\n", k, t.String(), maskIDs(r))
			continue
		}
		fmt.Fprintf(&sb, "%q %s = %s\n", k, t.String(), canon(read, r))
	}
	return sb.String(), nil
}

func execDiff(c Case) kit.Outcome {
	sa, cl, err := fixtures(c.Nodes)
	if err != nil {
		return kit.Outcome{Fail: "infrastructure: " + err.Error()}
	}
	a, err := sa.Dial()
	if err != nil {
		return kit.Outcome{Fail: "infrastructure: " + err.Error()}
	}
	defer a.Close()
	conns := make([]*srv.Conn, c.Nodes)
	for i := range conns {
		conns[i], err = cl.Dial(i + 1)
		if err != nil {
			return kit.Outcome{Fail: "infrastructure: " + err.Error()}
		}
		defer conns[i].Close()
	}
	if err := wipe(a); err != nil {
		return kit.Outcome{Fail: "infrastructure: wipe standalone: " + err.Error()}
	}
	if err := wipe(conns[0]); err != nil {
		return kit.Outcome{Fail: "infrastructure: wipe cluster: " + err.Error()}
	}
	o := kit.Outcome{Labels: []string{fmt.Sprintf("nodes:%d", c.Nodes), "family:" + c.Family}}
	died := func(what string) string {
		for i := 1; i <= c.Nodes; i++ {
			if !cl.Alive(i) {
				rep := cl.CrashReport(i)
				cl.Stop()
				delete(clusters, c.Nodes)
				return fmt.Sprintf("%s: cluster node %d died: %.500s", what, i, rep)
			}
		}
		return what
	}
	stored, readBack := false, false
	autoIDs := false
	for i, cmd := range c.Prog.Ops {
		for _, arg := range cmd[1:] {
			if len(arg) == 0 || bytes.ContainsAny([]byte(arg), " ") || !json.Valid([]byte(`"`+strings.NewReplacer(`"`, ``, `\`, ``, "\n", "", "\r", "", "\t", "").Replace(string(arg))+`"`)) {
				stored = true
			}
		}
		if stored && i > 0 {
			readBack = true
		}
		ra, err := a.Do(5*time.Second, cmd.Bytes()...)
		if err != nil {
			if !sa.Alive() {
				standalone = nil
				return kit.Outcome{Inconclusive: true, Labels: []string{"standalone-died (C04's subject)"}}
			}
			return kit.Outcome{Fail: "infrastructure: standalone: " + err.Error()}
		}
		node := 0
		if c.Nodes > 1 && len(c.Spray) > 0 {
			node = c.Spray[i%len(c.Spray)] - 1
		}
		rb, err := conns[node].Do(8*time.Second, cmd.Bytes()...)
		if err != nil {
			o.Fail = died(fmt.Sprintf("command %d %s through cluster node %d: %v (standalone replied %s)", i, cmd.String(), node+1, err, ra.String()))
			return o
		}
		if autoID(cmd) {
			autoIDs = true
			if (ra.Kind == respx.Error) != (rb.Kind == respx.Error) {
				o.Fail = fmt.Sprintf("command %d %s: standalone replies %s, cluster node %d replies %s", i, cmd.String(), ra.String(), node+1, rb.String())
				return o
			}
			continue
		}
		if autoIDs && strings.EqualFold(string(cmd[0]), "xrange") {
			if maskIDs(ra) != maskIDs(rb) {
				o.Fail = fmt.Sprintf("command %d %s (IDs left out): standalone replies %s, cluster node %d replies %s", i, cmd.String(), maskIDs(ra), node+1, maskIDs(rb))
				return o
			}
			continue
		}
		if canon(cmd, ra) != canon(cmd, rb) {
			o.Fail = fmt.Sprintf("command %d %s: standalone replies %s, cluster node %d replies %s", i, cmd.String(), canon(cmd, ra), node+1, canon(cmd, rb))
			return o
		}
	}
	want, err := dump(a, autoIDs)
	if err != nil {
		return kit.Outcome{Fail: "infrastructure: dump standalone: " + err.Error()}
	}
	for n := 0; n < c.Nodes; n++ {
		// a barrier write through node n: once acknowledged, that node has applied everything before it
		if _, err := conns[n].DoS(8*time.Second, "SET", "__ready:barrier", "1"); err != nil {
			o.Fail = died(fmt.Sprintf("barrier write through node %d: %v", n+1, err))
			return o
		}
		got, err := dump(conns[n], autoIDs)
		if err != nil {
			o.Fail = died(fmt.Sprintf("dump through node %d: %v", n+1, err))
			return o
		}
		if got != want {
			o.Fail = fmt.Sprintf("after the program the keyspace read through cluster node %d differs from the standalone server's:\n--- standalone\n%s--- node %d\n%s", n+1, want, n+1, got)
			return o
		}
	}
	o.NonTrivial = stored && readBack
	return o
}

func TestDifferential(t *testing.T) {
	defer stopAll()
	kit.Check(t, kit.Spec[Case]{Sub: "diff", Quick: 60, Thorough: 2500, Gen: genCase, Exec: execDiff})
}

func TestReplay(t *testing.T) {
	defer stopAll()
	kit.Replay[Case](t, map[string]func(kit.RawCase) kit.Outcome{"enc": kit.ReplaySub(execEnc), "diff": kit.ReplaySub(execDiff)})
}
