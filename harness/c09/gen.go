// Package c09 checks C09: list commands preserve order, multiplicity and length exactly.
package c09

import (
	"strings"

	"pgregory.net/rapid"

	"verifharness/gen"
	"verifharness/inproc"
	"verifharness/kit"
	"verifharness/prog"
)


var keys = []string{"l1", "l2", "L1", "vol", "str"} // vol: a list with a deadline; str: a string
var elems = []string{"a", "b", "a", "c", "", "x\r\ny"}

func key(t *rapid.T) string {
	if rapid.IntRange(0, 11).Draw(t, "kk") == 0 {
		return "str"
	}
	return rapid.SampledFrom(keys[:4]).Draw(t, "lkey")
}
func elem(t *rapid.T) string {
	if rapid.IntRange(0, 19).Draw(t, "ek") == 0 {
		return string(rapid.SliceOfN(rapid.Byte(), 0, 5).Draw(t, "binelem"))
	}
	return rapid.SampledFrom(elems).Draw(t, "elem")
}
func idx(t *rapid.T, label string) string {
	if rapid.IntRange(0, 14).Draw(t, label+"bad") == 0 {
		return gen.Pick(t, label+"b", "x", "", "1.5", "9223372036854775807", "-9223372036854775808")
	}
	return gen.SmallInt(t, label, -9, 9)
}

func genOp(t *rapid.T, approx map[string]int) kit.Cmd {
	c := func(name string, args ...string) kit.Cmd {
		return kit.MkCmd(append([]string{gen.CaseOf(t, name)}, args...)...)
	}
	k := key(t)
	// blocking pops poll every 100 ms: in sequential programs they are generated rarely and only
	// on a key that probably holds an element (the concurrent generator covers real blocking)
	bw := 0
	if approx[k] > 0 && rapid.IntRange(0, 24).Draw(t, "bpopgate") == 0 {
		bw = 4
	}
	switch gen.Weighted(t, "cmd", []int{8, 8, 2, 2, 6, 6, 3, 4, 6, 4, 6, 5, 6, 6, bw, 1}) {
	case 0, 1, 2, 3:
		name := []string{"lpush", "rpush", "lpushx", "rpushx"}[gen.Weighted(t, "pk", []int{4, 4, 1, 1})]
		n := rapid.IntRange(1, 4).Draw(t, "n")
		approx[k] += n
		args := []string{k}
		for i := 0; i < n; i++ {
			args = append(args, elem(t))
		}
		return c(name, args...)
	case 4, 5:
		approx[k] -= 2
		name := gen.Pick(t, "pop", "lpop", "rpop")
		if rapid.Bool().Draw(t, "cnt") {
			return c(name, k, gen.Pick(t, "c", "1", "2", "3", "9", "-1", "x"))
		}
		return c(name, k)
	case 6:
		return c("llen", k)
	case 7:
		return c("lindex", k, idx(t, "i"))
	case 8:
		return c("lrange", k, idx(t, "s"), idx(t, "e"))
	case 9:
		return c("lset", k, idx(t, "i"), elem(t))
	case 10:
		approx[k] = 0
		return c("lrem", k, gen.Pick(t, "cnt", "0", "1", "-1", "2", "-2", "7", "-7", "x", "9223372036854775807", "-9223372036854775808", "-9223372036854775807"), elem(t))
	case 11:
		approx[k] = 0
		return c("ltrim", k, idx(t, "s"), idx(t, "e"))
	case 12:
		args := []string{k, elem(t)}
		for _, o := range []string{"rank", "count", "maxlen"} {
			if rapid.IntRange(0, 2).Draw(t, "o"+o) == 0 {
				var v string
				switch o {
				case "rank":
					v = gen.Pick(t, "rank", "1", "2", "-1", "-2", "3", "0", "x")
				case "count":
					v = gen.Pick(t, "count", "0", "1", "2", "5", "-1")
				default:
					v = gen.Pick(t, "maxlen", "0", "1", "2", "3", "6", "-1")
				}
				args = append(args, gen.CaseOf(t, o), v)
			}
		}
		if rapid.IntRange(0, 19).Draw(t, "badopt") == 0 {
			args = append(args, "bogus", "1")
		}
		return c("lpos", args...)
	case 13:
		dirs := []string{"left", "right", "LEFT", "Right"}
		d1, d2 := rapid.SampledFrom(dirs).Draw(t, "d1"), rapid.SampledFrom(dirs).Draw(t, "d2")
		if rapid.IntRange(0, 19).Draw(t, "baddir") == 0 {
			d1 = "up"
		}
		approx[k]--
		return c("lmove", k, key(t), d1, d2)
	case 14: // non-blocking use of the blocking pops: an element is available
		approx[k]--
		name := gen.Pick(t, "bpop", "blpop", "brpop")
		return c(name, k, key(t), "1")
	default:
		name := gen.Pick(t, "an", "lpush", "rpush", "lpop", "rpop", "llen", "lindex", "lrange", "lset", "lrem", "ltrim", "lpos", "lmove", "lpushx", "rpushx")
		n := rapid.IntRange(0, 5).Draw(t, "arity")
		var args []string
		for i := 0; i < n; i++ {
			args = append(args, gen.Pick(t, "aa", "l1", "a", "1", "left"))
		}
		return c(name, args...)
	}
}

func GenProgram(t *rapid.T) prog.Program {
	p := prog.Program{ShardNum: rapid.SampledFrom([]int{1, 16}).Draw(t, "shards")}
	if rapid.IntRange(0, 2).Draw(t, "prologue") > 0 {
		p.Ops = append(p.Ops, kit.MkCmd("SET", "str", "v"), kit.MkCmd("RPUSH", "vol", "a", "b"), kit.MkCmd("EXPIRE", "vol", "5000"))
	}
	approx := map[string]int{}
	if rapid.IntRange(0, 1).Draw(t, "seed") == 0 {
		p.Ops = append(p.Ops, kit.MkCmd("RPUSH", "l1", "a", "b", "a", "c", "a"))
		approx["l1"] = 5
	}
	n := rapid.SampledFrom([]int{1, 3, 6, 12, 25, 50}).Draw(t, "len")
	for i := 0; i < n; i++ {
		p.Ops = append(p.Ops, genOp(t, approx))
	}
	return p
}

func Opts() prog.Options {
	return prog.Options{
		SweepKeys: func(prog.Program) []string { return keys },
		Check:     func(db *inproc.DB, keys []string) error { return db.CheckAll() },
		NonTrivial: func(p prog.Program, st *prog.Stats) bool {
			// a removal followed by a read of a list
			removed := false
			for _, op := range p.Ops {
				switch strings.ToLower(string(op[0])) {
				case "lpop", "rpop", "lrem", "ltrim", "lmove", "blpop", "brpop":
					removed = true
				case "lrange", "llen", "lindex", "lpos":
					if removed {
						return true
					}
				}
			}
			return false
		},
	}
}

func Exec(p prog.Program) kit.Outcome {
	o, _ := prog.Run(p, Opts())
	return o
}


// ---------------------------------------------------------------- blocking pops under concurrency

// BlockCase: poppers block on one or two lists while a pusher pushes elements at generated delays.
type BlockCase struct {
	Poppers []Popper `json:"poppers"`
	Pushes  []Push   `json:"pushes"`
	// Crowd: many clients wait on one key for fewer elements than there are waiters, while another client
	// keeps reading a very long list that shares lock stripes with that key (ShardNum 1: two stripes): a push
	// queues behind the long read, the waiters' polls queue behind the push, and all of them look at the
	// list at the same moment once it is through
	Crowd    bool `json:"crowd,omitempty"`
	ShardNum int  `json:"shard_num,omitempty"`
}

type Popper struct {
	Left    bool     `json:"left"`
	Keys    []string `json:"keys"`
	Timeout int      `json:"timeout"` // seconds (1 or 2)
}

type Push struct {
	AtMs int    `json:"at_ms"`
	Key  string `json:"key"`
	N    int    `json:"n"` // elements pushed by this command
}

func GenBlock(t *rapid.T) BlockCase {
	var c BlockCase
	if rapid.IntRange(0, 2).Draw(t, "crowd") == 0 {
		c.Crowd, c.ShardNum = true, 1
		k := gen.Pick(t, "ck", "b1", "b2")
		for i, n := 0, rapid.IntRange(4, 12).Draw(t, "waiters"); i < n; i++ {
			c.Poppers = append(c.Poppers, Popper{Left: rapid.Bool().Draw(t, "left"), Timeout: 2, Keys: []string{k}})
		}
		for i, n := 0, rapid.IntRange(1, 3).Draw(t, "cpushes"); i < n; i++ {
			c.Pushes = append(c.Pushes, Push{AtMs: rapid.SampledFrom([]int{150, 400, 700, 1100}).Draw(t, "cat"), Key: k, N: 1})
		}
		return c
	}
	np := rapid.IntRange(1, 4).Draw(t, "poppers")
	for i := 0; i < np; i++ {
		p := Popper{Left: rapid.Bool().Draw(t, "left"), Timeout: rapid.IntRange(1, 2).Draw(t, "timeout"), Keys: []string{gen.Pick(t, "bk", "b1", "b2")}}
		if rapid.IntRange(0, 2).Draw(t, "two") == 0 {
			p.Keys = []string{"b1", "b2"}
		}
		c.Poppers = append(c.Poppers, p)
	}
	n := rapid.IntRange(0, 4).Draw(t, "pushes")
	for i := 0; i < n; i++ {
		c.Pushes = append(c.Pushes, Push{AtMs: rapid.SampledFrom([]int{0, 30, 150, 400, 700, 900, 950, 980, 1010, 1050, 1100, 1900, 1960, 2040}).Draw(t, "at"), Key: gen.Pick(t, "pk", "b1", "b2"), N: rapid.IntRange(1, 2).Draw(t, "n")})
	}
	return c
}
