package c09

import (
	"fmt"
	"sort"
	"sync"
	"testing"
	"time"

	"verifharness/inproc"
	"verifharness/kit"
	"verifharness/prog"
	"verifharness/respx"
)

func TestMain(m *testing.M) { kit.Main(m, "C09") }

func TestPrograms(t *testing.T) {
	kit.Check(t, kit.Spec[prog.Program]{Sub: "prog", Quick: 1500, Thorough: 30000, Gen: GenProgram, Exec: Exec, Watchdog: 30 * time.Second})
}

func TestReplay(t *testing.T) {
	kit.Replay[prog.Program](t, map[string]func(kit.RawCase) kit.Outcome{"prog": kit.ReplaySub(Exec), "block": kit.ReplaySub(execBlock)})
}

// execBlock: every pushed element goes to exactly one popper or stays in its list; a popper whose
// key gets an element returns promptly (the implementation polls every 100 ms; bound 1.5 s after
// availability), a popper that gets nothing returns nil no earlier than its timeout and no later than
// timeout + 1.5 s. A control goroutine measures scheduling jitter; a jittery run is inconclusive.
func execBlock(c BlockCase) kit.Outcome {
	shards := 16
	if c.ShardNum > 0 {
		shards = c.ShardNum
	}
	db := inproc.New(shards, 0)
	stopReader := make(chan struct{})
	var readerWG sync.WaitGroup
	defer func() { close(stopReader); readerWG.Wait() }()
	if c.Crowd {
		big := []string{"RPUSH", "big"}
		for i := 0; i < 150000; i++ {
			big = append(big, "x")
		}
		db.Do(kit.MkCmd(big...).Bytes())
		for r := 0; r < 2; r++ {
			readerWG.Add(1)
			go func() {
				defer readerWG.Done()
				for {
					select {
					case <-stopReader:
						return
					default:
					}
					db.Do(kit.MkCmd("LRANGE", "big", "0", "-1").Bytes())
				}
			}()
		}
	}
	type result struct {
		val      respx.Value
		bad      string
		took     time.Duration
		returned time.Time
	}
	results := make([]result, len(c.Poppers))
	var wg sync.WaitGroup
	start := time.Now()
	for i, p := range c.Poppers {
		wg.Add(1)
		go func(i int, p Popper) {
			defer wg.Done()
			name := "BRPOP"
			if p.Left {
				name = "BLPOP"
			}
			args := append([]string{name}, p.Keys...)
			args = append(args, fmt.Sprint(p.Timeout))
			t0 := time.Now()
			r := db.Do(kit.MkCmd(args...).Bytes())
			results[i] = result{val: r.Val, took: time.Since(t0), returned: time.Now()}
			if r.Panic != "" {
				results[i].bad = "panicked: " + r.Panic
			} else if r.DecErr != nil {
				results[i].bad = fmt.Sprintf("malformed reply %q", r.Raw)
			}
		}(i, p)
	}
	// jitter probe
	maxJitter := time.Duration(0)
	stopJ := make(chan struct{})
	var jwg sync.WaitGroup
	jwg.Add(1)
	go func() {
		defer jwg.Done()
		for {
			select {
			case <-stopJ:
				return
			default:
			}
			t0 := time.Now()
			time.Sleep(10 * time.Millisecond)
			if d := time.Since(t0) - 10*time.Millisecond; d > maxJitter {
				maxJitter = d
			}
		}
	}()
	pushed := map[string]bool{}
	var pushTimes []time.Time
	sortedPushes := append([]Push{}, c.Pushes...)
	sort.SliceStable(sortedPushes, func(i, j int) bool { return sortedPushes[i].AtMs < sortedPushes[j].AtMs })
	seq := 0
	for _, pu := range sortedPushes {
		if d := time.Until(start.Add(time.Duration(pu.AtMs) * time.Millisecond)); d > 0 {
			time.Sleep(d)
		}
		args := []string{"RPUSH", pu.Key}
		for j := 0; j < pu.N; j++ {
			e := fmt.Sprintf("e%d", seq)
			seq++
			args = append(args, e)
			pushed[e] = true
		}
		if r := db.Do(kit.MkCmd(args...).Bytes()); r.Panic != "" {
			close(stopJ)
			return kit.Outcome{Fail: "RPUSH panicked: " + r.Panic}
		}
		pushTimes = append(pushTimes, time.Now())
	}
	done := make(chan struct{})
	go func() { wg.Wait(); close(done) }()
	o := kit.Outcome{}
	select {
	case <-done:
	case <-time.After(8 * time.Second):
		close(stopJ)
		o.Fail = "a blocking pop with a timeout of at most 2 s did not return within 8 s"
		return o
	}
	// whatever a pop that has returned may still be doing in the background must be over before the
	// elements are counted (an element taken after its popper gave up is a lost element)
	time.Sleep(350 * time.Millisecond)
	close(stopJ)
	jwg.Wait()
	if maxJitter > 300*time.Millisecond {
		return kit.Outcome{Inconclusive: true, Labels: []string{"scheduling-jitter"}}
	}
	got := map[string]int{}
	served := 0
	for i, r := range results {
		p := c.Poppers[i]
		if r.bad != "" {
			o.Fail = fmt.Sprintf("popper %d: %s", i, r.bad)
			return o
		}
		if (r.val.Kind == respx.Bulk || r.val.Kind == respx.Array) && r.val.Null {
			if r.took < time.Duration(p.Timeout)*time.Second-50*time.Millisecond {
				o.Fail = fmt.Sprintf("popper %d returned nil after %v, before its %d s timeout", i, r.took.Round(time.Millisecond), p.Timeout)
				return o
			}
			if r.took > time.Duration(p.Timeout)*time.Second+1500*time.Millisecond {
				o.Fail = fmt.Sprintf("popper %d returned nil only after %v (timeout %d s)", i, r.took.Round(time.Millisecond), p.Timeout)
				return o
			}
			continue
		}
		if r.val.Kind != respx.Array || len(r.val.Arr) != 2 {
			o.Fail = fmt.Sprintf("popper %d: reply %s is neither nil nor [key, element]", i, r.val.String())
			return o
		}
		k, e := string(r.val.Arr[0].Str), string(r.val.Arr[1].Str)
		okKey := false
		for _, pk := range p.Keys {
			if pk == k {
				okKey = true
			}
		}
		if !okKey || !pushed[e] {
			o.Fail = fmt.Sprintf("popper %d (keys %v) received [%q %q]: not one of its keys / never pushed", i, p.Keys, k, e)
			return o
		}
		got[e]++
		served++
		if len(pushTimes) > 0 && r.took > 0 && r.returned.Sub(pushTimes[0]) > 0 && r.took > 100*time.Millisecond {
			o.NonTrivial = true // it was actually blocked when its element arrived
		}
	}
	// what is left in the lists
	for _, k := range []string{"b1", "b2"} {
		r := db.Do(kit.MkCmd("LRANGE", k, "0", "-1").Bytes())
		for _, e := range r.Val.Arr {
			got[string(e.Str)]++
		}
		ex := db.Do(kit.MkCmd("EXISTS", k).Bytes())
		if len(r.Val.Arr) == 0 && ex.Val.Int != 0 {
			o.Fail = fmt.Sprintf("list %q is empty after the pops but still exists", k)
			return o
		}
	}
	for e := range pushed {
		if got[e] != 1 {
			o.Fail = fmt.Sprintf("element %q was delivered/kept %d times (each pushed element must go to exactly one popper or stay in its list)", e, got[e])
			return o
		}
	}
	// prompt service: an element that stayed in a list while a popper waiting on that list timed out
	for i, r := range results {
		if !((r.val.Kind == respx.Bulk || r.val.Kind == respx.Array) && r.val.Null) {
			continue
		}
		for _, k := range c.Poppers[i].Keys {
			lr := db.Do(kit.MkCmd("LLEN", k).Bytes())
			if lr.Val.Int > 0 && len(pushTimes) > 0 && pushTimes[len(pushTimes)-1].Before(r.returned.Add(-1500*time.Millisecond)) {
				o.Fail = fmt.Sprintf("popper %d timed out with nil although list %q held an element for more than 1.5 s before it returned", i, k)
				return o
			}
		}
	}
	if err := db.CheckAll(); err != nil {
		o.Fail = "structural check: " + err.Error()
	}
	return o
}

func TestBlocking(t *testing.T) {
	kit.Check(t, kit.Spec[BlockCase]{Sub: "block", Quick: 8, Thorough: 100, Gen: GenBlock, Exec: execBlock, NoShrink: true})
}
