//go:build verif

package adhoc

import (
	"fmt"
	"testing"
	"time"

	"verifharness/srv"
)

func TestMemberAdd(t *testing.T) {
	cl, err := srv.StartCluster(srv.ClusterOptions{Size: 3})
	if err != nil {
		t.Fatal(err)
	}
	defer cl.Stop()
	cn, _ := cl.Dial(1)
	for i := 0; i < 5; i++ {
		v, err := cn.DoS(3*time.Second, "SET", fmt.Sprintf("k%d", i), "v")
		fmt.Println("SET", v.String(), err)
	}
	id, url, err := cl.AddNode()
	fmt.Println("added process", id, url, err)
	v, err := cn.DoS(3*time.Second, "rconf", "add", fmt.Sprint(id), url)
	fmt.Println("rconf add:", v.String(), err)
	time.Sleep(3 * time.Second)
	for n := 1; n <= 4; n++ {
		fmt.Printf("node %d alive=%v report=%.600s\n", n, cl.Alive(n), cl.CrashReport(n))
	}
	v, err = cn.DoS(3*time.Second, "SET", "after", "v")
	fmt.Println("SET after:", v.String(), err)
	c4, err := cl.Dial(4)
	fmt.Println("dial 4:", err)
	if err == nil {
		v, err = c4.DoS(5*time.Second, "GET", "k3")
		fmt.Println("GET k3 via 4:", v.String(), err)
		v, err = c4.DoS(5*time.Second, "SET", "via4", "x")
		fmt.Println("SET via 4:", v.String(), err)
		v, err = cn.DoS(5*time.Second, "GET", "via4")
		fmt.Println("GET via4 via 1:", v.String(), err)
	}
	v, err = cn.DoS(3*time.Second, "rconf", "delete", "2")
	fmt.Println("rconf delete 2:", v.String(), err)
	time.Sleep(2 * time.Second)
	for n := 1; n <= 4; n++ {
		fmt.Printf("node %d alive=%v report=%.600s\n", n, cl.Alive(n), cl.CrashReport(n))
	}
	v, err = cn.DoS(3*time.Second, "SET", "after2", "v")
	fmt.Println("SET after2:", v.String(), err)
	if c4 != nil {
		v, err = c4.DoS(5*time.Second, "GET", "after2")
		fmt.Println("GET after2 via 4:", v.String(), err)
	}
}
