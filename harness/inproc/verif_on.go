//go:build verif

package inproc

import "github.com/innovationb1ue/RedisGO/memdb"

// CheckAll runs the structural self-check hook (H1) on the selected database.
func (d *DB) CheckAll() error { return memdb.VerifCheckAll(d.M.CurrentDB) }

// ZSetHeight reports the AVL height of the sorted set under key.
func (d *DB) ZSetHeight(key string) int { return memdb.VerifZSetHeight(d.M.CurrentDB, key) }
