// Package inproc is the in-process fixture: it configures RedisGO the way main() does and gives
// access to a fresh server.Manager (the dispatch point named by the anchors) per case.
package inproc

import (
	"context"
	"fmt"
	"io"
	"log"
	"net"
	"os"
	"runtime/debug"
	"sync"

	"github.com/innovationb1ue/RedisGO/config"
	"github.com/innovationb1ue/RedisGO/logger"
	"github.com/innovationb1ue/RedisGO/memdb"
	"github.com/innovationb1ue/RedisGO/resp"
	"github.com/innovationb1ue/RedisGO/server"

	"verifharness/respx"
)

var once sync.Once

// Cfg is the process-wide configuration object (config.Configures).
var Cfg *config.Config

// Setup must be called before anything else; idempotent.
func Setup() {
	once.Do(func() {
		dir, err := os.MkdirTemp(os.Getenv("VERIF_WORK"), "inproc-log-")
		if err != nil {
			dir = os.TempDir()
		}
		Cfg = &config.Config{Host: "127.0.0.1", Port: 0, LogDir: dir, LogLevel: "panic", ShardNum: 16,
			ChanBufferSize: 10, Databases: 16, Others: map[string]any{}}
		config.Configures = Cfg
		devnull, _ := os.OpenFile(os.DevNull, os.O_WRONLY, 0)
		stdout := os.Stdout
		os.Stdout = devnull // logger.SetUp captures os.Stdout in a MultiWriter
		if err := logger.SetUp(Cfg); err != nil {
			panic(err)
		}
		os.Stdout = stdout
		logger.Disable()
		log.SetOutput(io.Discard)
		memdb.RegisterKeyCommands()
		memdb.RegisterStringCommands()
		memdb.RegisterListCommands()
		memdb.RegisterSetCommands()
		memdb.RegisterHashCommands()
		memdb.RegisterPubSubCommands()
		memdb.RegisterSortedSetCommands()
		memdb.RegisterStreamCommands()
		memdb.RegisterRaftCommand()
	})
}

// DB is one fresh server (Manager) instance.
type DB struct {
	M   *server.Manager
	Ctx context.Context
}

// New returns a fresh Manager. shardNum <= 0 keeps the default (16); databases <= 0 means 16.
func New(shardNum, databases int) *DB {
	Setup()
	c := *Cfg
	if shardNum > 0 {
		c.ShardNum = shardNum
	}
	if databases > 0 {
		c.Databases = databases
	}
	cfgMu.Lock()
	config.Configures = &c // NewMemDb reads the global
	m := server.NewManager(&c)
	config.Configures = Cfg
	cfgMu.Unlock()
	return &DB{M: m, Ctx: context.Background()}
}

var cfgMu sync.Mutex

// Result of one in-process command.
type Result struct {
	Raw    []byte      // bytes the connection loop would write
	Val    respx.Value // strict decoding of Raw (valid if DecErr == nil)
	DecErr error
	Panic  string // non-empty if the executor panicked (value + stack)
	NilRes bool   // executor returned nil (connection loop writes -unknown error)
}

// Do executes one command through Manager.ExecCommand, exactly as the connection loop does, and
// returns the bytes that loop would write to the socket.
func (d *DB) Do(cmd [][]byte) (res Result) {
	return d.DoConn(cmd, nil)
}

func (d *DB) DoConn(cmd [][]byte, conn net.Conn) (res Result) {
	defer func() {
		if p := recover(); p != nil {
			res.Panic = fmt.Sprintf("%v\n%s", p, debug.Stack())
		}
	}()
	var r resp.RedisData = d.M.ExecCommand(d.Ctx, wireShaped(cmd), conn)
	if isNil(r) {
		res.NilRes = true
		res.Raw = resp.MakeErrorData("unknown error").ToBytes()
	} else {
		res.Raw = r.ToBytes()
	}
	res.Val, res.DecErr = respx.DecodeExactlyOne(res.Raw)
	return res
}

// wireShaped copies the argument vector into slices shaped like the ones the RESP parser hands to
// the executors: each argument is the first len bytes of a buffer that also holds the trailing CR LF
// (cap = len+2). Executors that extend or reuse a stored slice in place see the same spare bytes as
// they would behind a real connection, and never alias the caller's memory.
func wireShaped(cmd [][]byte) [][]byte {
	out := make([][]byte, len(cmd))
	for i, a := range cmd {
		buf := make([]byte, len(a)+2)
		copy(buf, a)
		buf[len(a)], buf[len(a)+1] = '\r', '\n'
		out[i] = buf[:len(a)]
	}
	return out
}

func isNil(r resp.RedisData) bool {
	if r == nil {
		return true
	}
	// typed nil pointers inside the interface
	switch v := r.(type) {
	case *resp.BulkData:
		return v == nil
	case *resp.StringData:
		return v == nil
	case *resp.IntData:
		return v == nil
	case *resp.ErrorData:
		return v == nil
	case *resp.ArrayData:
		return v == nil
	}
	return false
}
