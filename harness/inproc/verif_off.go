//go:build !verif

package inproc

func (d *DB) CheckAll() error           { return nil }
func (d *DB) ZSetHeight(key string) int { return 0 }
