package c19

import (
	"bytes"
	"context"
	"fmt"
	"net"
	"sync"
	"testing"
	"time"

	"pgregory.net/rapid"

	"verifharness/inproc"
	"verifharness/kit"
	"verifharness/respx"
)

// ---------------------------------------------------------------- first subscriptions to a channel, at the same instant

// RaceCase: Rounds times, Conns connections subscribe to a channel nobody has subscribed to yet, released
// together; then one message is published. Every subscriber must be registered (the reply counts them all,
// each receives the message once), and nothing may panic: the executors run on connection goroutines that
// have no recover - a panic there ends the server. In-process, through the same entry point as the
// connection loop (Manager.ExecCommand), because the window between "look the channel up" and "create it"
// is a few instructions wide: over loopback TCP the connections' commands almost never overlap there.
type RaceCase struct {
	Rounds int `json:"rounds"`
	Conns  int `json:"conns"`
	Chans  int `json:"chans"` // channels subscribed to by each connection's one SUBSCRIBE (1-2)
}

var raceSeq int

func execRace(c RaceCase) kit.Outcome {
	db := inproc.New(16, 0)
	o := kit.Outcome{NonTrivial: c.Conns >= 2, Labels: []string{"first-subscriptions-released-together"}}
	for r := 0; r < c.Rounds; r++ {
		raceSeq++
		ctx, cancel := context.WithCancel(context.Background())
		d := &inproc.DB{M: db.M, Ctx: ctx}
		chans := make([][]byte, c.Chans)
		for i := range chans {
			chans[i] = []byte(fmt.Sprintf("race%d|%d", raceSeq, i))
		}
		type end struct {
			srv, cli net.Conn
			mu       sync.Mutex
			buf      bytes.Buffer
		}
		ends := make([]*end, c.Conns)
		var readers sync.WaitGroup
		for i := range ends {
			s, cl := net.Pipe()
			e := &end{srv: s, cli: cl}
			ends[i] = e
			readers.Add(1)
			go func() {
				defer readers.Done()
				b := make([]byte, 4096)
				for {
					n, err := e.cli.Read(b)
					e.mu.Lock()
					e.buf.Write(b[:n])
					e.mu.Unlock()
					if err != nil {
						return
					}
				}
			}()
		}
		cleanup := func() {
			cancel()
			for _, e := range ends {
				e.srv.Close()
				e.cli.Close()
			}
			readers.Wait()
		}
		start := make(chan struct{})
		var wg sync.WaitGroup
		fails := make(chan string, c.Conns)
		for i, e := range ends {
			wg.Add(1)
			go func(i int, e *end) {
				defer wg.Done()
				<-start
				res := d.DoConn(append([][]byte{[]byte("SUBSCRIBE")}, chans...), e.srv)
				if res.Panic != "" {
					fails <- fmt.Sprintf("round %d: SUBSCRIBE of connection %d (of %d released together on a channel without subscribers) panicked - a server would have exited: %.400s", r, i, c.Conns, res.Panic)
				}
			}(i, e)
		}
		close(start)
		wg.Wait()
		select {
		case f := <-fails:
			cleanup()
			o.Fail = f
			return o
		default:
		}
		for ci, ch := range chans {
			res := d.Do([][]byte{[]byte("PUBLISH"), ch, []byte(fmt.Sprintf("m%d", ci))})
			if res.Panic != "" {
				cleanup()
				o.Fail = fmt.Sprintf("round %d: PUBLISH panicked: %.300s", r, res.Panic)
				return o
			}
			if res.Val.Kind != respx.Integer || res.Val.Int != int64(c.Conns) {
				cleanup()
				o.Fail = fmt.Sprintf("round %d: %d connections subscribed to a fresh channel at the same moment, each was acknowledged, PUBLISH then reports %s receivers", r, c.Conns, res.Val.String())
				return o
			}
		}
		// every subscriber got every channel's message exactly once
		deadline := time.Now().Add(2 * time.Second)
		for i, e := range ends {
			for {
				e.mu.Lock()
				data := append([]byte(nil), e.buf.Bytes()...)
				e.mu.Unlock()
				n := 0
				rest := data
				bad := ""
				for len(rest) > 0 {
					v, used, err := respx.Decode(rest)
					if err != nil {
						if err == respx.ErrIncomplete {
							break
						}
						bad = err.Error()
						break
					}
					rest = rest[used:]
					if v.Kind == respx.Array && len(v.Arr) == 3 && string(v.Arr[0].Str) == "message" {
						n++
					}
				}
				if bad != "" {
					cleanup()
					o.Fail = fmt.Sprintf("round %d: subscriber %d received a damaged push stream: %s", r, i, bad)
					return o
				}
				if n == c.Chans {
					break
				}
				if n > c.Chans || time.Now().After(deadline) {
					cleanup()
					o.Fail = fmt.Sprintf("round %d: subscriber %d of %d received %d messages, %d were published (one per channel) while it was subscribed", r, i, c.Conns, n, c.Chans)
					return o
				}
				time.Sleep(200 * time.Microsecond)
			}
		}
		cleanup()
	}
	return o
}

func TestFirstSubscribeRace(t *testing.T) {
	kit.Check(t, kit.Spec[RaceCase]{Sub: "race", Quick: 6, Thorough: 300, NoShrink: true,
		Gen: func(t *rapid.T) RaceCase {
			return RaceCase{Rounds: rapid.SampledFrom([]int{300, 800}).Draw(t, "rounds"), Conns: rapid.IntRange(2, 6).Draw(t, "conns"), Chans: rapid.IntRange(1, 2).Draw(t, "chans")}
		},
		Exec: execRace})
}
