// Package c19 checks C19: published messages reach exactly the current subscribers, once, in order.
package c19

import (
	"fmt"
	"strings"
	"sync"
	"sync/atomic"
	"testing"
	"time"

	"pgregory.net/rapid"

	"verifharness/gen"
	"verifharness/kit"
	"verifharness/respx"
	"verifharness/srv"
)

func TestMain(m *testing.M) { kit.Main(m, "C19") }

var server *srv.Server

func ensureServer() error {
	if server != nil && server.Alive() {
		return nil
	}
	if server != nil {
		server.Stop()
	}
	s, err := srv.Start(srv.Options{})
	server = s
	return err
}

func stopServer() {
	if server != nil {
		server.Stop()
		server = nil
	}
}

// subscriber is one subscriber connection with a reader goroutine that separates replies from pushes.
type subscriber struct {
	conn    *srv.Conn
	mu      sync.Mutex
	pushes  map[string][]string // channel -> payloads in arrival order
	bad     string              // first anomaly seen in the inbound stream
	replies chan respx.Value
	closed  bool
	done    chan struct{}
}

func newSubscriber() (*subscriber, error) {
	c, err := server.Dial()
	if err != nil {
		return nil, err
	}
	s := &subscriber{conn: c, pushes: map[string][]string{}, replies: make(chan respx.Value, 64), done: make(chan struct{})}
	go s.readLoop()
	return s, nil
}

func (s *subscriber) readLoop() {
	defer close(s.done)
	for {
		v, err := s.conn.Read(24 * time.Hour)
		if err != nil {
			s.mu.Lock()
			if _, framing := err.(*respx.FramingError); framing && s.bad == "" {
				s.bad = "inbound stream is not well-formed RESP: " + err.Error()
			}
			s.mu.Unlock()
			return
		}
		if v.Kind == respx.Array && len(v.Arr) == 3 && string(v.Arr[0].Str) == "message" && v.Arr[0].Kind == respx.Bulk {
			s.mu.Lock()
			ch := string(v.Arr[1].Str)
			s.pushes[ch] = append(s.pushes[ch], string(v.Arr[2].Str))
			s.mu.Unlock()
			continue
		}
		select {
		case s.replies <- v:
		default:
		}
	}
}

// subscribe sends SUBSCRIBE and waits for the acknowledgement (shape is a don't-care: any array).
func (s *subscriber) subscribe(channels []string) error {
	args := [][]byte{[]byte("SUBSCRIBE")}
	for _, c := range channels {
		args = append(args, []byte(c))
	}
	if err := s.conn.Write(respx.EncodeCommand(args), 2*time.Second); err != nil {
		return err
	}
	select {
	case v := <-s.replies:
		if v.Kind != respx.Array {
			return fmt.Errorf("SUBSCRIBE acknowledged with %s", v.String())
		}
		return nil
	case <-time.After(3 * time.Second):
		return fmt.Errorf("no acknowledgement of SUBSCRIBE within 3 s")
	}
}

func (s *subscriber) close() {
	s.mu.Lock()
	s.closed = true
	s.mu.Unlock()
	s.conn.Close()
}

func (s *subscriber) got(ch string) []string {
	s.mu.Lock()
	defer s.mu.Unlock()
	return append([]string{}, s.pushes[ch]...)
}

// ---------------------------------------------------------------- sequential schedules

type Action struct {
	Kind     string  `json:"kind"` // sub | pub | close | open
	Sub      int     `json:"sub,omitempty"`
	Channels []kit.B `json:"channels,omitempty"`
	Channel  kit.B   `json:"channel,omitempty"`
	Payload  kit.B   `json:"payload,omitempty"`
}

type SeqCase struct {
	Subs    int      `json:"subs"`
	Actions []Action `json:"actions"`
}

var chanNames = []string{"news", "News", "", "c\r\nd", "\x00\xff"}

func genSeq(t *rapid.T) SeqCase {
	c := SeqCase{Subs: rapid.IntRange(1, 6).Draw(t, "subs")}
	nch := rapid.IntRange(1, 4).Draw(t, "nch")
	chans := chanNames[:nch]
	if rapid.Bool().Draw(t, "hostilech") {
		chans = chanNames[len(chanNames)-nch:]
	}
	n := rapid.SampledFrom([]int{4, 10, 25, 50}).Draw(t, "len")
	for i := 0; i < n; i++ {
		switch gen.Weighted(t, "a", []int{6, 12, 2, 1}) {
		case 0:
			k := rapid.IntRange(1, 2).Draw(t, "k")
			var cs []kit.B
			for j := 0; j < k; j++ {
				cs = append(cs, kit.B(rapid.SampledFrom(chans).Draw(t, "ch")))
			}
			c.Actions = append(c.Actions, Action{Kind: "sub", Sub: rapid.IntRange(0, c.Subs-1).Draw(t, "s"), Channels: cs})
		case 1:
			c.Actions = append(c.Actions, Action{Kind: "pub", Channel: kit.B(rapid.SampledFrom(chans).Draw(t, "ch")),
				Payload: kit.B(fmt.Sprintf("m%d:", i) + gen.Value(t, "payload"))})
		case 2:
			c.Actions = append(c.Actions, Action{Kind: "close", Sub: rapid.IntRange(0, c.Subs-1).Draw(t, "s")})
		default:
			c.Actions = append(c.Actions, Action{Kind: "open", Sub: rapid.IntRange(0, c.Subs-1).Draw(t, "s")})
		}
	}
	return c
}

func died(what string) string {
	if server.WaitExit(700 * time.Millisecond) {
		rep := server.CrashReport()
		stopServer()
		return fmt.Sprintf("%s: server process died: %.500s", what, rep)
	}
	return what
}

func execSeq(c SeqCase) kit.Outcome {
	if err := ensureServer(); err != nil {
		return kit.Outcome{Fail: "infrastructure: " + err.Error()}
	}
	o := kit.Outcome{}
	pub, err := server.Dial()
	if err != nil {
		return kit.Outcome{Fail: "infrastructure: " + err.Error()}
	}
	defer pub.Close()
	// channel names are shared between cases on one server: make them unique per case
	caseSeq++
	pfx := fmt.Sprintf("%d|", caseSeq)
	subs := make([]*subscriber, c.Subs)
	var all []*subscriber
	defer func() {
		for _, s := range all {
			s.close()
		}
	}()
	expected := map[*subscriber]map[string][]string{} // per connection, per channel
	member := map[*subscriber]map[string]bool{}
	closedSubs := map[*subscriber]bool{}
	gone := map[*subscriber]bool{} // closed and already seen pruned by a PUBLISH count
	open := func(i int) error {
		s, err := newSubscriber()
		if err != nil {
			return err
		}
		subs[i] = s
		all = append(all, s)
		expected[s] = map[string][]string{}
		member[s] = map[string]bool{}
		return nil
	}
	for i := range subs {
		if err := open(i); err != nil {
			return kit.Outcome{Fail: "infrastructure: " + err.Error()}
		}
	}
	pubsBefore, pubsAfterClose := 0, 0
	anyClose := false
	for i, a := range c.Actions {
		switch a.Kind {
		case "sub":
			s := subs[a.Sub]
			if closedSubs[s] {
				continue
			}
			var cs []string
			for _, ch := range a.Channels {
				cs = append(cs, pfx+string(ch))
			}
			if err := s.subscribe(cs); err != nil {
				o.Fail = died(fmt.Sprintf("action %d SUBSCRIBE %q on subscriber %d: %v", i, cs, a.Sub, err))
				return o
			}
			for _, ch := range cs {
				member[s][ch] = true
			}
		case "pub":
			ch := pfx + string(a.Channel)
			v, err := pub.Do(3*time.Second, []byte("PUBLISH"), []byte(ch), []byte(a.Payload))
			if err != nil {
				o.Fail = died(fmt.Sprintf("action %d PUBLISH %q: %v", i, ch, err))
				return o
			}
			lo, hi := int64(0), int64(0)
			for s, m := range member {
				if !m[ch] {
					continue
				}
				if closedSubs[s] {
					if !gone[s] {
						hi++ // the server may not have noticed the disconnect yet
					}
					continue
				}
				lo++
				hi++
				expected[s][ch] = append(expected[s][ch], string(a.Payload))
			}
			if v.Kind != respx.Integer || v.Int < lo || v.Int > hi {
				o.Fail = fmt.Sprintf("action %d PUBLISH %q replied %s; %d connection(s) are subscribed (at most %d counting just-closed ones)", i, ch, v.String(), lo, hi)
				return o
			}
			if v.Int == lo {
				for s, m := range member {
					if m[ch] && closedSubs[s] {
						gone[s] = true
					}
				}
			}
			if anyClose {
				pubsAfterClose++
			} else {
				pubsBefore++
			}
		case "close":
			s := subs[a.Sub]
			if !closedSubs[s] {
				s.close()
				closedSubs[s] = true
				anyClose = true
				time.Sleep(5 * time.Millisecond)
			}
		case "open":
			if closedSubs[subs[a.Sub]] {
				if err := open(a.Sub); err != nil {
					return kit.Outcome{Fail: "infrastructure: " + err.Error()}
				}
			}
		}
	}
	// fence: one last message per channel; once a live subscriber has it, everything before it has arrived
	fences := map[string]bool{}
	for s, m := range member {
		if closedSubs[s] {
			continue
		}
		for ch := range m {
			fences[ch] = true
		}
	}
	for ch := range fences {
		if _, err := pub.Do(3*time.Second, []byte("PUBLISH"), []byte(ch), []byte("FENCE")); err != nil {
			o.Fail = died(fmt.Sprintf("final PUBLISH %q: %v", ch, err))
			return o
		}
		for s, m := range member {
			if m[ch] && !closedSubs[s] {
				expected[s][ch] = append(expected[s][ch], "FENCE")
			}
		}
	}
	deadline := time.Now().Add(3 * time.Second)
	for s, m := range member {
		if closedSubs[s] {
			continue
		}
		for ch := range m {
			for {
				g := s.got(ch)
				if len(g) > 0 && g[len(g)-1] == "FENCE" && len(g) >= len(expected[s][ch]) {
					break
				}
				if time.Now().After(deadline) {
					break
				}
				time.Sleep(2 * time.Millisecond)
			}
		}
	}
	for idx, s := range all {
		s.mu.Lock()
		bad := s.bad
		s.mu.Unlock()
		if bad != "" {
			o.Fail = fmt.Sprintf("subscriber connection %d: %s", idx, bad)
			return o
		}
		s.mu.Lock()
		chs := make([]string, 0, len(s.pushes))
		for ch := range s.pushes {
			chs = append(chs, ch)
		}
		s.mu.Unlock()
		for _, ch := range chs {
			if !member[s][ch] {
				o.Fail = fmt.Sprintf("subscriber connection %d received a message on channel %q it never subscribed to", idx, ch)
				return o
			}
		}
		for ch := range member[s] {
			got, want := s.got(ch), expected[s][ch]
			if closedSubs[s] {
				// what a closed connection received before closing must be a prefix of what was published to it
				if len(got) > len(want) || strings.Join(got, "\x00") != strings.Join(want[:len(got)], "\x00") {
					o.Fail = fmt.Sprintf("subscriber connection %d (closed later), channel %q: received %q, published while subscribed %q", idx, ch, got, want)
					return o
				}
				continue
			}
			if strings.Join(got, "\x00") != strings.Join(want, "\x00") {
				o.Fail = fmt.Sprintf("subscriber connection %d, channel %q: received %q, but the publishes while it was subscribed were %q (each exactly once, in order)", idx, ch, got, want)
				return o
			}
		}
	}
	if !server.Alive() {
		o.Fail = died("after the schedule")
		return o
	}
	nsubs := 0
	for s := range member {
		if len(member[s]) > 0 {
			nsubs++
		}
	}
	o.NonTrivial = nsubs >= 2 && pubsBefore >= 1 && pubsAfterClose >= 1
	return o
}

var caseSeq int
var churnOpened int64

func TestSequential(t *testing.T) {
	defer stopServer()
	kit.Check(t, kit.Spec[SeqCase]{Sub: "seq", Quick: 120, Thorough: 4000, Gen: genSeq, Exec: execSeq})
}

// ---------------------------------------------------------------- concurrent schedules

type ConcCase struct {
	Channels   int `json:"channels"`
	Publishers int `json:"publishers"`
	PerPub     int `json:"per_publisher"`
	Stable     int `json:"stable_subscribers"`   // subscribed before the storm, stay to the end
	Churn      int `json:"churning_subscribers"` // subscribe and disconnect during the storm
}

func execConc(c ConcCase) kit.Outcome {
	if err := ensureServer(); err != nil {
		return kit.Outcome{Fail: "infrastructure: " + err.Error()}
	}
	caseSeq++
	o := kit.Outcome{NonTrivial: c.Churn >= 1 && c.Publishers >= 1 && c.Stable >= 1}
	chans := make([]string, c.Channels)
	for i := range chans {
		chans[i] = fmt.Sprintf("conc%d|%d", caseSeq, i)
	}
	var stable []*subscriber
	defer func() {
		for _, s := range stable {
			s.close()
		}
	}()
	for i := 0; i < c.Stable; i++ {
		s, err := newSubscriber()
		if err != nil {
			return kit.Outcome{Fail: "infrastructure: " + err.Error()}
		}
		stable = append(stable, s)
		if err := s.subscribe(chans); err != nil {
			o.Fail = died(fmt.Sprintf("SUBSCRIBE before the storm: %v", err))
			return o
		}
	}
	var wg sync.WaitGroup
	errs := make(chan string, c.Publishers+c.Churn+4)
	stop := make(chan struct{})
	for p := 0; p < c.Publishers; p++ {
		wg.Add(1)
		go func(p int) {
			defer wg.Done()
			conn, err := server.Dial()
			if err != nil {
				errs <- "infrastructure: " + err.Error()
				return
			}
			defer conn.Close()
			for i := 0; i < c.PerPub; i++ {
				ch := chans[(p+i)%len(chans)]
				start := time.Now()
				v, err := conn.Do(5*time.Second, []byte("PUBLISH"), []byte(ch), []byte(fmt.Sprintf("p%d:%d", p, i)))
				if err != nil {
					errs <- fmt.Sprintf("publisher %d: PUBLISH %d: %v (after %v)", p, i, err, time.Since(start))
					return
				}
				// upper bound: every churning connection opened so far (a closed one counts until the
				// server has noticed the disconnect and pruned it)
				if opened := atomic.LoadInt64(&churnOpened); v.Kind != respx.Integer || v.Int < int64(c.Stable) || v.Int > int64(c.Stable)+opened {
					errs <- fmt.Sprintf("publisher %d: PUBLISH replied %s with %d stable subscribers and %d churning connections opened so far", p, v.String(), c.Stable, opened)
					return
				}
			}
		}(p)
	}
	var churners sync.WaitGroup
	atomic.StoreInt64(&churnOpened, 0)
	for k := 0; k < c.Churn; k++ {
		churners.Add(1)
		go func(k int) {
			defer churners.Done()
			for {
				select {
				case <-stop:
					return
				default:
				}
				atomic.AddInt64(&churnOpened, 1)
				s, err := newSubscriber()
				if err != nil {
					return
				}
				if err := s.subscribe(chans[:1+k%len(chans)]); err != nil {
					s.close()
					select {
					case <-stop:
					default:
						errs <- fmt.Sprintf("churning subscriber %d: %v", k, err)
					}
					return
				}
				time.Sleep(time.Duration(1+k%3) * time.Millisecond)
				// a churner must never see duplicates or reordering either
				for _, ch := range chans {
					if msg := orderProblem(s.got(ch)); msg != "" {
						errs <- fmt.Sprintf("churning subscriber %d channel %q: %s", k, ch, msg)
					}
				}
				s.close()
			}
		}(k)
	}
	wg.Wait()
	close(stop)
	churners.Wait()
	close(errs)
	for e := range errs {
		if strings.HasPrefix(e, "infrastructure") {
			return kit.Outcome{Fail: e}
		}
		o.Fail = died(e)
		return o
	}
	if !server.Alive() || server.WaitExit(100*time.Millisecond) {
		o.Fail = died("after the storm")
		return o
	}
	// every stable subscriber must have every message of every publisher exactly once, per-publisher order kept
	want := map[string]int{}
	for p := 0; p < c.Publishers; p++ {
		for i := 0; i < c.PerPub; i++ {
			want[chans[(p+i)%len(chans)]]++
		}
	}
	deadline := time.Now().Add(3 * time.Second)
	for idx, s := range stable {
		for _, ch := range chans {
			for len(s.got(ch)) < want[ch] && time.Now().Before(deadline) {
				time.Sleep(2 * time.Millisecond)
			}
			got := s.got(ch)
			if msg := orderProblem(got); msg != "" {
				o.Fail = fmt.Sprintf("stable subscriber %d channel %q: %s", idx, ch, msg)
				return o
			}
			if len(got) != want[ch] {
				o.Fail = fmt.Sprintf("stable subscriber %d channel %q: received %d messages, %d were published while it was subscribed", idx, ch, len(got), want[ch])
				return o
			}
		}
		s.mu.Lock()
		bad := s.bad
		s.mu.Unlock()
		if bad != "" {
			o.Fail = fmt.Sprintf("stable subscriber %d: %s", idx, bad)
			return o
		}
	}
	return o
}

func trimPayloads(a []string) []string {
	out := make([]string, len(a))
	for i, p := range a {
		if j := strings.IndexByte(p, '|'); j > 0 {
			p = p[:j]
		}
		out[i] = p
	}
	return out
}

// orderProblem: payloads are "p<publisher>:<seq>"; per publisher the sequence must be strictly increasing.
func orderProblem(got []string) string {
	last := map[string]int{}
	for _, g := range got {
		var p, i int
		if _, err := fmt.Sscanf(g, "p%d:%d", &p, &i); err != nil {
			return fmt.Sprintf("payload %q was never published", g)
		}
		key := fmt.Sprint(p)
		if prev, ok := last[key]; ok && i <= prev {
			if i == prev {
				return fmt.Sprintf("message %q delivered twice", g)
			}
			return fmt.Sprintf("message %q delivered after p%d:%d (publish order not preserved)", g, p, prev)
		}
		last[key] = i
	}
	return ""
}

func TestConcurrent(t *testing.T) {
	defer stopServer()
	kit.Check(t, kit.Spec[ConcCase]{Sub: "conc", Quick: 12, Thorough: 700,
		Gen: func(t *rapid.T) ConcCase {
			return ConcCase{Channels: rapid.IntRange(1, 3).Draw(t, "channels"), Publishers: rapid.IntRange(1, 3).Draw(t, "publishers"),
				PerPub: rapid.SampledFrom([]int{50, 200, 600}).Draw(t, "perpub"), Stable: rapid.IntRange(1, 3).Draw(t, "stable"),
				Churn: rapid.IntRange(0, 4).Draw(t, "churn")}
		},
		Exec: execConc})
}

// ---------------------------------------------------------------- a subscriber that stops reading

type StallCase struct {
	PayloadKB int  `json:"payload_kb"`
	Messages  int  `json:"messages"`
	Healthy   int  `json:"healthy_subscribers"`
	Late      bool `json:"late,omitempty"` // another subscriber arrives LateMs after the publishing began
	LateMs    int  `json:"late_ms,omitempty"`
}

// execStall: one subscriber subscribes and then never reads again; publishers must not be blocked
// indefinitely by it, and healthy subscribers of the same channel keep receiving.
func execStall(c StallCase) kit.Outcome {
	if err := ensureServer(); err != nil {
		return kit.Outcome{Fail: "infrastructure: " + err.Error()}
	}
	caseSeq++
	o := kit.Outcome{NonTrivial: c.PayloadKB*c.Messages >= 8192}
	ch := fmt.Sprintf("stall%d", caseSeq)
	stalled, err := server.Dial()
	if err != nil {
		return kit.Outcome{Fail: "infrastructure: " + err.Error()}
	}
	defer stalled.Close()
	if _, err := stalled.DoS(3*time.Second, "SUBSCRIBE", ch); err != nil {
		o.Fail = died("SUBSCRIBE: " + err.Error())
		return o
	}
	var healthy []*subscriber
	defer func() {
		for _, s := range healthy {
			s.close()
		}
	}()
	for i := 0; i < c.Healthy; i++ {
		s, err := newSubscriber()
		if err != nil {
			return kit.Outcome{Fail: "infrastructure: " + err.Error()}
		}
		healthy = append(healthy, s)
		if err := s.subscribe([]string{ch}); err != nil {
			o.Fail = died("SUBSCRIBE: " + err.Error())
			return o
		}
	}
	pub, err := server.Dial()
	if err != nil {
		return kit.Outcome{Fail: "infrastructure: " + err.Error()}
	}
	defer pub.Close()
	payload := strings.Repeat("x", c.PayloadKB*1024)
	// a subscriber that arrives while the publishers are at work (and possibly while one of them is stuck
	// on the subscriber that does not read): once its SUBSCRIBE is confirmed it receives every message
	// whose PUBLISH starts afterwards
	var started int64 // number of PUBLISH commands begun
	lateFrom := int64(-1)
	var late *subscriber
	lateDone := make(chan string, 1)
	if c.Late {
		go func() {
			time.Sleep(time.Duration(c.LateMs) * time.Millisecond)
			ls, err := newSubscriber()
			if err != nil {
				lateDone <- ""
				return
			}
			if err := ls.subscribe([]string{ch}); err != nil {
				ls.close()
				lateDone <- "late SUBSCRIBE: " + err.Error()
				return
			}
			late = ls
			atomic.StoreInt64(&lateFrom, atomic.LoadInt64(&started))
			lateDone <- ""
		}()
	} else {
		lateDone <- ""
	}
	for i := 0; i < c.Messages; i++ {
		start := time.Now()
		atomic.AddInt64(&started, 1)
		if _, err := pub.Do(8*time.Second, []byte("PUBLISH"), []byte(ch), []byte(fmt.Sprintf("p0:%d|%s", i, payload))); err != nil {
			o.Fail = died(fmt.Sprintf("PUBLISH %d of %d (%d KB each) did not return within %v while one subscriber is not reading: %v", i, c.Messages, c.PayloadKB, time.Since(start).Round(time.Millisecond), err))
			stopServer() // a wedged publisher holds the channel: start the next case clean
			return o
		}
	}
	if msg := <-lateDone; msg != "" {
		o.Fail = died(msg)
		return o
	}
	if late != nil {
		defer late.close()
		from := atomic.LoadInt64(&lateFrom) // messages with index >= from were published after the confirmation
		want := int64(c.Messages) - from
		dl := time.Now().Add(5 * time.Second)
		for int64(len(late.got(ch))) < want && time.Now().Before(dl) {
			time.Sleep(5 * time.Millisecond)
		}
		got := late.got(ch)
		if int64(len(got)) < want {
			o.Fail = fmt.Sprintf("a subscriber whose SUBSCRIBE was confirmed while %d of %d messages had been begun (another subscriber was not reading) received %d messages, at least %d were published after the confirmation", from, c.Messages, len(got), want)
			return o
		}
		if p := orderProblem(trimPayloads(got)); p != "" {
			o.Fail = "late subscriber: " + p
			return o
		}
		o.Labels = append(o.Labels, "late-subscriber")
	}
	deadline := time.Now().Add(5 * time.Second)
	for idx, s := range healthy {
		for len(s.got(ch)) < c.Messages && time.Now().Before(deadline) {
			time.Sleep(5 * time.Millisecond)
		}
		if n := len(s.got(ch)); n != c.Messages {
			o.Fail = fmt.Sprintf("healthy subscriber %d received %d of %d messages while another subscriber was not reading", idx, n, c.Messages)
			return o
		}
	}
	// the subscriber that stopped reading starts again. The server may have dropped it (the stream then
	// ends, possibly inside a message); if it is still connected when everything has been read, what it
	// received is the stream of one well-formed message after the other - nothing half-written in the
	// middle - and, being still subscribed, it has missed nothing.
	var got []string
	dropped := false
	for {
		v, err := stalled.Read(1500 * time.Millisecond)
		if err != nil {
			if _, isFraming := err.(*respx.FramingError); isFraming {
				o.Fail = fmt.Sprintf("the subscriber that had stopped reading resumed: after %d complete messages its stream is not well-formed (%v): a message was written partly and others followed", len(got), err)
				return o
			}
			if err != srv.ErrTimeout {
				dropped = true // connection closed by the server
			}
			break
		}
		if v.Kind != respx.Array || len(v.Arr) != 3 || string(v.Arr[0].Str) != "message" || string(v.Arr[1].Str) != ch {
			o.Fail = fmt.Sprintf("the subscriber that had stopped reading resumed and received %.120s after %d messages", v.String(), len(got))
			return o
		}
		p := string(v.Arr[2].Str)
		if i := strings.IndexByte(p, '|'); i > 0 {
			p = p[:i]
		}
		got = append(got, p)
	}
	for i, p := range got {
		if p != fmt.Sprintf("p0:%d", i) {
			o.Fail = fmt.Sprintf("the subscriber that had stopped reading resumed: message %d of its stream is %q (published in order p0:0, p0:1, ...): a message was skipped or repeated while it stayed subscribed", i, p)
			return o
		}
	}
	if dropped {
		o.Labels = append(o.Labels, "stalled-subscriber-was-dropped")
	} else {
		o.Labels = append(o.Labels, "stalled-subscriber-stayed")
		if len(got) != c.Messages {
			o.Fail = fmt.Sprintf("the subscriber that had stopped reading is still connected and subscribed after it resumed, but received %d of the %d messages published meanwhile", len(got), c.Messages)
		}
	}
	return o
}

func TestStalledSubscriber(t *testing.T) {
	defer stopServer()
	kit.Check(t, kit.Spec[StallCase]{Sub: "stall", Quick: 2, Thorough: 50,
		Gen: func(t *rapid.T) StallCase {
			return StallCase{PayloadKB: rapid.SampledFrom([]int{16, 64, 256}).Draw(t, "kb"), Messages: rapid.SampledFrom([]int{40, 160, 400}).Draw(t, "msgs"),
				Healthy: rapid.IntRange(0, 2).Draw(t, "healthy"), Late: rapid.Bool().Draw(t, "late"), LateMs: rapid.SampledFrom([]int{50, 300, 900, 1400}).Draw(t, "latems")}
		},
		Exec: execStall})
}

func TestReplay(t *testing.T) {
	defer stopServer()
	kit.Replay[SeqCase](t, map[string]func(kit.RawCase) kit.Outcome{"seq": kit.ReplaySub(execSeq), "conc": kit.ReplaySub(execConc), "stall": kit.ReplaySub(execStall), "race": kit.ReplaySub(execRace)})
}
