// Package gen holds the shared generator vocabulary: hostile byte strings, numeric extremes, random
// letter case.
package gen

import (
	"strings"

	"pgregory.net/rapid"
)

// Pick draws one of the given strings.
func Pick(t *rapid.T, label string, xs ...string) string {
	return rapid.SampledFrom(xs).Draw(t, label)
}

// Weighted draws an index according to integer weights.
func Weighted(t *rapid.T, label string, weights []int) int {
	total := 0
	for _, w := range weights {
		total += w
	}
	x := rapid.IntRange(0, total-1).Draw(t, label)
	for i, w := range weights {
		if x < w {
			return i
		}
		x -= w
	}
	return len(weights) - 1
}

// CaseOf spells a command/option name in a generated letter case.
func CaseOf(t *rapid.T, name string) string {
	switch rapid.IntRange(0, 3).Draw(t, "case") {
	case 0:
		return strings.ToLower(name)
	case 1:
		return strings.ToUpper(name)
	case 2:
		return strings.ToUpper(name[:1]) + strings.ToLower(name[1:])
	}
	b := []byte(strings.ToLower(name))
	for i := range b {
		if rapid.Bool().Draw(t, "up") && b[i] >= 'a' && b[i] <= 'z' {
			b[i] -= 32
		}
	}
	return string(b)
}

var hostile = []string{"", " ", "a b", "\r\n", "x\r\ny", "\r\n+OK", "$3\r\nabc", "*1\r\n", "\x00", "\x00\xff\xfe", "\xff",
	"\"q\"", "\\", "tab\there", "ünï", "0", "-1", "007", "+1", "1e3", "nan", "inf", "-inf", "OK", "nil", "(1", "*", "-", "+", "~", "="}

// Value draws a value: hostile constants, short ASCII, arbitrary bytes, rarely long.
func Value(t *rapid.T, label string) string {
	switch rapid.IntRange(0, 9).Draw(t, label+"-kind") {
	case 0, 1, 2:
		return rapid.SampledFrom(hostile).Draw(t, label)
	case 3, 4, 5:
		return rapid.StringMatching(`[a-cA-C0-9]{0,6}`).Draw(t, label)
	case 6, 7:
		return string(rapid.SliceOfN(rapid.Byte(), 0, 12).Draw(t, label))
	case 8:
		return Int(t, label)
	}
	n := rapid.SampledFrom([]int{40, 200, 5000}).Draw(t, label+"-len")
	return strings.Repeat(rapid.SampledFrom([]string{"x", "ab", "\r\n", "\x00"}).Draw(t, label+"-unit"), n)
}

var ints = []string{"0", "1", "-1", "2", "3", "10", "-2", "100", "9223372036854775807", "-9223372036854775808",
	"9223372036854775806", "-9223372036854775807", "4611686018427387904", "9223372036854775808", "-9223372036854775809"}

// Int draws a decimal integer spelling: small, extremes, just out of range.
func Int(t *rapid.T, label string) string {
	return rapid.SampledFrom(ints).Draw(t, label)
}

// SmallInt draws a small integer in [lo,hi] as a string.
func SmallInt(t *rapid.T, label string, lo, hi int) string {
	return itoa(rapid.IntRange(lo, hi).Draw(t, label))
}

func itoa(n int) string {
	if n == 0 {
		return "0"
	}
	neg := n < 0
	if neg {
		n = -n
	}
	var b []byte
	for n > 0 {
		b = append([]byte{byte('0' + n%10)}, b...)
		n /= 10
	}
	if neg {
		b = append([]byte{'-'}, b...)
	}
	return string(b)
}

var floats = []string{"0", "1", "-1", "0.5", "-0.5", "2.5", "1.25", "10", "1e10", "-1e10", "1e300", "-1e300", "0.1", "3.0", "1.7e308", "-1.7e308", "1e308"}

func Float(t *rapid.T, label string) string { return rapid.SampledFrom(floats).Draw(t, label) }

// NotNumber draws something that is not a number.
func NotNumber(t *rapid.T, label string) string {
	return rapid.SampledFrom([]string{"abc", "", "1x", "1.5", "--1", "1 ", " 1", "0x10", "1e", "\x00"}).Draw(t, label)
}
