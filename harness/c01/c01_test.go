package c01

import (
	"testing"
	"time"

	"verifharness/kit"
	"verifharness/prog"
)

func TestMain(m *testing.M) { kit.Main(m, "C01") }

func TestPrograms(t *testing.T) {
	kit.Check(t, kit.Spec[prog.Program]{Sub: "prog", Quick: 1500, Thorough: 80000, Gen: GenProgram, Exec: Exec, Watchdog: 30 * time.Second})
}

func TestReplay(t *testing.T) {
	kit.Replay[prog.Program](t, map[string]func(kit.RawCase) kit.Outcome{"prog": kit.ReplaySub(Exec)})
}
