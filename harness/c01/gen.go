// Package c01 checks C01: string and key commands behave as a sequential Redis keyspace.
package c01

import (
	"strings"

	"pgregory.net/rapid"

	"verifharness/gen"
	"verifharness/kit"
	"verifharness/prog"
)


// key pool: built to collide, to differ only by case or bytes, plus keys seeded with other types
var strKeys = []string{"a", "A", "Foo", "foo", "", "k\r\n", "\x00\xff k"}
var typedKeys = []string{"L", "S", "H", "Z", "X"}
var pool = append(append([]string{}, strKeys...), typedKeys...)

func genKey(t *rapid.T) string {
	switch rapid.IntRange(0, 11).Draw(t, "keykind") {
	case 0, 1:
		return rapid.SampledFrom(typedKeys).Draw(t, "tkey")
	case 2:
		if rapid.IntRange(0, 3).Draw(t, "rare") == 0 {
			return "r" + string(rapid.SliceOfN(rapid.Byte(), 0, 4).Draw(t, "rkey"))
		}
	}
	return rapid.SampledFrom(strKeys).Draw(t, "skey")
}

func genIndex(t *rapid.T, label string) string {
	if rapid.IntRange(0, 5).Draw(t, label+"k") == 0 {
		return rapid.SampledFrom([]string{"2147483648", "-2147483649", "9223372036854775807", "-9223372036854775808", "x", ""}).Draw(t, label)
	}
	return gen.SmallInt(t, label, -8, 8)
}

func genOp(t *rapid.T) kit.Cmd {
	c := func(name string, args ...string) kit.Cmd {
		return kit.MkCmd(append([]string{gen.CaseOf(t, name)}, args...)...)
	}
	k := genKey(t)
	if rapid.IntRange(0, 39).Draw(t, "bigfloat") == 0 {
		// finite + finite must not silently become infinite
		return c("incrbyfloat", gen.Pick(t, "bfk", "a", "A"), gen.Pick(t, "bigby", "1.7e308", "1.7e308", "-1.7e308", "1e308", "-1e308"))
	}
	switch gen.Weighted(t, "cmd", []int{14, 8, 4, 4, 3, 3, 5, 3, 5, 5, 4, 3, 3, 3, 3, 5, 4, 3, 4, 3, 2, 2, 2, 2}) {
	case 0: // SET with options
		args := []string{k, gen.Value(t, "v")}
		// options: condition, GET, one expire-class option; rarely illegal combinations
		var opts [][]string
		switch rapid.IntRange(0, 9).Draw(t, "cond") {
		case 0, 1:
			opts = append(opts, []string{gen.CaseOf(t, "nx")})
		case 2, 3:
			opts = append(opts, []string{gen.CaseOf(t, "xx")})
		case 4:
			if rapid.IntRange(0, 3).Draw(t, "both") == 0 {
				opts = append(opts, []string{"nx"}, []string{"XX"})
			}
		}
		hasNX := len(opts) == 1 && (opts[0][0] == "nx" || opts[0][0] == "NX" || opts[0][0] == "Nx" || opts[0][0] == "nX")
		if rapid.IntRange(0, 3).Draw(t, "get") == 0 && !hasNX {
			opts = append(opts, []string{gen.CaseOf(t, "get")})
		}
		expire := func() []string {
			switch rapid.IntRange(0, 5).Draw(t, "exp") {
			case 0:
				return []string{gen.CaseOf(t, "keepttl")}
			case 1:
				return []string{gen.CaseOf(t, "ex"), gen.Pick(t, "ex", "1000", "5000", "100000", "0", "-1", "abc", "9223372036854775807", "9223372036854775", "9223372036", "18446744073709552")}
			case 2:
				return []string{gen.CaseOf(t, "px"), gen.Pick(t, "px", "1000000", "5000000", "0", "-5", "x", "9223372036855000", "9223372036854775", "18446744073709551", "9223372036854775807", "4611686018427387904")}
			case 3:
				return []string{gen.CaseOf(t, "exat"), gen.Pick(t, "exat", "4102444800", "4102448400", "0", "-1", "zz")}
			case 4:
				return []string{gen.Pick(t, "bad", "bogus", "", "EX")}
			}
			return []string{gen.Pick(t, "dangling", "ex", "px", "exat")} // keyword without its argument
		}
		if rapid.IntRange(0, 2).Draw(t, "hasexp") > 0 {
			e1 := expire()
			opts = append(opts, e1)
			if rapid.IntRange(0, 9).Draw(t, "two") == 0 {
				e2 := expire()
				if strings.ToLower(e2[0]) != strings.ToLower(e1[0]) {
					opts = append(opts, e2)
				}
			}
		}
		// options in a generated order
		perm := rapid.Permutation(opts).Draw(t, "order")
		for _, o := range perm {
			args = append(args, o...)
		}
		return c("set", args...)
	case 1:
		return c("get", k)
	case 2:
		n := rapid.IntRange(1, 3).Draw(t, "n")
		var args []string
		for i := 0; i < n; i++ {
			args = append(args, genKey(t), gen.Value(t, "v"))
		}
		if rapid.IntRange(0, 9).Draw(t, "odd") == 0 {
			args = args[:len(args)-1]
		}
		return c("mset", args...)
	case 3:
		n := rapid.IntRange(1, 4).Draw(t, "n")
		var args []string
		for i := 0; i < n; i++ {
			args = append(args, genKey(t))
		}
		return c("mget", args...)
	case 4:
		return c("setnx", k, gen.Value(t, "v"))
	case 5:
		return c("setex", k, gen.Pick(t, "sec", "1000", "7200", "0", "-3", "abc", "9223372036854775807"), gen.Value(t, "v"))
	case 6:
		return c("append", k, gen.Value(t, "v"))
	case 7:
		return c("strlen", k)
	case 8:
		return c("getrange", k, genIndex(t, "s"), genIndex(t, "e"))
	case 9:
		off := gen.SmallInt(t, "off", -1, 12)
		if rapid.IntRange(0, 9).Draw(t, "offk") == 0 {
			off = gen.Pick(t, "badoff", "x", "", "-5", "1.5")
		}
		return c("setrange", k, off, gen.Value(t, "v"))
	case 10:
		return c(gen.Pick(t, "incdec", "incr", "decr"), k)
	case 11:
		return c(gen.Pick(t, "incdecby", "incrby", "decrby"), k, gen.Int(t, "by"))
	case 12:
		if rapid.IntRange(0, 5).Draw(t, "nf") == 0 {
			return c("incrbyfloat", k, gen.NotNumber(t, "f"))
		}
		return c("incrbyfloat", k, gen.Float(t, "f"))
	case 13: // seed integer-looking and float-looking values so that INCR* paths are reached
		return c("set", k, gen.Pick(t, "numv", "0", "10", "-7", "9223372036854775807", "-9223372036854775808", "3.5", "1e3", "12abc"))
	case 14:
		n := rapid.IntRange(1, 3).Draw(t, "n")
		var args []string
		for i := 0; i < n; i++ {
			args = append(args, genKey(t))
		}
		return c("del", args...)
	case 15:
		n := rapid.IntRange(1, 3).Draw(t, "n")
		var args []string
		for i := 0; i < n; i++ {
			args = append(args, genKey(t))
		}
		return c("exists", args...)
	case 16:
		return c("type", k)
	case 17:
		return c("rename", k, genKey(t))
	case 18:
		return c("keys", gen.Pick(t, "pat", "*", "a", "A", "f*", "F*", "?", "*o*", "[aA]", "k*", "\\*", ""))
	case 19:
		if rapid.Bool().Draw(t, "arg") {
			return c("ping", gen.Value(t, "v"))
		}
		return c("ping")
	case 20:
		return c("ttl", k)
	case 21:
		return c("persist", k)
	case 22:
		args := []string{k, gen.Pick(t, "sec", "1000", "2000", "90000", "abc")}
		if rapid.Bool().Draw(t, "hasopt") {
			args = append(args, gen.CaseOf(t, gen.Pick(t, "eopt", "nx", "xx", "gt", "lt", "zz")))
		}
		return c("expire", args...)
	default: // wrong arity of a random listed command
		name := gen.Pick(t, "arityname", "get", "set", "append", "strlen", "getrange", "setrange", "incr", "incrby", "del", "exists", "type", "rename", "keys", "mset", "mget", "setnx", "setex", "incrbyfloat", "decrby")
		n := rapid.IntRange(0, 5).Draw(t, "arity")
		var args []string
		for i := 0; i < n; i++ {
			args = append(args, gen.Pick(t, "aa", "a", "A", "1000", "x"))
		}
		return c(name, args...)
	}
}

func GenProgram(t *rapid.T) prog.Program {
	p := prog.Program{ShardNum: rapid.SampledFrom([]int{1, 2, 16}).Draw(t, "shards")}
	// prologue: keys of every other type
	if rapid.IntRange(0, 3).Draw(t, "prologue") > 0 {
		p.Ops = append(p.Ops,
			kit.MkCmd("RPUSH", "L", "x", "y"), kit.MkCmd("SADD", "S", "m"), kit.MkCmd("HSET", "H", "f", "v"),
			kit.MkCmd("ZADD", "Z", "1", "m"), kit.MkCmd("XADD", "X", "1-1", "f", "v"))
	}
	n := rapid.SampledFrom([]int{1, 3, 6, 12, 25, 40}).Draw(t, "len")
	if kit.Thorough() && rapid.IntRange(0, 9).Draw(t, "long") == 0 {
		n = 200
	}
	for i := 0; i < n; i++ {
		p.Ops = append(p.Ops, genOp(t))
	}
	return p
}

func Opts() prog.Options {
	return prog.Options{
		SweepKeys: func(p prog.Program) []string {
			seen := map[string]bool{}
			out := []string{}
			for _, k := range pool {
				seen[k] = true
				out = append(out, k)
			}
			for _, op := range p.Ops { // rare random keys
				for _, a := range op[1:] {
					if strings.HasPrefix(string(a), "r") && len(a) <= 5 && !seen[string(a)] {
						seen[string(a)] = true
						out = append(out, string(a))
					}
				}
			}
			return out
		},
		NonTrivial: func(p prog.Program, st *prog.Stats) bool {
			if st.WrongType > 0 {
				return true
			}
			// >= 3 ops on one key incl. a write followed by a read through a different command, or an
			// upper-case / binary key
			perKey := map[string][]string{}
			for _, op := range p.Ops {
				if len(op) < 2 {
					continue
				}
				k := string(op[1])
				perKey[k] = append(perKey[k], strings.ToLower(string(op[0])))
				if k != strings.ToLower(k) || strings.ContainsAny(k, "\r\n\x00\xff") {
					return true
				}
			}
			for _, cmds := range perKey {
				if len(cmds) >= 3 {
					distinct := map[string]bool{}
					for _, c := range cmds {
						distinct[c] = true
					}
					if len(distinct) >= 2 {
						return true
					}
				}
			}
			return false
		},
	}
}

func Exec(p prog.Program) kit.Outcome {
	o, _ := prog.Run(p, Opts())
	return o
}

