package c07

import (
	"fmt"
	"strings"
	"time"

	"verifharness/kit"
	"verifharness/respx"
	"verifharness/srv"
)

// NondetCase: commands sent one after the other through one node of a healthy three-node cluster; then
// the keys are read through every node. Recorded finding C07-F1: every replica evaluates a replicated
// command for itself (and again when it replays its log), so commands whose effect depends on randomness
// or on the local clock - SPOP, XADD with an automatic ID, relative deadlines - leave the replicas with
// different keyspaces. The generators of C07, C08 and C14 issue deterministic commands only; this case is
// the witness that is replayed on every run.
type NondetCase struct {
	Cmds []kit.Cmd `json:"cmds"`
	Keys []kit.Cmd `json:"reads"` // read commands issued through every node afterwards
}

func execNondet(c NondetCase) kit.Outcome {
	cl, err := srv.StartCluster(srv.ClusterOptions{Size: 3})
	if err != nil {
		return kit.Outcome{Inconclusive: true, Labels: []string{"infrastructure: " + err.Error()}}
	}
	defer cl.Stop()
	cn, err := cl.Dial(1)
	if err != nil {
		return kit.Outcome{Inconclusive: true}
	}
	defer cn.Close()
	for _, cmd := range c.Cmds {
		if _, err := cn.Do(8*time.Second, cmd.Bytes()...); err != nil {
			return kit.Outcome{Inconclusive: true, Labels: []string{"command got no reply"}}
		}
	}
	var dumps []string
	for n := 1; n <= 3; n++ {
		nc, err := cl.Dial(n)
		if err != nil {
			return kit.Outcome{Inconclusive: true}
		}
		if _, err := nc.DoS(10*time.Second, "SET", "__ready:barrier", "1"); err != nil {
			nc.Close()
			return kit.Outcome{Inconclusive: true}
		}
		var sb strings.Builder
		for _, r := range c.Keys {
			v, err := nc.Do(8*time.Second, r.Bytes()...)
			if err != nil {
				nc.Close()
				return kit.Outcome{Inconclusive: true}
			}
			s := v.String()
			if v.Kind == respx.Array && strings.EqualFold(string(r[0]), "SMEMBERS") {
				s = canonSet(v)
			}
			fmt.Fprintf(&sb, "%s = %s\n", r.String(), s)
		}
		nc.Close()
		dumps = append(dumps, sb.String())
	}
	o := kit.Outcome{NonTrivial: true}
	for i := 1; i < 3; i++ {
		if dumps[i] != dumps[0] {
			o.Fail = fmt.Sprintf("replicas disagree after commands that were all acknowledged through node 1 (no fault injected):\n--- node 1\n%s--- node %d\n%s", dumps[0], i+1, dumps[i])
			return o
		}
	}
	return o
}

func canonSet(v respx.Value) string {
	var items []string
	for _, e := range v.Arr {
		items = append(items, e.String())
	}
	sortStrings(items)
	return "{" + strings.Join(items, " ") + "}"
}

func sortStrings(a []string) {
	for i := 1; i < len(a); i++ {
		for j := i; j > 0 && a[j] < a[j-1]; j-- {
			a[j], a[j-1] = a[j-1], a[j]
		}
	}
}
