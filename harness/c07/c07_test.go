// Package c07 checks C07: cluster mode is linearizable and all replicas apply the same history.
package c07

import (
	"fmt"
	"os"
	"strconv"
	"sort"
	"strings"
	"sync"
	"syscall"
	"testing"
	"time"

	"github.com/anishathalye/porcupine"
	"pgregory.net/rapid"

	"verifharness/gen"
	"verifharness/kit"
	"verifharness/lin"
	"verifharness/respx"
	"verifharness/srv"
)

func TestMain(m *testing.M) { kit.Main(m, "C07") }

type Client struct {
	Node int       `json:"node"`
	Ops  []kit.Cmd `json:"ops"`
}

type Fault struct {
	Kind   string `json:"kind"` // none | kill-restart | pause | pause-followers (both nodes that do not lead are frozen for DurMs) | member-add (a 4th node joins; Target = the node that is asked) | member-remove (Target leaves; asked through another node) | isolate (Target is cut off from the others; Target 0 = whoever leads at that moment) | cut-pair (the link Target <-> Other is cut, both still reach the third node) | flap (Target is cut off and reconnected every FlapMs)
	Target int    `json:"target"`
	AtMs   int    `json:"at_ms"`
	DurMs  int    `json:"dur_ms"`
	Other  int    `json:"other,omitempty"`
	Black  bool   `json:"black,omitempty"`   // link faults: connections stay open and deliver nothing (instead of being reset)
	FlapMs int    `json:"flap_ms,omitempty"` // flap: period
}

type Case struct {
	Multi   bool     `json:"multi,omitempty"` // multi-key commands in the mix: the history is checked over the joint keys
	Nodes   int      `json:"nodes"`
	Clients []Client `json:"clients"`
	Faults  []Fault  `json:"faults"`
	PaceUs  int      `json:"pace_us"` // pause between a client's operations
	// Member: the case changes the membership; it runs on a cluster of its own. Clients bound to node 4
	// wait until the node that joins serves.
	Member bool `json:"member,omitempty"`
	// Links: the nodes reach each other through the harness's link forwarders (link faults)
	Links bool `json:"links,omitempty"`
}

var keys = []string{"s0", "s1", "l0", "t0", "h0", "a", "b", "l1", "t1"}

func genOp(t *rapid.T, client, seq int) kit.Cmd {
	uniq := fmt.Sprintf("c%d-%d", client, seq)
	if rapid.IntRange(0, 39).Draw(t, "select") == 0 {
		// a client that asks for another database: whatever the answer is (cluster mode has one database),
		// it concerns that client's connection only - the others keep seeing their keys
		return kit.MkCmd("SELECT", gen.Pick(t, "seldb", "1", "2", "5"))
	}
	switch gen.Weighted(t, "op", []int{5, 5, 5, 3, 2, 2, 4, 3, 2, 3, 2, 2, 2, 2}) {
	case 0:
		return kit.MkCmd("SET", gen.Pick(t, "sk", "s0", "s1"), uniq)
	case 1:
		return kit.MkCmd("GET", gen.Pick(t, "sk", "s0", "s1"))
	case 2:
		return kit.MkCmd("INCR", "s1")
	case 3:
		return kit.MkCmd("APPEND", "s0", "x")
	case 4:
		return kit.MkCmd("DEL", gen.Pick(t, "dk", "s0", "s1"))
	case 5:
		return kit.MkCmd("SETNX", gen.Pick(t, "sk", "s0", "s1"), uniq)
	case 6:
		return kit.MkCmd("LPUSH", "l0", uniq)
	case 7:
		return kit.MkCmd("RPOP", "l0")
	case 8:
		return kit.MkCmd("LRANGE", "l0", "0", "-1")
	case 9:
		return kit.MkCmd("SADD", "t0", gen.Pick(t, "m", "a", "b", "c"))
	case 10:
		return kit.MkCmd("SREM", "t0", gen.Pick(t, "m", "a", "b", "c"))
	case 11:
		return kit.MkCmd("SMEMBERS", "t0")
	case 12:
		return kit.MkCmd("HSET", "h0", gen.Pick(t, "f", "f", "g"), uniq)
	default:
		return kit.MkCmd("HGET", "h0", gen.Pick(t, "f", "f", "g"))
	}
}

// genMultiOp: multi-key commands and single-key commands on the same keys (strings a b, lists l0 l1, sets t0 t1)
func genMultiOp(t *rapid.T, client, seq int) kit.Cmd {
	uniq := fmt.Sprintf("c%d-%d", client, seq)
	switch gen.Weighted(t, "mop", []int{4, 3, 3, 3, 3, 3, 3, 2, 2, 2, 2}) {
	case 0:
		return kit.MkCmd("MSET", "a", uniq, "b", uniq)
	case 1:
		return kit.MkCmd("RENAME", gen.Pick(t, "rs", "a", "b"), gen.Pick(t, "rd", "a", "b"))
	case 2:
		return kit.MkCmd("LMOVE", gen.Pick(t, "ls", "l0", "l1"), gen.Pick(t, "ld", "l0", "l1"), "LEFT", "RIGHT")
	case 3:
		return kit.MkCmd("SMOVE", gen.Pick(t, "ss", "t0", "t1"), gen.Pick(t, "sd", "t0", "t1"), gen.Pick(t, "sm", "x", "y"))
	case 4:
		return kit.MkCmd("SET", gen.Pick(t, "sk", "a", "b"), uniq)
	case 5:
		return kit.MkCmd("GET", gen.Pick(t, "gk", "a", "b"))
	case 6:
		return kit.MkCmd("LPUSH", gen.Pick(t, "pk", "l0", "l1"), uniq)
	case 7:
		return kit.MkCmd("LRANGE", gen.Pick(t, "lk", "l0", "l1"), "0", "-1")
	case 8:
		return kit.MkCmd("SADD", gen.Pick(t, "ak", "t0", "t1"), gen.Pick(t, "am", "x", "y"))
	case 9:
		return kit.MkCmd("SMEMBERS", gen.Pick(t, "mk", "t0", "t1"))
	default:
		return kit.MkCmd("SUNIONSTORE", "t1", "t0", "t1")
	}
}

func genCase(t *rapid.T) Case {
	c := Case{Nodes: 3, PaceUs: rapid.SampledFrom([]int{0, 200, 2000}).Draw(t, "pace")}
	if rapid.IntRange(0, 3).Draw(t, "multi") == 0 {
		c.Multi = true
		nc := rapid.IntRange(2, 4).Draw(t, "mclients")
		per := rapid.SampledFrom([]int{6, 10, 14}).Draw(t, "mper")
		for i := 0; i < nc; i++ {
			cl := Client{Node: 1 + rapid.IntRange(0, 2).Draw(t, "node")}
			for j := 0; j < per; j++ {
				cl.Ops = append(cl.Ops, genMultiOp(t, i, j))
			}
			c.Clients = append(c.Clients, cl)
		}
		return c
	}
	if rapid.IntRange(0, 5).Draw(t, "single") == 0 {
		c.Nodes = 1
	}
	nc := rapid.IntRange(2, 6).Draw(t, "clients")
	per := rapid.SampledFrom([]int{10, 25, 50, 80}).Draw(t, "per")
	for i := 0; i < nc; i++ {
		cl := Client{Node: 1 + rapid.IntRange(0, c.Nodes-1).Draw(t, "node")}
		for j := 0; j < per; j++ {
			cl.Ops = append(cl.Ops, genOp(t, i, j))
		}
		c.Clients = append(c.Clients, cl)
	}
	if c.Nodes == 3 {
		switch rapid.IntRange(0, 5).Draw(t, "fault") {
		case 5:
			// commits delayed by seconds while the leader stays: clients of the leader keep counters and lists
			// moving (what a command does twice shows there)
			c.Faults = append(c.Faults, Fault{Kind: "pause-followers", AtMs: rapid.IntRange(100, 400).Draw(t, "at"), DurMs: rapid.SampledFrom([]int{2500, 3200, 4500}).Draw(t, "dur")})
			for i := range c.Clients {
				for len(c.Clients[i].Ops) < 120 {
					c.Clients[i].Ops = append(c.Clients[i].Ops, genOp(t, i, len(c.Clients[i].Ops)))
				}
			}
			c.PaceUs = 30000
		case 3:
			// the same node goes down and comes back twice while its clients keep (re)connecting: they
			// talk to it while it replays its log
			tgt := 1 + rapid.IntRange(0, 2).Draw(t, "target")
			c.Faults = append(c.Faults, Fault{Kind: "kill-restart", Target: tgt, AtMs: rapid.IntRange(0, 40).Draw(t, "at"), DurMs: 100},
				Fault{Kind: "kill-restart", Target: tgt, AtMs: 2600 + rapid.IntRange(0, 400).Draw(t, "at2"), DurMs: 100})
			for i := range c.Clients {
				if i%2 == 0 {
					c.Clients[i].Node = tgt
				}
				for len(c.Clients[i].Ops) < 150 {
					c.Clients[i].Ops = append(c.Clients[i].Ops, genOp(t, i, len(c.Clients[i].Ops)))
				}
			}
			c.PaceUs = 20000
		case 1:
			c.Faults = append(c.Faults, Fault{Kind: "kill-restart", Target: 1 + rapid.IntRange(0, 2).Draw(t, "target"), AtMs: rapid.IntRange(0, 60).Draw(t, "at"), DurMs: rapid.SampledFrom([]int{100, 1500}).Draw(t, "dur")})
		case 2:
			f := Fault{Kind: "pause", Target: 1 + rapid.IntRange(0, 2).Draw(t, "target"), AtMs: rapid.IntRange(0, 60).Draw(t, "at"), DurMs: rapid.SampledFrom([]int{300, 3500, 6000}).Draw(t, "dur")}
			c.Faults = append(c.Faults, f)
			if f.DurMs >= 3500 {
				// a long pause deposes the node if it was the leader: keep the load running across the whole
				// pause, with half of the clients talking to the paused node (their requests are served the
				// moment it resumes, possibly before it has learnt that it is no longer the leader)
				for i := range c.Clients {
					if i%2 == 0 {
						c.Clients[i].Node = f.Target
					}
					for len(c.Clients[i].Ops) < 160 {
						c.Clients[i].Ops = append(c.Clients[i].Ops, genOp(t, i, len(c.Clients[i].Ops)))
					}
				}
				c.PaceUs = 50000
			}
		}
	}
	return c
}

var clusters = map[int]*srv.Cluster{}

// clusterFor returns a running cluster of n nodes. oneCPU: the node processes run with GOMAXPROCS=1
// (a legitimate deployment; it changes which goroutine gets to run first after a stall).
func clusterFor(n int, oneCPU, links bool) (*srv.Cluster, error) {
	key := n
	var env []string
	if oneCPU {
		key = n + 100
		env = []string{"GOMAXPROCS=1"}
	}
	if links {
		key += 200
	}
	c := clusters[key]
	ok := c != nil
	if ok {
		for i := 1; i <= n; i++ {
			if !c.Alive(i) {
				ok = false
			}
		}
	}
	if ok {
		return c, nil
	}
	if c != nil {
		c.Stop()
	}
	nc, err := srv.StartCluster(srv.ClusterOptions{Size: n, Env: env, Links: links})
	if err != nil {
		return nil, err
	}
	clusters[key] = nc
	return nc, nil
}

func stopAll() {
	for k, c := range clusters {
		c.Stop()
		delete(clusters, k)
	}
}

const opTimeout = 5 * time.Second

// client connection that reconnects after a lost/timed-out operation (the server side of such a
// connection may wait for ever for its dropped proposal)
type cconn struct {
	cl   *srv.Cluster
	node int
	c    *srv.Conn
	// notSent: the last do() failed before a single byte of the command left (no connection): the
	// command certainly has no effect
	notSent bool
}

func (cc *cconn) do(cmd kit.Cmd) (respx.Value, bool) {
	cc.notSent = false
	if cc.c == nil {
		c, err := cc.cl.Dial(cc.node)
		if err != nil {
			time.Sleep(40 * time.Millisecond) // the node is down: do not burn through the program
			cc.notSent = true
			return respx.Value{}, false
		}
		cc.c = c
	}
	v, err := cc.c.Do(opTimeout, cmd.Bytes()...)
	if err != nil {
		cc.c.Close()
		cc.c = nil
		return respx.Value{}, false
	}
	return v, true
}

func wipe(cl *srv.Cluster, node int) error {
	cn, err := cl.Dial(node)
	if err != nil {
		return err
	}
	defer cn.Close()
	v, err := cn.DoS(8*time.Second, "KEYS", "*")
	if err != nil {
		return err
	}
	for _, k := range v.Arr {
		if _, err := cn.Do(8*time.Second, []byte("DEL"), k.Str); err != nil {
			return err
		}
	}
	return nil
}

func dumpNode(cl *srv.Cluster, node int) (string, error) {
	cn, err := cl.Dial(node)
	if err != nil {
		return "", err
	}
	defer cn.Close()
	// barrier: once this write is acknowledged through the node, it has applied everything before it
	if _, err := cn.DoS(10*time.Second, "SET", "__ready:barrier", "1"); err != nil {
		return "", fmt.Errorf("barrier write: %v", err)
	}
	var sb strings.Builder
	reads := map[string][]string{"s0": {"GET"}, "s1": {"GET"}, "l0": {"LRANGE", "0", "-1"}, "t0": {"SMEMBERS"}, "h0": {"HGETALL"},
		"a": {"GET"}, "b": {"GET"}, "l1": {"LRANGE", "0", "-1"}, "t1": {"SMEMBERS"}}
	for _, k := range keys {
		args := append([]string{reads[k][0], k}, reads[k][1:]...)
		v, err := cn.DoS(8*time.Second, args...)
		if err != nil {
			return "", err
		}
		s := v.String()
		if v.Kind == respx.Error {
			s = "error" // a key may hold another type after RENAME: the type is part of the dump through KEYS/TYPE below
		}
		if (args[0] == "SMEMBERS" || args[0] == "HGETALL") && v.Kind == respx.Array {
			step := 1
			if args[0] == "HGETALL" {
				step = 2
			}
			var items []string
			for i := 0; i+step <= len(v.Arr); i += step {
				it := v.Arr[i].String()
				if step == 2 {
					it += "=" + v.Arr[i+1].String()
				}
				items = append(items, it)
			}
			sort.Strings(items)
			s = strings.Join(items, ",")
		}
		fmt.Fprintf(&sb, "%s=%s\n", k, s)
	}
	v, err := cn.DoS(8*time.Second, "KEYS", "*")
	if err != nil {
		return "", err
	}
	var ks []string
	for _, e := range v.Arr {
		if !strings.HasPrefix(string(e.Str), "__ready:") {
			ks = append(ks, string(e.Str))
		}
	}
	sort.Strings(ks)
	fmt.Fprintf(&sb, "KEYS=%q\n", ks)
	return sb.String(), nil
}

func exec(c Case) kit.Outcome {
	oneCPU := false
	for _, f := range c.Faults {
		if f.Kind == "pause" && f.DurMs >= 3500 {
			oneCPU = true
		}
	}
	ckey := c.Nodes
	if oneCPU {
		ckey += 100
	}
	if c.Links {
		ckey += 200
	}
	var cl *srv.Cluster
	var err error
	if c.Member {
		ckey = -1
		if cl, err = srv.StartCluster(srv.ClusterOptions{Size: c.Nodes}); err == nil {
			defer cl.Stop()
		}
	} else {
		cl, err = clusterFor(c.Nodes, oneCPU, c.Links)
	}
	if err != nil {
		return kit.Outcome{Fail: "infrastructure: " + err.Error()}
	}
	if cl.Net != nil {
		cl.Net.HealAll()
		defer cl.Net.HealAll()
	}
	removed := map[int]bool{}
	joined := make(chan struct{}) // closed when the joining node has been started and announced
	var joinOnce sync.Once
	if err := wipe(cl, 1); err != nil {
		cl.Stop()
		delete(clusters, ckey)
		return kit.Outcome{Inconclusive: true, Labels: []string{"wipe-failed:" + err.Error()}}
	}
	o := kit.Outcome{Labels: []string{fmt.Sprintf("nodes:%d", c.Nodes)}}
	if c.Multi {
		o.Labels = append(o.Labels, "multi-key")
	}
	for _, f := range c.Faults {
		o.Labels = append(o.Labels, "fault:"+f.Kind)
	}
	var mu sync.Mutex
	var hist []porcupine.Operation
	unknown, neverSent, ledIsolated := 0, 0, 0
	var wg sync.WaitGroup
	start := make(chan struct{})
	t0 := time.Now()
	for ci, clnt := range c.Clients {
		wg.Add(1)
		go func(ci int, clnt Client) {
			defer wg.Done()
			cc := &cconn{cl: cl, node: clnt.Node}
			defer func() {
				if cc.c != nil {
					cc.c.Close()
				}
			}()
			<-start
			if clnt.Node > c.Nodes {
				// a client of the node that joins: wait until it is there and serves
				select {
				case <-joined:
				case <-time.After(30 * time.Second):
					return
				}
				for i := 0; i < 150; i++ {
					if cn, err := cl.Dial(clnt.Node); err == nil {
						_, err = cn.DoS(2*time.Second, "GET", "__ready:probe")
						cn.Close()
						if err == nil {
							break
						}
					}
					time.Sleep(100 * time.Millisecond)
				}
			}
			for _, cmd := range clnt.Ops {
				call := time.Since(t0).Nanoseconds()
				v, ok := cc.do(cmd)
				if !ok && cc.notSent {
					mu.Lock()
					gone := removed[clnt.Node]
					neverSent++
					mu.Unlock()
					if gone {
						return // the node has left the cluster for good
					}
					continue
				}
				ret := time.Since(t0).Nanoseconds()
				if strings.EqualFold(string(cmd[0]), "SELECT") {
					continue // not part of the history: its reply is a don't-care, its effect on others is not
				}
				part := string(cmd[1])
				if c.Multi {
					part = "joint"
				}
				op := porcupine.Operation{ClientId: ci, Input: lin.In{Cmd: cmd, Part: part}, Call: call, Output: lin.Out{Val: v}, Return: ret}
				if !ok {
					// indeterminate: may take effect at any later time, or never
					op.Output = lin.Out{Unknown: true}
					op.Return = 1 << 61
				}
				mu.Lock()
				hist = append(hist, op)
				if !ok {
					unknown++
				}
				gone := !ok && removed[clnt.Node]
				mu.Unlock()
				if gone {
					return // the node has left the cluster: it may accept connections, it will never answer
				}
				if c.PaceUs > 0 {
					time.Sleep(time.Duration(c.PaceUs) * time.Microsecond)
				}
			}
		}(ci, clnt)
	}
	// fault injector
	var fwg sync.WaitGroup
	for _, f := range c.Faults {
		fwg.Add(1)
		go func(f Fault) {
			defer fwg.Done()
			<-start
			time.Sleep(time.Duration(f.AtMs) * time.Millisecond)
			switch f.Kind {
			case "member-add":
				id, url, err := cl.AddNode()
				if err != nil {
					return
				}
				if cn, err := cl.Dial(f.Target); err == nil {
					_, _ = cn.DoS(opTimeout, "rconf", "add", strconv.Itoa(id), url)
					cn.Close()
				}
				joinOnce.Do(func() { close(joined) })
			case "member-remove":
				via := 1 + f.Target%c.Nodes
				if cn, err := cl.Dial(via); err == nil {
					_, _ = cn.DoS(opTimeout, "rconf", "delete", strconv.Itoa(f.Target))
					cn.Close()
				}
				mu.Lock()
				removed[f.Target] = true
				mu.Unlock()
			case "kill-restart":
				cl.Kill(f.Target)
				time.Sleep(time.Duration(f.DurMs) * time.Millisecond)
				_ = cl.StartNode(f.Target)
			case "isolate", "cut-pair", "flap":
				if cl.Net == nil {
					return
				}
				mode := int32(srv.LinkCut)
				if f.Black {
					mode = srv.LinkBlack
				}
				tgt := f.Target
				if tgt == 0 {
					if tgt = cl.Leader(); tgt == 0 {
						tgt = 1
					}
					mu.Lock()
					ledIsolated++
					mu.Unlock()
				}
				switch f.Kind {
				case "cut-pair":
					cl.Net.SetPair(tgt, f.Other, mode)
					time.Sleep(time.Duration(f.DurMs) * time.Millisecond)
				case "flap":
					for el := 0; el < f.DurMs; el += 2 * f.FlapMs {
						cl.Net.Isolate(tgt, mode)
						time.Sleep(time.Duration(f.FlapMs) * time.Millisecond)
						cl.Net.Isolate(tgt, srv.LinkPass)
						time.Sleep(time.Duration(f.FlapMs) * time.Millisecond)
					}
				default:
					cl.Net.Isolate(tgt, mode)
					time.Sleep(time.Duration(f.DurMs) * time.Millisecond)
				}
				// reads and writes queued on the separated node over fresh connections just before the links
				// come back: a node that still believes it leads must not answer them from its own state
				type qr struct {
					cn   *srv.Conn
					cmd  kit.Cmd
					call int64
				}
				var queued []qr
				if f.Kind == "isolate" {
					for i := 0; i < 8; i++ {
						cn, err := cl.Dial(tgt)
						if err != nil {
							continue
						}
						cmd := kit.MkCmd("GET", []string{"s0", "s1"}[i%2])
						if i >= 6 {
							cmd = kit.MkCmd("SET", []string{"s0", "s1"}[i%2], fmt.Sprintf("q%d-%d", tgt, i))
						}
						call := time.Since(t0).Nanoseconds()
						if cn.Write(respx.EncodeCommand(cmd.Bytes()), time.Second) != nil {
							cn.Close()
							continue
						}
						queued = append(queued, qr{cn, cmd, call})
					}
					time.Sleep(150 * time.Millisecond)
				}
				if f.Kind == "cut-pair" {
					cl.Net.SetPair(tgt, f.Other, srv.LinkPass)
				} else {
					cl.Net.Isolate(tgt, srv.LinkPass)
				}
				for i, q := range queued {
					v, err := q.cn.Read(opTimeout)
					ret := time.Since(t0).Nanoseconds()
					op := porcupine.Operation{ClientId: 2000 + 10*tgt + i, Input: lin.In{Cmd: q.cmd, Part: string(q.cmd[1])}, Call: q.call, Output: lin.Out{Val: v}, Return: ret}
					if err != nil {
						op.Output = lin.Out{Unknown: true}
						op.Return = 1 << 61
					}
					q.cn.Close()
					mu.Lock()
					hist = append(hist, op)
					mu.Unlock()
				}
			case "pause-followers":
				// both nodes that do not lead are frozen: nothing commits meanwhile, the leader keeps its role (a
				// frozen node's election timer does not run), and everything commits when they resume - commands
				// are delayed by seconds, not lost
				lead := cl.Leader()
				if lead == 0 {
					lead = 1
				}
				var others []int
				for n := 1; n <= c.Nodes; n++ {
					if n != lead {
						others = append(others, n)
					}
				}
				for _, n := range others {
					cl.Signal(n, syscall.SIGSTOP)
				}
				time.Sleep(time.Duration(f.DurMs) * time.Millisecond)
				for _, n := range others {
					cl.Signal(n, syscall.SIGCONT)
				}
			case "pause":
				cl.Signal(f.Target, syscall.SIGSTOP)
				time.Sleep(time.Duration(f.DurMs) * time.Millisecond)
				// queue reads on the frozen node over fresh connections: they are the first thing it
				// serves when it resumes, before it may have learnt what happened meanwhile
				type qr struct {
					cn   *srv.Conn
					cmd  kit.Cmd
					call int64
				}
				var queued []qr
				if f.DurMs >= 3500 {
					for i := 0; i < 12; i++ {
						cn, err := cl.Dial(f.Target)
						if err != nil {
							continue
						}
						cmd := kit.MkCmd("GET", []string{"s0", "s1"}[i%2])
						call := time.Since(t0).Nanoseconds()
						if cn.Write(respx.EncodeCommand(cmd.Bytes()), time.Second) != nil {
							cn.Close()
							continue
						}
						queued = append(queued, qr{cn, cmd, call})
					}
				}
				cl.Signal(f.Target, syscall.SIGCONT)
				for i, q := range queued {
					v, err := q.cn.Read(opTimeout)
					ret := time.Since(t0).Nanoseconds()
					op := porcupine.Operation{ClientId: 1000 + i, Input: lin.In{Cmd: q.cmd, Part: string(q.cmd[1])}, Call: q.call, Output: lin.Out{Val: v}, Return: ret}
					if err != nil {
						op.Output = lin.Out{Unknown: true}
						op.Return = 1 << 61
					}
					q.cn.Close()
					mu.Lock()
					hist = append(hist, op)
					mu.Unlock()
				}
			}
		}(f)
	}
	close(start)
	wg.Wait()
	fwg.Wait()
	joinOnce.Do(func() { close(joined) })
	// the members at the end: everything that was started, minus what was removed
	var members []int
	for i := 1; i <= len(cl.Nodes); i++ {
		if !removed[i] {
			members = append(members, i)
		}
	}
	if c.Member {
		o.Labels = append(o.Labels, fmt.Sprintf("members-at-the-end:%d", len(members)))
	}
	// (3) every node that was not deliberately killed is alive; restarted ones came back
	for _, i := range members {
		if !cl.Alive(i) {
			rep := cl.CrashReport(i)
			cl.Stop()
			delete(clusters, ckey)
			o.Fail = fmt.Sprintf("node %d is down after the workload: %.600s", i, rep)
			return o
		}
	}
	notServing := false
	readVia := members[0]
	if err := cl.WaitServing(30*time.Second, members); err != nil {
		logs := cl.Logs(500)
		// not serving again is liveness: not a violation by itself unless a node died with a panic
		if strings.Contains(logs, "panic:") || strings.Contains(logs, "fatal error:") {
			cl.Stop()
			delete(clusters, ckey)
			o.Fail = "after the faults were healed the cluster does not serve and a node reports a crash: " + err.Error() + "\n" + firstN(logs, 1200)
			return o
		}
		// ... but what the clients saw until then is still a history that must be linearizable: judge it,
		// with final reads through a member that does serve (reads go through the log as well)
		notServing = true
		o.Labels = append(o.Labels, "cluster-not-serving-after-heal")
		readVia = 0
		for _, m := range members {
			if cl.WaitServing(4*time.Second, []int{m}) == nil {
				readVia = m
				break
			}
		}
		defer func() {
			cl.Stop()
			delete(clusters, ckey)
		}()
	}
	// (2) replicas agree at quiescence
	if !notServing {
		var dumps []string
		for _, i := range members {
			d, err := dumpNode(cl, i)
			if err != nil {
				o.Inconclusive = true
				o.Labels = append(o.Labels, "dump-failed")
				return o
			}
			dumps = append(dumps, d)
		}
		for i := 1; i < len(dumps); i++ {
			if dumps[i] != dumps[0] {
				o.Fail = fmt.Sprintf("replicas disagree at quiescence (all members up, barrier write acknowledged through each):\n--- node %d\n%s--- node %d\n%s", members[0], dumps[0], members[i], dumps[i])
				return o
			}
		}
	}
	// (1) linearizability, with the final state read through node 1 as last operations
	var cn *srv.Conn
	err = fmt.Errorf("no member serves")
	if readVia != 0 {
		cn, err = cl.Dial(readVia)
	}
	if err == nil {
		reads := [][]string{{"GET", "s0"}, {"GET", "s1"}, {"LRANGE", "l0", "0", "-1"}, {"SMEMBERS", "t0"}, {"HGETALL", "h0"}}
		if c.Multi {
			reads = [][]string{{"GET", "a"}, {"GET", "b"}, {"LRANGE", "l0", "0", "-1"}, {"LRANGE", "l1", "0", "-1"}, {"SMEMBERS", "t0"}, {"SMEMBERS", "t1"}}
		}
		for i, r := range reads {
			v, err := cn.DoS(8*time.Second, r...)
			if err != nil {
				break
			}
			part := r[1]
			if c.Multi {
				part = "joint"
			}
			hist = append(hist, porcupine.Operation{ClientId: len(c.Clients), Input: lin.In{Cmd: kit.MkCmd(r...), Part: part}, Call: 1<<60 + int64(2*i), Output: lin.Out{Val: v}, Return: 1<<60 + int64(2*i+1)})
		}
		cn.Close()
	}
	overl := false
	sort.Slice(hist, func(i, j int) bool { return hist[i].Call < hist[j].Call })
	for i := range hist {
		for j := i + 1; j < len(hist) && hist[j].Call < hist[i].Return && j < i+20; j++ {
			a, b := hist[i], hist[j]
			if a.ClientId != b.ClientId && a.Input.(lin.In).Part == b.Input.(lin.In).Part && a.ClientId < len(c.Clients) && b.ClientId < len(c.Clients) &&
				c.Clients[a.ClientId].Node != c.Clients[b.ClientId].Node {
				overl = true
			}
		}
	}
	o.NonTrivial = overl || len(c.Faults) > 0
	if ledIsolated > 0 {
		o.Labels = append(o.Labels, "leader-isolated")
	}
	kit.C.Label("indeterminate-ops", int64(unknown))
	kit.C.Label("ops-never-sent-node-down", int64(neverSent))
	switch lin.Check(hist, 20*time.Second) {
	case porcupine.Illegal:
		byKey := map[string][]porcupine.Operation{}
		for _, op := range hist {
			byKey[op.Input.(lin.In).Part] = append(byKey[op.Input.(lin.In).Part], op)
		}
		for k, ops := range byKey {
			if lin.Check(ops, 20*time.Second) == porcupine.Illegal {
				o.Fail = fmt.Sprintf("the history on key %q is not linearizable (%d ops, %d indeterminate in total):%s", k, len(ops), unknown, lin.Describe(ops, 70))
				return o
			}
		}
		o.Fail = "the history is not linearizable"
	case porcupine.Unknown:
		o.Inconclusive = true
		o.Labels = append(o.Labels, "porcupine-budget-exhausted")
	}
	if notServing && o.Fail == "" {
		o.Inconclusive = true // the history so far is fine; that the cluster did not come back is liveness
	}
	return o
}

func firstN(s string, n int) string {
	if len(s) > n {
		return s[:n]
	}
	return s
}

func TestWorkloads(t *testing.T) {
	defer stopAll()
	kit.Check(t, kit.Spec[Case]{Sub: "load", Quick: 6, Thorough: 40, Gen: genCase, Exec: exec, NoShrink: !kit.Thorough()})
}

// genPauseEach: every node is frozen in turn for longer than the election time-out while clients on all
// nodes keep reading and writing two keys: one of the three is the leader when its turn comes, so a
// leader that has been deposed without noticing is reached deterministically (reads are queued on the
// frozen node and served the moment it resumes).
func genPauseEach(t *rapid.T) Case {
	c := Case{Nodes: 3, PaceUs: 50000}
	order := rapid.Permutation([]int{1, 2, 3}).Draw(t, "order")
	for i, n := range order {
		c.Faults = append(c.Faults, Fault{Kind: "pause", Target: n, AtMs: 200 + 9000*i, DurMs: rapid.SampledFrom([]int{5500, 6500}).Draw(t, "dur")})
	}
	for ci := 0; ci < 6; ci++ {
		cl := Client{Node: 1 + ci%3}
		for j := 0; j < 520; j++ {
			k := gen.Pick(t, "k", "s0", "s1")
			if rapid.Bool().Draw(t, "w") {
				cl.Ops = append(cl.Ops, kit.MkCmd("SET", k, fmt.Sprintf("c%d-%d", ci, j)))
			} else {
				cl.Ops = append(cl.Ops, kit.MkCmd("GET", k))
			}
		}
		c.Clients = append(c.Clients, cl)
	}
	return c
}

// genMemberCase: the membership changes under load - a fourth node joins (started with JoinCluster,
// announced with "rconf add"), and/or a member is removed ("rconf delete"); a quorum exists throughout.
// Clients keep working on every node, including the one that joins (once it serves) and the one that
// leaves (its operations become indeterminate).
func genMemberCase(t *rapid.T) Case {
	c := Case{Nodes: 3, Member: true, PaceUs: rapid.SampledFrom([]int{10000, 20000}).Draw(t, "pace")}
	// 0: a node joins, 1: a node leaves. (rconf proposes explicit joint changes and never leaves the joint
	// configuration, so the library refuses any second change: one change per case.)
	// The domain is tiny (join; leave x 3 nodes): the shards of a run walk through it side by side.
	plan := (kit.Shard() + rapid.IntRange(0, 3).Draw(t, "plan")) % 4
	kind := 1
	if plan == 3 {
		kind = 0
	}
	nc := rapid.IntRange(3, 6).Draw(t, "clients")
	for i := 0; i < nc; i++ {
		cl := Client{Node: 1 + rapid.IntRange(0, 2).Draw(t, "node")}
		if kind != 1 && i == nc-1 {
			cl.Node = 4
		}
		for j := 0; j < 300; j++ { // 3-6 s of load: it spans both changes
			cl.Ops = append(cl.Ops, genOp(t, i, j))
		}
		c.Clients = append(c.Clients, cl)
	}
	at := rapid.IntRange(0, 300).Draw(t, "at")
	if kind != 1 {
		c.Faults = append(c.Faults, Fault{Kind: "member-add", Target: 1 + rapid.IntRange(0, 2).Draw(t, "askadd"), AtMs: at})
		at += 1500 + rapid.IntRange(0, 1500).Draw(t, "gap")
	}
	if kind != 0 {
		c.Faults = append(c.Faults, Fault{Kind: "member-remove", Target: 3 - plan, AtMs: at})
	}
	return c
}

// genPartitionCase: link faults. The nodes talk to each other through the harness's forwarders; one to
// three link faults follow one another while clients on every node keep reading and writing: the leader
// (whoever it is at that moment) or a named node is cut off for longer than the election time-out (reset
// connections or black holes), a single link is cut while both ends still reach the third node, or a
// node's links flap. Optionally a node of the majority side is killed and restarted during the fault.
func genPartitionCase(t *rapid.T) Case {
	c := Case{Nodes: 3, Links: true, PaceUs: rapid.SampledFrom([]int{20000, 40000}).Draw(t, "pace")}
	if rapid.IntRange(0, 3).Draw(t, "multi") == 0 {
		c.Multi = true
	}
	nf := rapid.IntRange(1, 3).Draw(t, "nfaults")
	at := rapid.IntRange(100, 600).Draw(t, "at")
	for i := 0; i < nf; i++ {
		f := Fault{AtMs: at, Black: rapid.Bool().Draw(t, "black")}
		switch gen.Weighted(t, "lf", []int{4, 3, 2, 2}) {
		case 0:
			f.Kind, f.Target, f.DurMs = "isolate", 0, rapid.SampledFrom([]int{2600, 5200, 6500}).Draw(t, "dur")
		case 1:
			f.Kind, f.Target, f.DurMs = "isolate", 1+rapid.IntRange(0, 2).Draw(t, "target"), rapid.SampledFrom([]int{800, 5200}).Draw(t, "dur")
		case 2:
			f.Kind, f.Target, f.DurMs = "cut-pair", 1+rapid.IntRange(0, 2).Draw(t, "target"), rapid.SampledFrom([]int{3000, 6000}).Draw(t, "dur")
			f.Other = 1 + (f.Target+rapid.IntRange(0, 1).Draw(t, "other"))%3
		default:
			f.Kind, f.Target, f.DurMs = "flap", rapid.IntRange(0, 3).Draw(t, "target"), 5000
			f.FlapMs = rapid.SampledFrom([]int{150, 600, 1300}).Draw(t, "flap")
		}
		c.Faults = append(c.Faults, f)
		if f.Kind == "isolate" && f.Target != 0 && f.DurMs >= 5000 && rapid.IntRange(0, 3).Draw(t, "kill") == 0 {
			// a node of the majority side goes down and comes back while the third one is cut off
			c.Faults = append(c.Faults, Fault{Kind: "kill-restart", Target: 1 + f.Target%3, AtMs: at + 1500, DurMs: 800})
		}
		at += f.DurMs + rapid.IntRange(300, 2500).Draw(t, "gap")
	}
	nc := rapid.IntRange(4, 6).Draw(t, "clients")
	per := (at + 1500) * 1000 / (c.PaceUs + 2000)
	if per > 500 {
		per = 500
	}
	for i := 0; i < nc; i++ {
		cl := Client{Node: 1 + i%3}
		for j := 0; j < per; j++ {
			switch {
			case c.Multi:
				cl.Ops = append(cl.Ops, genMultiOp(t, i, j))
			case j%3 == 0: // plenty of plain reads and writes on two keys: stale answers show there first
				k := gen.Pick(t, "k", "s0", "s1")
				if rapid.Bool().Draw(t, "w") {
					cl.Ops = append(cl.Ops, kit.MkCmd("SET", k, fmt.Sprintf("c%d-%d", i, j)))
				} else {
					cl.Ops = append(cl.Ops, kit.MkCmd("GET", k))
				}
			default:
				cl.Ops = append(cl.Ops, genOp(t, i, j))
			}
		}
		c.Clients = append(c.Clients, cl)
	}
	return c
}

func TestPartitions(t *testing.T) {
	defer stopAll()
	kit.Check(t, kit.Spec[Case]{Sub: "load", Quick: 1, Thorough: 8, Gen: genPartitionCase, Exec: exec, NoShrink: true})
}

// genDelayedCase: commits delayed by seconds - twice in a row both followers are frozen while two clients
// per node keep counters, strings and lists moving - and nothing lost: whatever an implementation does
// about commands that take long (wait, retry, hand in again) must not make a command take effect twice.
func genDelayedCase(t *rapid.T) Case {
	c := Case{Nodes: 3, PaceUs: 25000}
	d1 := rapid.SampledFrom([]int{2500, 3200, 4500}).Draw(t, "d1")
	c.Faults = append(c.Faults, Fault{Kind: "pause-followers", AtMs: rapid.IntRange(150, 500).Draw(t, "at"), DurMs: d1},
		Fault{Kind: "pause-followers", AtMs: d1 + 2500 + rapid.IntRange(0, 800).Draw(t, "gap"), DurMs: rapid.SampledFrom([]int{2500, 3200}).Draw(t, "d2")})
	for ci := 0; ci < 6; ci++ {
		cl := Client{Node: 1 + ci%3}
		for j := 0; j < 140; j++ {
			uniq := fmt.Sprintf("c%d-%d", ci, j)
			switch gen.Weighted(t, "dop", []int{5, 3, 4, 2, 3, 2, 2}) {
			case 0:
				cl.Ops = append(cl.Ops, kit.MkCmd("INCR", "s1"))
			case 1:
				cl.Ops = append(cl.Ops, kit.MkCmd("APPEND", "s0", "x"))
			case 2:
				cl.Ops = append(cl.Ops, kit.MkCmd("LPUSH", "l0", uniq))
			case 3:
				cl.Ops = append(cl.Ops, kit.MkCmd("RPOP", "l0"))
			case 4:
				cl.Ops = append(cl.Ops, kit.MkCmd("GET", gen.Pick(t, "gk", "s0", "s1")))
			case 5:
				cl.Ops = append(cl.Ops, kit.MkCmd("LRANGE", "l0", "0", "-1"))
			default:
				cl.Ops = append(cl.Ops, kit.MkCmd("HSET", "h0", "f", uniq))
			}
		}
		c.Clients = append(c.Clients, cl)
	}
	return c
}

func TestDelayedCommits(t *testing.T) {
	defer stopAll()
	kit.Check(t, kit.Spec[Case]{Sub: "load", Quick: 1, Thorough: 6, Gen: genDelayedCase, Exec: exec, NoShrink: true})
}

func TestMembership(t *testing.T) {
	defer stopAll()
	kit.Check(t, kit.Spec[Case]{Sub: "load", Quick: 1, Thorough: 6, Gen: genMemberCase, Exec: exec, NoShrink: true})
}

func TestPauseEachNode(t *testing.T) {
	defer stopAll()
	q := 0
	if kit.Shard() == 0 {
		q = 1 // one such case per quick run (about 45 s)
	}
	kit.Check(t, kit.Spec[Case]{Sub: "load", Quick: q, Thorough: 2, Gen: genPauseEach, Exec: exec, NoShrink: true})
}

func TestReplay(t *testing.T) {
	defer stopAll()
	kit.Replay[Case](t, map[string]func(kit.RawCase) kit.Outcome{"load": kit.ReplaySub(func(c Case) kit.Outcome {
		var o kit.Outcome
		iters := 5
		if v, err := strconv.Atoi(os.Getenv("VERIF_REPLAY_ITERS")); err == nil && v > 0 {
			iters = v
		}
		for i := 0; i < iters; i++ {
			if o = exec(c); o.Fail != "" {
				return o
			}
		}
		return o
	}), "nondet": kit.ReplaySub(execNondet), "pipe": kit.ReplaySub(execPipe)})
}
