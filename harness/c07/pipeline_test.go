package c07

import (
	"fmt"
	"strconv"
	"sync"
	"sync/atomic"
	"testing"
	"time"

	"pgregory.net/rapid"

	"verifharness/kit"
	"verifharness/respx"
	"verifharness/srv"
)

// PipeCase: clients that pipeline (several commands in one write, then the replies) on keys of their own,
// next to clients that open a fresh connection for every few commands, all on a healthy three-node
// cluster. A pipelining client is still one client: its commands take effect in the order sent and reply
// i answers command i - on its own keys it sees exactly what a sequential program sees. Connections
// that come and go under load must not bring a node down.
type PipeCase struct {
	Pipers   int `json:"pipers"`
	Batches  int `json:"batches"`
	Width    int `json:"width"` // commands per batch (rounded to whole groups)
	Churn    int `json:"churners"`
	ChurnOps int `json:"churn_ops"`
	// Crowd: that many further connections each send one INCR at the same instant (commit batches of dozens
	// of entries), Waves times
	Crowd int `json:"crowd,omitempty"`
	Waves int `json:"waves,omitempty"`
}

func execPipe(c PipeCase) kit.Outcome {
	cl, err := clusterFor(3, false, false)
	if err != nil {
		return kit.Outcome{Fail: "infrastructure: " + err.Error()}
	}
	if err := wipe(cl, 1); err != nil {
		cl.Stop()
		delete(clusters, 3)
		return kit.Outcome{Inconclusive: true, Labels: []string{"wipe-failed"}}
	}
	caseTag := fmt.Sprintf("pp%d", time.Now().UnixNano()%1000000)
	o := kit.Outcome{NonTrivial: c.Pipers > 0, Labels: []string{"pipelining-clients", "connection-churn"}}
	var wg sync.WaitGroup
	fails := make(chan string, c.Pipers+c.Churn+1)
	var acked int64
	stop := make(chan struct{})
	for p := 0; p < c.Pipers; p++ {
		wg.Add(1)
		go func(p int) {
			defer wg.Done()
			node := 1 + p%3
			cn, err := cl.Dial(node)
			if err != nil {
				return
			}
			defer cn.Close()
			ks, kc, kl := fmt.Sprintf("%s:s%d", caseTag, p), fmt.Sprintf("%s:c%d", caseTag, p), fmt.Sprintf("%s:l%d", caseTag, p)
			counter, llen := int64(0), int64(0)
			for b := 0; b < c.Batches; b++ {
				var wire []byte
				type exp struct {
					cmd  string
					want respx.Value
				}
				var exps []exp
				add := func(want respx.Value, args ...string) {
					bs := make([][]byte, len(args))
					for i, a := range args {
						bs[i] = []byte(a)
					}
					wire = append(wire, respx.EncodeCommand(bs)...)
					exps = append(exps, exp{fmt.Sprint(args), want})
				}
				for g := 0; g*6 < c.Width; g++ {
					u := fmt.Sprintf("p%d-b%d-g%d", p, b, g)
					add(respx.Value{Kind: respx.Simple, Str: []byte("OK")}, "SET", ks, u)
					add(respx.Value{Kind: respx.Bulk, Str: []byte(u)}, "GET", ks)
					counter++
					add(respx.Value{Kind: respx.Integer, Int: counter}, "INCR", kc)
					add(respx.Value{Kind: respx.Bulk, Str: []byte(strconv.FormatInt(counter, 10))}, "GET", kc)
					llen++
					add(respx.Value{Kind: respx.Integer, Int: llen}, "RPUSH", kl, u)
					add(respx.Value{Kind: respx.Integer, Int: llen}, "LLEN", kl)
				}
				if err := cn.Write(wire, 5*time.Second); err != nil {
					fails <- fmt.Sprintf("piper %d: write failed: %v", p, err)
					return
				}
				for i, e := range exps {
					v, err := cn.Read(10 * time.Second)
					if err != nil {
						fails <- fmt.Sprintf("pipelining client %d (node %d), batch %d: reply %d of %d (%s) did not arrive: %v", p, node, b, i, len(exps), e.cmd, err)
						return
					}
					if v.Kind != e.want.Kind || string(v.Str) != string(e.want.Str) || v.Int != e.want.Int {
						fails <- fmt.Sprintf("pipelining client %d (node %d), batch %d of %d commands on keys nobody else uses: reply %d answers %s with %s, a sequential execution gives %s", p, node, b, len(exps), i, e.cmd, v.String(), e.want.String())
						return
					}
				}
			}
		}(p)
	}
	for k := 0; k < c.Churn; k++ {
		wg.Add(1)
		go func(k int) {
			defer wg.Done()
			node := 1 + k%3
			for i := 0; i < c.ChurnOps; i++ {
				select {
				case <-stop:
					return
				default:
				}
				cn, err := cl.Dial(node)
				if err != nil {
					time.Sleep(20 * time.Millisecond)
					continue
				}
				if v, err := cn.DoS(5*time.Second, "INCR", caseTag+":shared"); err == nil && v.Kind == respx.Integer {
					atomic.AddInt64(&acked, 1)
				}
				if i%3 == 0 {
					// leave with a command in flight
					_ = cn.Write(respx.EncodeCommand([][]byte{[]byte("GET"), []byte(caseTag + ":shared")}), time.Second)
				}
				cn.Close()
			}
		}(k)
	}
	// the crowd: many connections, one command each, released together
	if c.Crowd > 0 {
		wg.Add(1)
		go func() {
			defer wg.Done()
			conns := make([]*srv.Conn, 0, c.Crowd)
			for i := 0; i < c.Crowd; i++ {
				if cn, err := cl.Dial(1 + i%3); err == nil {
					conns = append(conns, cn)
				}
			}
			defer func() {
				for _, cn := range conns {
					cn.Close()
				}
			}()
			for w := 0; w < c.Waves; w++ {
				start := make(chan struct{})
				var cw sync.WaitGroup
				var missing int64
				for _, cn := range conns {
					cw.Add(1)
					go func(cn *srv.Conn) {
						defer cw.Done()
						<-start
						v, err := cn.DoS(15*time.Second, "INCR", caseTag+":shared")
						if err == nil && v.Kind == respx.Integer {
							atomic.AddInt64(&acked, 1)
						} else {
							atomic.AddInt64(&missing, 1)
						}
					}(cn)
				}
				close(start)
				cw.Wait()
				if m := atomic.LoadInt64(&missing); m > 0 {
					fails <- fmt.Sprintf("wave %d: %d connections sent one INCR each at the same moment to a healthy cluster, %d of them got no reply within 15 s", w, len(conns), m)
					return
				}
			}
		}()
	}
	wg.Wait()
	close(stop)
	select {
	case f := <-fails:
		for i := 1; i <= 3; i++ {
			if !cl.Alive(i) {
				f += fmt.Sprintf(" | node %d is down: %.400s", i, cl.CrashReport(i))
			}
		}
		cl.Stop()
		delete(clusters, 3)
		o.Fail = f
		return o
	default:
	}
	for i := 1; i <= 3; i++ {
		if !cl.Alive(i) {
			rep := cl.CrashReport(i)
			cl.Stop()
			delete(clusters, 3)
			o.Fail = fmt.Sprintf("node %d went down while clients pipelined and connections came and went: %.600s", i, rep)
			return o
		}
	}
	if err := cl.WaitServing(30*time.Second, nil); err != nil {
		cl.Stop()
		delete(clusters, 3)
		o.Inconclusive = true
		o.Labels = append(o.Labels, "cluster-not-serving-after-the-load")
		return o
	}
	// every acknowledged INCR of the churning clients counted, once
	cn, err := cl.Dial(1)
	if err == nil {
		defer cn.Close()
		if v, err := cn.DoS(8*time.Second, "GET", caseTag+":shared"); err == nil && c.Churn > 0 {
			got, _ := strconv.ParseInt(string(v.Str), 10, 64)
			// operations left in flight at a close may or may not have been applied: they are GETs
			if got != atomic.LoadInt64(&acked) {
				o.Fail = fmt.Sprintf("%d INCRs were acknowledged to clients that reconnect for every command, the counter reads %s", atomic.LoadInt64(&acked), v.String())
			}
		}
	}
	return o
}

func TestPipelinedClients(t *testing.T) {
	defer stopAll()
	kit.Check(t, kit.Spec[PipeCase]{Sub: "pipe", Quick: 2, Thorough: 20, NoShrink: true,
		Gen: func(t *rapid.T) PipeCase {
			return PipeCase{Pipers: rapid.IntRange(2, 5).Draw(t, "pipers"), Batches: rapid.SampledFrom([]int{10, 30}).Draw(t, "batches"), Width: rapid.SampledFrom([]int{6, 12, 30}).Draw(t, "width"),
				Churn: rapid.IntRange(2, 6).Draw(t, "churn"), ChurnOps: rapid.SampledFrom([]int{40, 120}).Draw(t, "churnops"),
				Crowd: rapid.SampledFrom([]int{0, 70, 150}).Draw(t, "crowd"), Waves: rapid.IntRange(1, 3).Draw(t, "waves")}
		},
		Exec: execPipe})
}
