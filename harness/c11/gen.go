// Package c11 checks C11: set commands implement exact set algebra.
package c11

import (
	"strings"

	"pgregory.net/rapid"

	"verifharness/gen"
	"verifharness/kit"
	"verifharness/prog"
)


var keys = []string{"s1", "s2", "s3", "S1", "missing", "str", "vol"} // missing: never written by SADD; str: a string; vol: set with TTL
var members = []string{"", "a", "b", "c", "A", "x\r\ny"}

func key(t *rapid.T) string    { return rapid.SampledFrom(keys).Draw(t, "key") }
func setKey(t *rapid.T) string { return rapid.SampledFrom(keys[:4]).Draw(t, "skey") }
func member(t *rapid.T) string { return rapid.SampledFrom(members).Draw(t, "member") }

func genOp(t *rapid.T) kit.Cmd {
	c := func(name string, args ...string) kit.Cmd {
		return kit.MkCmd(append([]string{gen.CaseOf(t, name)}, args...)...)
	}
	manyKeys := func(lo, hi int) []string {
		n := rapid.IntRange(lo, hi).Draw(t, "nk")
		var ks []string
		for i := 0; i < n; i++ {
			ks = append(ks, key(t))
		}
		return ks
	}
	switch gen.Weighted(t, "cmd", []int{14, 7, 4, 3, 4, 6, 5, 5, 5, 5, 5, 5, 5, 5, 2}) {
	case 0:
		k := setKey(t)
		if rapid.IntRange(0, 7).Draw(t, "anyk") == 0 {
			k = key(t)
		}
		n := rapid.IntRange(1, 4).Draw(t, "n")
		args := []string{k}
		for i := 0; i < n; i++ {
			args = append(args, member(t))
		}
		return c("sadd", args...)
	case 1:
		n := rapid.IntRange(1, 3).Draw(t, "n")
		args := []string{key(t)}
		for i := 0; i < n; i++ {
			args = append(args, member(t))
		}
		return c("srem", args...)
	case 2:
		return c("sismember", key(t), member(t))
	case 3:
		return c("scard", key(t))
	case 4:
		return c("smembers", key(t))
	case 5:
		return c("smove", key(t), key(t), member(t))
	case 6:
		if rapid.Bool().Draw(t, "cnt") {
			return c("spop", key(t), gen.Pick(t, "c", "0", "1", "2", "7", "-1", "x"))
		}
		return c("spop", key(t))
	case 7:
		if rapid.Bool().Draw(t, "cnt") {
			return c("srandmember", key(t), gen.Pick(t, "c", "0", "1", "-1", "3", "-3", "8", "-8", "x"))
		}
		return c("srandmember", key(t))
	case 8:
		return c("sunion", manyKeys(1, 4)...)
	case 9:
		return c("sinter", manyKeys(1, 4)...)
	case 10:
		return c("sdiff", manyKeys(1, 4)...)
	case 11:
		return c("sunionstore", append([]string{key(t)}, manyKeys(1, 3)...)...)
	case 12:
		return c("sinterstore", append([]string{key(t)}, manyKeys(1, 3)...)...)
	case 13:
		return c("sdiffstore", append([]string{key(t)}, manyKeys(1, 3)...)...)
	default:
		name := gen.Pick(t, "an", "sadd", "srem", "sismember", "scard", "smembers", "smove", "spop", "srandmember", "sunion", "sinter", "sdiff", "sunionstore", "sinterstore", "sdiffstore")
		n := rapid.IntRange(0, 2).Draw(t, "arity")
		var args []string
		for i := 0; i < n; i++ {
			args = append(args, gen.Pick(t, "aa", "s1", "a", "1"))
		}
		return c(name, args...)
	}
}

func GenProgram(t *rapid.T) prog.Program {
	p := prog.Program{ShardNum: rapid.SampledFrom([]int{1, 2, 16}).Draw(t, "shards")}
	if rapid.IntRange(0, 3).Draw(t, "prologue") > 0 {
		p.Ops = append(p.Ops, kit.MkCmd("SET", "str", "v"), kit.MkCmd("SADD", "vol", "a", "b"), kit.MkCmd("EXPIRE", "vol", "5000"))
	}
	n := rapid.SampledFrom([]int{1, 3, 6, 12, 25, 40}).Draw(t, "len")
	for i := 0; i < n; i++ {
		p.Ops = append(p.Ops, genOp(t))
	}
	return p
}

func Opts() prog.Options {
	return prog.Options{
		SweepKeys: func(prog.Program) []string { return keys },
		NonTrivial: func(p prog.Program, st *prog.Stats) bool {
			// an algebra command with >= 2 operands, or a STORE, or an op on the "" member
			for _, op := range p.Ops {
				name := strings.ToLower(string(op[0]))
				switch name {
				case "sunion", "sinter", "sdiff":
					if len(op) >= 3 {
						return true
					}
				case "sunionstore", "sinterstore", "sdiffstore":
					if len(op) >= 3 {
						return true
					}
				case "sadd", "srem", "sismember", "smove":
					if len(op) < 3 {
						continue
					}
					for _, a := range op[2:] {
						if len(a) == 0 {
							return true
						}
					}
				}
			}
			return false
		},
	}
}

func Exec(p prog.Program) kit.Outcome {
	o, _ := prog.Run(p, Opts())
	return o
}

