// Package c13 checks C13: multi-key commands are deadlock-free and atomic.
package c13

import (
	"fmt"
	"runtime"
	"sort"
	"strconv"
	"strings"
	"sync"
	"sync/atomic"
	"testing"
	"time"

	"github.com/anishathalye/porcupine"
	"github.com/innovationb1ue/RedisGO/memdb"
	"pgregory.net/rapid"

	"verifharness/gen"
	"verifharness/inproc"
	"verifharness/kit"
	"verifharness/lin"
	"verifharness/respx"
	"verifharness/schedx"
)

func TestMain(m *testing.M) { kit.Main(m, "C13") }

// ---------------------------------------------------------------- lock-event tracking (hook H2)

func goid() int64 {
	var buf [64]byte
	n := runtime.Stack(buf[:], false)
	// "goroutine 123 [running]:"
	s := strings.TrimPrefix(string(buf[:n]), "goroutine ")
	if i := strings.IndexByte(s, ' '); i > 0 {
		id, _ := strconv.ParseInt(s[:i], 10, 64)
		return id
	}
	return -1
}

type tracker struct {
	mu        sync.Mutex
	on        bool
	owner     int64          // goroutine whose acquisitions are checked
	held      map[int]string // stripe -> kind held by owner
	violation string
	acquired  int
	maxHeld   int
}

var tr tracker

func init() {
	memdb.VerifLockHook = func(kind string, stripe int) {
		if atomic.LoadInt32(&stressMode) == 1 {
			// concurrent sub-checks: optionally hand the processor over at lock events (the instants right
			// after a lock is released are where a command that still has work to do is most exposed)
			if y := atomic.LoadInt64(&yieldEvery); y > 0 && atomic.AddInt64(&yieldCount, 1)%y == 0 {
				runtime.Gosched()
			}
			return
		}
		tr.mu.Lock()
		defer tr.mu.Unlock()
		if !tr.on || goid() != tr.owner {
			return
		}
		switch kind {
		case "lock", "rlock":
			if k, already := tr.held[stripe]; already {
				tr.violation = fmt.Sprintf("acquires stripe %d (%s) while already holding it (%s): self-deadlock with any waiting writer", stripe, kind, k)
				panic("c13: lock discipline violated: " + tr.violation)
			}
			max := -1
			for s := range tr.held {
				if s > max {
					max = s
				}
			}
			if max > stripe {
				tr.violation = fmt.Sprintf("acquires stripe %d (%s) while holding the higher stripe %d: lock-order inversion (deadlock potential)", stripe, kind, max)
				panic("c13: lock discipline violated: " + tr.violation)
			}
			tr.held[stripe] = kind
			tr.acquired++
			if len(tr.held) > tr.maxHeld {
				tr.maxHeld = len(tr.held)
			}
		case "unlock", "runlock":
			if _, ok := tr.held[stripe]; !ok {
				tr.violation = fmt.Sprintf("releases stripe %d (%s) which it does not hold", stripe, kind)
				panic("c13: lock discipline violated: " + tr.violation)
			}
			delete(tr.held, stripe)
		}
	}
}

var stressMode int32
var yieldEvery, yieldCount int64

// ---------------------------------------------------------------- oracle 1: lock order, single-threaded

type OrderCase struct {
	ShardNum int       `json:"shard_num"`
	Expired  bool      `json:"expired"` // run against keys whose deadline has just passed (CheckTTL takes locks)
	Cmds     []kit.Cmd `json:"cmds"`
}

var pool = []string{"a", "b", "c", "d", "e", "f", "g", "h", "l1", "l2", "s1", "s2"}

func key(t *rapid.T) string { return rapid.SampledFrom(pool).Draw(t, "key") }

func genMulti(t *rapid.T) kit.Cmd {
	ks := func(lo, hi int) []string {
		n := rapid.IntRange(lo, hi).Draw(t, "nk")
		out := make([]string, n)
		for i := range out {
			out[i] = key(t)
		}
		if n >= 2 && rapid.IntRange(0, 3).Draw(t, "repeat") == 0 {
			out[n-1] = out[0] // repeated key
		}
		return out
	}
	switch rapid.IntRange(0, 18).Draw(t, "cmd") {
	case 16, 17, 18:
		// every other command that takes a key lock (a command that takes the lock it already holds locks
		// itself out as soon as a writer waits in between: reported here without needing that writer)
		tpl := rapid.SampledFrom(singleKeyForms).Draw(t, "form")
		args := make([]string, len(tpl))
		for i, a := range tpl {
			if a == "K" {
				a = key(t)
			}
			args[i] = a
		}
		return kit.MkCmd(args...)
	case 0:
		var args []string
		for _, k := range ks(1, 4) {
			args = append(args, k, "v")
		}
		return kit.MkCmd(append([]string{"MSET"}, args...)...)
	case 1:
		return kit.MkCmd("RENAME", key(t), key(t))
	case 2:
		return kit.MkCmd("LMOVE", key(t), key(t), gen.Pick(t, "d1", "LEFT", "RIGHT"), gen.Pick(t, "d2", "LEFT", "RIGHT"))
	case 3:
		return kit.MkCmd("SMOVE", key(t), key(t), "m")
	case 4:
		return kit.MkCmd(append([]string{gen.Pick(t, "alg", "SUNION", "SINTER", "SDIFF")}, ks(1, 4)...)...)
	case 5:
		return kit.MkCmd(append([]string{gen.Pick(t, "algs", "SUNIONSTORE", "SINTERSTORE", "SDIFFSTORE"), key(t)}, ks(1, 3)...)...)
	case 6:
		return kit.MkCmd(append([]string{"DEL"}, ks(1, 4)...)...)
	case 7:
		return kit.MkCmd(append([]string{"EXISTS"}, ks(1, 4)...)...)
	case 8:
		return kit.MkCmd(append([]string{"MGET"}, ks(1, 4)...)...)
	case 9:
		return kit.MkCmd("KEYS", "*")
	case 10: // seed values of the types the multi-key commands need
		return kit.MkCmd("RPUSH", key(t), "x", "y")
	case 11:
		return kit.MkCmd("SADD", key(t), "m", "n")
	case 12:
		return kit.MkCmd("SET", key(t), "v")
	case 13:
		return kit.MkCmd("EXPIRE", key(t), "100")
	case 14:
		return kit.MkCmd(gen.Pick(t, "single", "GET", "LLEN", "SCARD", "TYPE", "TTL", "PERSIST", "LPOP", "SPOP", "INCR", "HGETALL", "ZRANGE"), key(t), "0", "-1")[:2]
	default:
		// blocking pop over several keys; one of them ("blk") holds an element so that it returns at the
		// first poll - after the keys named before it were visited and found without one: kept rare
		if rapid.IntRange(0, 5).Draw(t, "blpop") == 0 {
			ks := []string{key(t), key(t), key(t)}
			ks[rapid.IntRange(0, 2).Draw(t, "blkpos")] = "blk"
			if rapid.IntRange(0, 3).Draw(t, "blkrep") == 0 {
				ks[0] = ks[1] // a key named twice before the one that serves
			}
			return kit.MkCmd(gen.Pick(t, "bpop", "BLPOP", "BRPOP"), ks[0], ks[1], ks[2], "1")
		}
		return kit.MkCmd("LMOVE", key(t), key(t), "RIGHT", "LEFT")
	}
}

var singleKeyForms = [][]string{
	{"HSET", "K", "f", "v"}, {"HSET", "K", "f", "v", "g", "w"}, {"HGET", "K", "f"}, {"HMGET", "K", "f", "g", "h"}, {"HDEL", "K", "f", "g"},
	{"HINCRBY", "K", "n", "1"}, {"HINCRBYFLOAT", "K", "n", "0.5"}, {"HKEYS", "K"}, {"HVALS", "K"}, {"HLEN", "K"}, {"HEXISTS", "K", "f"},
	{"HSTRLEN", "K", "f"}, {"HSETNX", "K", "f", "v"}, {"HRANDFIELD", "K", "2", "WITHVALUES"}, {"HGETALL", "K"},
	{"ZADD", "K", "1", "m", "2", "n"}, {"ZADD", "K", "INCR", "1", "m"}, {"ZREM", "K", "m", "n"}, {"ZRANK", "K", "m"}, {"ZRANGE", "K", "0", "-1", "WITHSCORES"},
	{"XADD", "K", "*", "f", "v"}, {"XADD", "K", "MAXLEN", "1", "*", "f", "v"}, {"XRANGE", "K", "-", "+"},
	{"LINDEX", "K", "0"}, {"LRANGE", "K", "0", "-1"}, {"LSET", "K", "0", "v"}, {"LREM", "K", "0", "x"}, {"LTRIM", "K", "0", "0"}, {"LPOS", "K", "x"},
	{"LPUSHX", "K", "v"}, {"RPUSHX", "K", "v"}, {"LPUSH", "K", "a", "b"}, {"RPOP", "K"}, {"LPOP", "K", "2"},
	{"SETEX", "K", "100", "v"}, {"SETNX", "K", "v"}, {"SET", "K", "v", "KEEPTTL"}, {"SET", "K", "v", "EX", "100", "GET"}, {"GETRANGE", "K", "0", "-1"},
	{"SETRANGE", "K", "1", "v"}, {"STRLEN", "K"}, {"APPEND", "K", "v"}, {"INCRBY", "K", "2"}, {"DECR", "K"}, {"DECRBY", "K", "2"}, {"INCRBYFLOAT", "K", "0.5"},
	{"SISMEMBER", "K", "m"}, {"SREM", "K", "m"}, {"SRANDMEMBER", "K", "2"}, {"SMEMBERS", "K"}, {"SPOP", "K", "1"}, {"SSCAN", "K", "0"},
	{"EXPIRE", "K", "100", "NX"}, {"EXPIRE", "K", "100", "GT"}, {"TTL", "K"}, {"PERSIST", "K"}, {"TYPE", "K"},
}

func genOrder(t *rapid.T) OrderCase {
	c := OrderCase{ShardNum: rapid.SampledFrom([]int{1, 2, 8}).Draw(t, "shards"), Expired: rapid.IntRange(0, 7).Draw(t, "expired") == 0}
	n := rapid.SampledFrom([]int{10, 40, 120}).Draw(t, "n")
	for i := 0; i < n; i++ {
		c.Cmds = append(c.Cmds, genMulti(t))
	}
	return c
}

func execOrder(c OrderCase) kit.Outcome {
	db := inproc.New(c.ShardNum, 0)
	o := kit.Outcome{Labels: []string{fmt.Sprintf("stripes:%d", 2*c.ShardNum)}}
	do := func(cmd kit.Cmd) inproc.Result { return db.Do(cmd.Bytes()) }
	if c.Expired {
		// arm every pool key late in a second with a 1 s TTL and cross the second boundary: for the next
		// ~0.8 s the deadline has passed but the timer has not fired, so every CheckTTL takes the key lock
		now := time.Now()
		next := now.Truncate(time.Second).Add(900 * time.Millisecond)
		if next.Before(now) {
			next = next.Add(time.Second)
		}
		time.Sleep(time.Until(next))
		for i, k := range pool {
			switch i % 3 {
			case 0:
				do(kit.MkCmd("SET", k, "v", "EX", "1"))
			case 1:
				do(kit.MkCmd("RPUSH", k, "x", "y"))
				do(kit.MkCmd("EXPIRE", k, "1"))
			default:
				do(kit.MkCmd("SADD", k, "m", "n"))
				do(kit.MkCmd("EXPIRE", k, "1"))
			}
		}
		time.Sleep(time.Until(next.Add(130 * time.Millisecond)))
		o.Labels = append(o.Labels, "expired-keys")
	}
	for i, cmd := range c.Cmds {
		if strings.EqualFold(string(cmd[0]), "BLPOP") || strings.EqualFold(string(cmd[0]), "BRPOP") {
			// the keys named before "blk" must be without an element, or the pop never gets that far
			for _, k := range cmd[1 : len(cmd)-1] {
				if string(k) != "blk" {
					do(kit.MkCmd("DEL", string(k)))
				}
			}
			do(kit.MkCmd("RPUSH", "blk", "e"))
		}
		tr.mu.Lock()
		tr.on, tr.owner, tr.held, tr.violation = true, goid(), map[int]string{}, ""
		tr.mu.Unlock()
		res := do(cmd)
		tr.mu.Lock()
		tr.on = false
		viol, leaked := tr.violation, len(tr.held)
		if tr.maxHeld >= 2 {
			o.NonTrivial = true
		}
		tr.maxHeld = 0
		tr.mu.Unlock()
		if viol != "" {
			o.Fail = fmt.Sprintf("command %d %s (%d stripes): %s", i, cmd.String(), 2*c.ShardNum, viol)
			return o
		}
		if res.Panic != "" {
			o.Fail = fmt.Sprintf("command %d %s panicked: %.300s", i, cmd.String(), res.Panic)
			return o
		}
		if leaked != 0 {
			o.Fail = fmt.Sprintf("command %d %s returned while still holding %d stripe lock(s)", i, cmd.String(), leaked)
			return o
		}
	}
	return o
}

func TestLockOrder(t *testing.T) {
	kit.Check(t, kit.Spec[OrderCase]{Sub: "order", Quick: 120, Thorough: 4000, Gen: genOrder, Exec: execOrder})
}

// ---------------------------------------------------------------- oracle 2: stress with watchdog

type StressCase struct {
	ShardNum int         `json:"shard_num"`
	Workers  [][]kit.Cmd `json:"workers"`
}

func genStress(t *rapid.T) StressCase {
	c := StressCase{ShardNum: rapid.SampledFrom([]int{1, 2, 8}).Draw(t, "shards")}
	nw := rapid.IntRange(4, 16).Draw(t, "workers")
	per := rapid.SampledFrom([]int{20, 80, 250}).Draw(t, "per")
	for w := 0; w < nw; w++ {
		var cmds []kit.Cmd
		for i := 0; i < per; i++ {
			cmd := genMulti(t)
			if strings.EqualFold(string(cmd[0]), "BLPOP") {
				cmd = kit.MkCmd("LPUSH", key(t), "x")
			}
			cmds = append(cmds, cmd)
		}
		c.Workers = append(c.Workers, cmds)
	}
	return c
}

func execStress(c StressCase) kit.Outcome {
	atomic.StoreInt32(&stressMode, 1)
	defer atomic.StoreInt32(&stressMode, 0)
	db := inproc.New(c.ShardNum, 0)
	var wg sync.WaitGroup
	var panics atomic.Value
	start := make(chan struct{})
	var doneOps int64
	for _, w := range c.Workers {
		wg.Add(1)
		go func(cmds []kit.Cmd) {
			defer wg.Done()
			<-start
			for _, cmd := range cmds {
				if r := db.Do(cmd.Bytes()); r.Panic != "" {
					panics.Store(fmt.Sprintf("%s panicked: %.300s", cmd.String(), r.Panic))
					return
				}
				atomic.AddInt64(&doneOps, 1)
			}
		}(w)
	}
	close(start)
	done := make(chan struct{})
	go func() { wg.Wait(); close(done) }()
	o := kit.Outcome{NonTrivial: len(c.Workers) >= 2}
	select {
	case <-done:
	case <-time.After(15 * time.Second):
		buf := make([]byte, 4<<20)
		n := runtime.Stack(buf, true)
		dump := string(buf[:n])
		parked := strings.Count(dump, "sync.(*RWMutex).Lock") + strings.Count(dump, "sync.(*RWMutex).RLock")
		if p, _ := panics.Load().(string); p != "" {
			o.Fail = "a worker panicked inside a locked region and the others are wedged behind its lock: " + p
			return o
		}
		if parked > 0 {
			o.Fail = fmt.Sprintf("deadlock: after 15 s %d of %d operations are done and %d goroutines are parked in RWMutex.Lock/RLock", atomic.LoadInt64(&doneOps), totalOps(c), parked)
			return o
		}
		o.Inconclusive = true
		return o
	}
	if p, _ := panics.Load().(string); p != "" {
		o.Fail = p
	}
	return o
}

func totalOps(c StressCase) int {
	n := 0
	for _, w := range c.Workers {
		n += len(w)
	}
	return n
}

func TestStress(t *testing.T) {
	kit.Check(t, kit.Spec[StressCase]{Sub: "stress", Quick: 40, Thorough: 1200, Gen: genStress, Exec: execStress, TrackCase: true})
}

// ---------------------------------------------------------------- oracle 3: atomicity (joint linearizability)

type AtomCase struct {
	ShardNum int         `json:"shard_num"`
	Yield    int         `json:"yield,omitempty"` // n > 0: the processor is handed over at every n-th lock event
	Clients  [][]kit.Cmd `json:"clients"`
}

func genAtom(t *rapid.T) AtomCase {
	c := AtomCase{ShardNum: rapid.SampledFrom([]int{1, 2, 8}).Draw(t, "shards"), Yield: rapid.SampledFrom([]int{0, 0, 1, 2, 3}).Draw(t, "yield")}
	family := gen.Pick(t, "family", "mset", "rename", "lmove", "smove")
	nc := rapid.IntRange(2, 5).Draw(t, "clients")
	per := rapid.SampledFrom([]int{4, 8, 14}).Draw(t, "per")
	for ci := 0; ci < nc; ci++ {
		var cmds []kit.Cmd
		for i := 0; i < per; i++ {
			tag := fmt.Sprintf("c%d-%d", ci, i)
			switch family {
			case "mset":
				if rapid.Bool().Draw(t, "w") {
					cmds = append(cmds, kit.MkCmd("MSET", "a", tag, "b", tag, "c", tag))
				} else {
					cmds = append(cmds, kit.MkCmd("GET", gen.Pick(t, "rk", "a", "b", "c")))
				}
			case "rename":
				if rapid.IntRange(0, 5).Draw(t, "ex") == 0 {
					// a key that exists before and after a RENAME onto it exists at every moment in between
					cmds = append(cmds, kit.MkCmd("EXISTS", gen.Pick(t, "ek", "a", "b")))
					break
				}
				switch rapid.IntRange(0, 4).Draw(t, "op") {
				case 0:
					if rapid.IntRange(0, 5).Draw(t, "same") == 0 {
						cmds = append(cmds, kit.MkCmd("RENAME", "a", "a"))
						break
					}
					cmds = append(cmds, kit.MkCmd("RENAME", "a", "b"))
				case 1:
					cmds = append(cmds, kit.MkCmd("RENAME", "b", "a"))
				case 2:
					cmds = append(cmds, kit.MkCmd("SET", gen.Pick(t, "sk", "a", "b"), tag))
				default:
					cmds = append(cmds, kit.MkCmd("GET", gen.Pick(t, "gk", "a", "b")))
				}
			case "lmove":
				if z := rapid.IntRange(0, 399).Draw(t, "blk"); z == 137 || z == 263 { // (interior values: the generator favours the ends of a range)
					// a pop that waits (it polls: looks, then takes) next to commands that move the whole list
					cmds = append(cmds, kit.MkCmd(gen.Pick(t, "bp", "BLPOP", "BRPOP"), gen.Pick(t, "bk", "l1", "l2"), "1"))
					break
				} else if z >= 300 && z < 330 {
					cmds = append(cmds, kit.MkCmd("RENAME", gen.Pick(t, "rs", "l1", "l2"), gen.Pick(t, "rd", "l1", "l2")))
					break
				}
				switch rapid.IntRange(0, 5).Draw(t, "op") {
				case 0, 1:
					src := gen.Pick(t, "src", "l1", "l2")
					dst := map[string]string{"l1": "l2", "l2": "l1"}[src]
					if rapid.IntRange(0, 5).Draw(t, "same") == 0 {
						dst = src // rotation of one list
					}
					cmds = append(cmds, kit.MkCmd("LMOVE", src, dst, gen.Pick(t, "d1", "LEFT", "RIGHT"), gen.Pick(t, "d2", "LEFT", "RIGHT")))
				case 2:
					cmds = append(cmds, kit.MkCmd("LPUSH", gen.Pick(t, "pk", "l1", "l2"), tag))
				case 3:
					cmds = append(cmds, kit.MkCmd("RPOP", gen.Pick(t, "pk", "l1", "l2")))
				case 4:
					cmds = append(cmds, kit.MkCmd("LRANGE", gen.Pick(t, "rk", "l1", "l2"), "0", "-1"))
				default:
					cmds = append(cmds, kit.MkCmd("LLEN", gen.Pick(t, "rk", "l1", "l2")))
				}
			default:
				m := gen.Pick(t, "m", "x", "y")
				switch rapid.IntRange(0, 5).Draw(t, "op") {
				case 0, 1:
					src := gen.Pick(t, "src", "s1", "s2")
					dst := map[string]string{"s1": "s2", "s2": "s1"}[src]
					if rapid.IntRange(0, 5).Draw(t, "same") == 0 {
						dst = src
					}
					cmds = append(cmds, kit.MkCmd("SMOVE", src, dst, m))
				case 2:
					cmds = append(cmds, kit.MkCmd("SADD", gen.Pick(t, "ak", "s1", "s2"), m))
				case 3:
					cmds = append(cmds, kit.MkCmd("SREM", gen.Pick(t, "ak", "s1", "s2"), m))
				case 4:
					cmds = append(cmds, kit.MkCmd("SISMEMBER", gen.Pick(t, "ak", "s1", "s2"), m))
				default:
					cmds = append(cmds, kit.MkCmd("SCARD", gen.Pick(t, "ak", "s1", "s2")))
				}
			}
		}
		c.Clients = append(c.Clients, cmds)
	}
	return c
}

func execAtom(c AtomCase) kit.Outcome {
	atomic.StoreInt32(&stressMode, 1)
	defer atomic.StoreInt32(&stressMode, 0)
	atomic.StoreInt64(&yieldEvery, int64(c.Yield))
	defer atomic.StoreInt64(&yieldEvery, 0)
	db := inproc.New(c.ShardNum, 0)
	var mu sync.Mutex
	var hist []porcupine.Operation
	var wg sync.WaitGroup
	start := make(chan struct{})
	t0 := time.Now()
	var bad atomic.Value
	for ci, cmds := range c.Clients {
		wg.Add(1)
		go func(ci int, cmds []kit.Cmd) {
			defer wg.Done()
			<-start
			for _, cmd := range cmds {
				call := time.Since(t0).Nanoseconds()
				r := db.Do(cmd.Bytes())
				ret := time.Since(t0).Nanoseconds()
				if r.Panic != "" || r.DecErr != nil {
					bad.Store(fmt.Sprintf("%s: panic/malformed: %.200s %q", cmd.String(), r.Panic, r.Raw))
					return
				}
				mu.Lock()
				hist = append(hist, porcupine.Operation{ClientId: ci, Input: lin.In{Cmd: cmd, Part: "joint"}, Call: call, Output: lin.Out{Val: r.Val}, Return: ret})
				mu.Unlock()
			}
		}(ci, cmds)
	}
	close(start)
	done := make(chan struct{})
	go func() { wg.Wait(); close(done) }()
	o := kit.Outcome{}
	select {
	case <-done:
	case <-time.After(15 * time.Second):
		o.Fail = "clients did not finish within 15 s: executors are wedged on a lock"
		return o
	}
	if b, _ := bad.Load().(string); b != "" {
		o.Fail = b
		return o
	}
	// final joint read by one client, after everything
	fin := []kit.Cmd{kit.MkCmd("GET", "a"), kit.MkCmd("GET", "b"), kit.MkCmd("GET", "c"), kit.MkCmd("LRANGE", "l1", "0", "-1"), kit.MkCmd("LRANGE", "l2", "0", "-1"),
		kit.MkCmd("TYPE", "l1"), kit.MkCmd("TYPE", "l2"), kit.MkCmd("TYPE", "l3"), kit.MkCmd("EXISTS", "l1", "l2", "l3"),
		kit.MkCmd("SMEMBERS", "s1"), kit.MkCmd("SMEMBERS", "s2")}
	multi := 0
	for _, cl := range c.Clients {
		for _, cmd := range cl {
			switch strings.ToUpper(string(cmd[0])) {
			case "MSET", "RENAME", "LMOVE", "SMOVE":
				multi++
			}
		}
	}
	o.NonTrivial = multi >= 2 && len(c.Clients) >= 2
	for i, cmd := range fin {
		r := db.Do(cmd.Bytes())
		if r.Panic != "" || r.DecErr != nil {
			continue // wrong-typed final reads simply error; they still take part below if well-formed
		}
		hist = append(hist, porcupine.Operation{ClientId: len(c.Clients), Input: lin.In{Cmd: cmd, Part: "joint"}, Call: 1<<60 + int64(2*i), Output: lin.Out{Val: r.Val}, Return: 1<<60 + int64(2*i+1)})
	}
	switch lin.Check(hist, 10*time.Second) {
	case porcupine.Illegal:
		sort.Slice(hist, func(i, j int) bool { return hist[i].Call < hist[j].Call })
		o.Fail = fmt.Sprintf("the joint history over the keys is not linearizable: a multi-key command was observed half-applied, or an element/value was lost or duplicated:%s", lin.Describe(hist, 80))
	case porcupine.Unknown:
		o.Inconclusive = true
	}
	if err := db.CheckAll(); err != nil && o.Fail == "" {
		o.Fail = "structural self-check at quiescence: " + err.Error()
	}
	return o
}

var _ respx.Value

func TestAtomicity(t *testing.T) {
	kit.Check(t, kit.Spec[AtomCase]{Sub: "atom", Quick: 250, Thorough: 6000, Gen: genAtom, Exec: execAtom, TrackCase: true})
}

func TestReplay(t *testing.T) {
	rep := func(exec func(AtomCase) kit.Outcome) func(AtomCase) kit.Outcome {
		return func(c AtomCase) kit.Outcome {
			var o kit.Outcome
			for i := 0; i < 30; i++ {
				if o = exec(c); o.Fail != "" {
					return o
				}
			}
			return o
		}
	}
	repS := func(c StressCase) kit.Outcome {
		var o kit.Outcome
		for i := 0; i < 10; i++ {
			if o = execStress(c); o.Fail != "" {
				return o
			}
		}
		return o
	}
	kit.Replay[OrderCase](t, map[string]func(kit.RawCase) kit.Outcome{"order": kit.ReplaySub(execOrder), "stress": kit.ReplaySub(repS), "atom": kit.ReplaySub(rep(execAtom)), "wide": kit.ReplaySub(execWide), "sched": kit.ReplaySub(schedx.Exec)})
}
