package c13

import (
	"testing"

	"verifharness/kit"
	"verifharness/schedx"
)

// oracle 4: harness-owned schedules (package schedx): a command suspended before its k-th lock event while
// another runs, serial-equivalence oracle.

func init() { schedx.Install() } // (after the init of c13_test.go, which sets the package's own hook)

// TestSchedulesFast: many cheap cases (a case costs about a millisecond unless the command run meanwhile has
// to wait for the suspended one): mostly single-key commands suspended, no waiting pops, no keys past their deadline.
func TestSchedulesFast(t *testing.T) {
	kit.Check(t, kit.Spec[schedx.Case]{Sub: "sched", Quick: 8000, Thorough: 40000, Gen: schedx.Gen(schedx.Profile{Fast: true}), Exec: schedx.Exec, TrackCase: true})
}

func TestSchedules(t *testing.T) {
	kit.Check(t, kit.Spec[schedx.Case]{Sub: "sched", Quick: 200, Thorough: 2500, Gen: schedx.Gen(schedx.Profile{}), Exec: schedx.Exec, TrackCase: true})
}
