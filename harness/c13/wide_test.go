package c13

import (
	"fmt"
	"sync"
	"testing"

	"pgregory.net/rapid"

	"verifharness/inproc"
	"verifharness/kit"
)

// ---------------------------------------------------------------- wide multi-key writes

// WideCase: Writers clients overwrite the same Width keys with one MSET each, all released together,
// Rounds times; each MSET writes its own tag into every key. An atomic MSET is applied to all of its keys
// or (not yet) to none, so at quiescence every key carries the tag of the one writer that came last: a
// mixture of tags means some MSET was applied to only part of its keys. The width ranges from a handful
// to several hundred keys (whatever an implementation does per key, per stripe or per chunk of keys).
type WideCase struct {
	ShardNum int `json:"shard_num"`
	Width    int `json:"width"`
	Writers  int `json:"writers"`
	Rounds   int `json:"rounds"`
	Shuffle  int `json:"shuffle"` // writer i lists the keys rotated by i*Shuffle
}

func execWide(c WideCase) kit.Outcome {
	db := inproc.New(c.ShardNum, 0)
	o := kit.Outcome{NonTrivial: c.Writers >= 2 && c.Width >= 2, Labels: []string{fmt.Sprintf("mset-width:%d", c.Width)}}
	keys := make([]string, c.Width)
	for i := range keys {
		keys[i] = fmt.Sprintf("w%03d", i)
	}
	for r := 0; r < c.Rounds; r++ {
		start := make(chan struct{})
		var wg sync.WaitGroup
		fails := make(chan string, c.Writers)
		for w := 0; w < c.Writers; w++ {
			wg.Add(1)
			go func(w int) {
				defer wg.Done()
				tag := []byte(fmt.Sprintf("r%d-w%d", r, w))
				args := [][]byte{[]byte("MSET")}
				for i := range keys {
					args = append(args, []byte(keys[(i+w*c.Shuffle)%len(keys)]), tag)
				}
				<-start
				res := db.Do(args)
				if res.Panic != "" {
					fails <- "MSET panicked: " + res.Panic
				} else if res.DecErr != nil || res.Val.Kind == '-' {
					fails <- fmt.Sprintf("MSET of %d pairs: %s", c.Width, res.Val.String())
				}
			}(w)
		}
		close(start)
		wg.Wait()
		select {
		case f := <-fails:
			o.Fail = f
			return o
		default:
		}
		tags := map[string]int{}
		first := ""
		for _, k := range keys {
			res := db.Do([][]byte{[]byte("GET"), []byte(k)})
			if res.Panic != "" || res.DecErr != nil {
				o.Fail = "GET after the round failed"
				return o
			}
			tags[string(res.Val.Str)]++
			if first == "" {
				first = string(res.Val.Str)
			}
		}
		if len(tags) != 1 {
			o.Fail = fmt.Sprintf("round %d: %d clients each overwrote the same %d keys with one MSET; afterwards the keys carry a mixture of their values %v: an MSET was applied to only some of its keys", r, c.Writers, c.Width, tags)
			return o
		}
	}
	return o
}

func TestWideMSET(t *testing.T) {
	kit.Check(t, kit.Spec[WideCase]{Sub: "wide", Quick: 12, Thorough: 300,
		Gen: func(t *rapid.T) WideCase {
			return WideCase{ShardNum: rapid.SampledFrom([]int{1, 16, 1024}).Draw(t, "shards"), Width: rapid.SampledFrom([]int{2, 8, 33, 64, 65, 100, 129, 300, 700}).Draw(t, "width"),
				Writers: rapid.IntRange(2, 4).Draw(t, "writers"), Rounds: rapid.SampledFrom([]int{50, 200}).Draw(t, "rounds"), Shuffle: rapid.SampledFrom([]int{0, 1, 7}).Draw(t, "shuffle")}
		},
		Exec: execWide})
}
