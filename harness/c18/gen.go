// Package c18 checks C18: stream IDs are strictly increasing and XRANGE returns what was added.
package c18

import (
	"strings"

	"pgregory.net/rapid"

	"verifharness/gen"
	"verifharness/inproc"
	"verifharness/kit"
	"verifharness/prog"
)


var keys = []string{"x1", "X1", "str"}
var msVals = []string{"0", "1", "5", "5", "6", "7", "9223372036854775807"}
var seqVals = []string{"0", "1", "2", "3", "9223372036854775807"}

func key(t *rapid.T) string {
	if rapid.IntRange(0, 11).Draw(t, "kk") == 0 {
		return rapid.SampledFrom(keys).Draw(t, "key")
	}
	return rapid.SampledFrom(keys[:2]).Draw(t, "xkey")
}

func id(t *rapid.T) string {
	switch rapid.IntRange(0, 12).Draw(t, "idkind") {
	case 12:
		// the same IDs in other spellings: leading zeros, a plus sign
		sp := func(v string) string {
			return gen.Pick(t, "spell", "", "0", "00", "+") + v
		}
		return sp(rapid.SampledFrom(msVals[:6]).Draw(t, "ms")) + "-" + sp(rapid.SampledFrom(seqVals[:4]).Draw(t, "seq"))
	case 0, 1:
		return "*"
	case 2:
		return rapid.SampledFrom(msVals).Draw(t, "ms") + "-*"
	case 3:
		return gen.Pick(t, "badid", "abc", "", "1-2-3", "-1-1", "1-", "-", "1-x", "5")
	}
	return rapid.SampledFrom(msVals).Draw(t, "ms") + "-" + rapid.SampledFrom(seqVals).Draw(t, "seq")
}

func bound(t *rapid.T, start bool) string {
	switch rapid.IntRange(0, 7).Draw(t, "bk") {
	case 0, 1:
		if start {
			return "-"
		}
		return "+"
	case 2:
		return rapid.SampledFrom(msVals).Draw(t, "bms")
	case 3:
		return gen.Pick(t, "badbound", "x", "", "1-2-3", "+", "-")
	}
	return rapid.SampledFrom(msVals).Draw(t, "bms") + "-" + rapid.SampledFrom(seqVals).Draw(t, "bseq")
}

func genOp(t *rapid.T) kit.Cmd {
	c := func(name string, args ...string) kit.Cmd {
		return kit.MkCmd(append([]string{gen.CaseOf(t, name)}, args...)...)
	}
	switch gen.Weighted(t, "cmd", []int{14, 8, 1}) {
	case 0:
		args := []string{key(t)}
		if rapid.IntRange(0, 5).Draw(t, "nomk") == 0 {
			args = append(args, gen.CaseOf(t, "nomkstream"))
		}
		switch rapid.IntRange(0, 7).Draw(t, "trim") {
		case 0:
			args = append(args, gen.CaseOf(t, "maxlen"))
			if rapid.Bool().Draw(t, "eq") {
				args = append(args, "=")
			}
			args = append(args, gen.Pick(t, "ml", "0", "1", "2", "3", "10", "-1", "x"))
		case 1:
			args = append(args, gen.CaseOf(t, "minid"))
			if rapid.Bool().Draw(t, "eq") {
				args = append(args, "=")
			}
			if rapid.Bool().Draw(t, "fullid") {
				args = append(args, rapid.SampledFrom(msVals).Draw(t, "mms")+"-"+rapid.SampledFrom(seqVals).Draw(t, "mseq"))
			} else {
				args = append(args, rapid.SampledFrom(msVals).Draw(t, "mms"))
			}
		case 2:
			if rapid.IntRange(0, 3).Draw(t, "approx") == 0 {
				args = append(args, "maxlen", "~", "2")
			}
		}
		args = append(args, id(t))
		n := rapid.IntRange(1, 3).Draw(t, "pairs")
		for i := 0; i < n; i++ {
			args = append(args, gen.Value(t, "f"), gen.Value(t, "v"))
		}
		if rapid.IntRange(0, 14).Draw(t, "odd") == 0 {
			args = args[:len(args)-1]
		}
		return c("xadd", args...)
	case 1:
		return c("xrange", key(t), bound(t, true), bound(t, false))
	default:
		name := gen.Pick(t, "an", "xadd", "xrange")
		n := rapid.IntRange(0, 4).Draw(t, "arity")
		var args []string
		for i := 0; i < n; i++ {
			args = append(args, gen.Pick(t, "aa", "x1", "1-1", "maxlen", "minid", "~", "*", "nomkstream", "limit", "f"))
		}
		return c(name, args...)
	}
}

func GenProgram(t *rapid.T) prog.Program {
	p := prog.Program{ShardNum: rapid.SampledFrom([]int{1, 16}).Draw(t, "shards")}
	if rapid.IntRange(0, 2).Draw(t, "prologue") > 0 {
		p.Ops = append(p.Ops, kit.MkCmd("SET", "str", "v"))
	}
	n := rapid.SampledFrom([]int{1, 3, 6, 12, 25, 40}).Draw(t, "len")
	for i := 0; i < n; i++ {
		p.Ops = append(p.Ops, genOp(t))
	}
	return p
}

func Opts() prog.Options {
	return prog.Options{
		SweepKeys: func(prog.Program) []string { return keys },
		Check:     func(db *inproc.DB, keys []string) error { return db.CheckAll() },
		NonTrivial: func(p prog.Program, st *prog.Stats) bool {
			// >= 2 XADDs on one key followed by a bounded XRANGE, or a trim option used
			adds := map[string]int{}
			for _, op := range p.Ops {
				if len(op) < 2 {
					continue
				}
				switch strings.ToLower(string(op[0])) {
				case "xadd":
					adds[string(op[1])]++
					for _, a := range op[2:] {
						if l := strings.ToLower(string(a)); l == "maxlen" || l == "minid" {
							return true
						}
					}
				case "xrange":
					if adds[string(op[1])] >= 2 && len(op) >= 4 && (string(op[2]) != "-" || string(op[3]) != "+") {
						return true
					}
				}
			}
			return false
		},
	}
}

func Exec(p prog.Program) kit.Outcome {
	o, _ := prog.Run(p, Opts())
	return o
}

