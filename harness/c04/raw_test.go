package c04

import (
	"encoding/json"
	"fmt"
	"strings"
	"testing"
	"time"

	"pgregory.net/rapid"

	"verifharness/kit"
	"verifharness/respx"
	"verifharness/srv"
)

// ---------------------------------------------------------------- protocol-level inputs

// RawCase: bytes written to a connection as they are - frames that are well-formed RESP but are not a
// command (empty array, null array, null bulk, integers, nested arrays, an empty command name), inline
// commands, and malformed frames. The server may answer, ignore or close that connection; it must stay up
// and keep serving everybody else.
type RawCase struct {
	Frames []kit.B `json:"frames"`
}

func rawFrames() []string {
	var out []string
	for _, n := range []string{"-2", "-1", "0", "1", "2", "00", "+1", "", "x", "9223372036854775807", "-9223372036854775808", "99999999999999999999"} {
		out = append(out, "*"+n+"\r\n", "$"+n+"\r\n", ":"+n+"\r\n")
		out = append(out, "*1\r\n$"+n+"\r\n", "*1\r\n*"+n+"\r\n", "*2\r\n$4\r\nPING\r\n$"+n+"\r\n", "*"+n+"\r\n$4\r\nPING\r\n")
	}
	out = append(out, "\r\n", "\n", "\r", " \r\n", "+OK\r\n", "-ERR x\r\n", "+\r\n", "-\r\n", ":\r\n", "*\r\n", "$\r\n",
		"*1\r\n$0\r\n\r\n", "*2\r\n$0\r\n\r\n$0\r\n\r\n", "*1\r\n:1\r\n", "*1\r\n+PING\r\n", "*1\r\n*1\r\n$4\r\nPING\r\n", "*1\r\n$4\r\nPING",
		"PING\r\n", "PING\n", "GET\r\n", "SET k v\r\n", " \r\n", "\x00\r\n", "*1\r\n$4\r\nPI\r\nG\r\n", "*1\r\n$4\r\nPINGX\r\n", "*1\r\n$3\r\nPING\r\n",
		"%1\r\n+a\r\n+b\r\n", "~1\r\n+a\r\n", "_\r\n", "#t\r\n", ",1.5\r\n", "(1\r\n", "!3\r\nerr\r\n", "=3\r\ntxt\r\n", ">1\r\n+a\r\n", "|1\r\n+a\r\n+b\r\n")
	return out
}

func execRaw(c RawCase) kit.Outcome {
	if err := ensureServer(); err != nil {
		return kit.Outcome{Fail: "infrastructure: " + err.Error()}
	}
	o := kit.Outcome{NonTrivial: true}
	conn, err := server.Dial()
	if err != nil {
		return kit.Outcome{Fail: "infrastructure: " + err.Error()}
	}
	var wire []byte
	for _, f := range c.Frames {
		wire = append(wire, f...)
	}
	wire = append(wire, respx.EncodeCommand([][]byte{[]byte("PING")})...)
	_ = conn.Write(wire, 2*time.Second)
	// whatever comes back (or not) on this connection is its own business
	for i := 0; i < 4; i++ {
		if _, err := conn.Read(150 * time.Millisecond); err != nil {
			break
		}
	}
	conn.Close()
	show := func() string {
		var sb strings.Builder
		for _, f := range c.Frames {
			fmt.Fprintf(&sb, "%q ", string(f))
		}
		return sb.String()
	}
	if server.WaitExit(50 * time.Millisecond) {
		rep := server.CrashReport()
		o.Fail = fmt.Sprintf("crash: the server died after a client wrote %s: %s", show(), crashSite(rep))
		if len(rep) > 600 {
			rep = rep[:600]
		}
		o.Fail += "\n" + rep
		server = nil
		main = nil
		return o
	}
	fresh, err := server.Dial()
	if err != nil {
		o.Fail = fmt.Sprintf("dead-to-others: after a client wrote %s a fresh connection is refused: %v", show(), err)
		return o
	}
	defer fresh.Close()
	v, err := fresh.DoS(1500*time.Millisecond, "PING")
	if err == srv.ErrTimeout {
		// (overloaded machine: not a verdict yet, see lateReply)
		if v2, err2 := fresh.Read(20 * time.Second); err2 == nil {
			v, err = v2, nil
			kit.C.Label("reply-arrived-after-the-time-bound(machine-overloaded)", 1)
		}
	}
	if err != nil || string(v.Str) != "PONG" {
		if server.WaitExit(300 * time.Millisecond) {
			rep := server.CrashReport()
			o.Fail = fmt.Sprintf("crash: the server died after a client wrote %s: %s", show(), crashSite(rep))
			server = nil
			main = nil
			return o
		}
		o.Fail = fmt.Sprintf("dead-to-others: after a client wrote %s, PING on a fresh connection: %v %s", show(), err, v.String())
	}
	return o
}

// TestRawFrames: every frame of the list alone (exhaustive over the list), then generated sequences of them.
func TestRawFrames(t *testing.T) {
	defer stopServer()
	frames := rawFrames()
	for i, f := range frames {
		if i%kit.Shards() != kit.Shard() {
			continue
		}
		c := RawCase{Frames: []kit.B{kit.B(f)}}
		o := execRaw(c)
		kit.C.Bulk(1, 1, "raw-frame-alone")
		if o.Fail != "" {
			js := mustJSONRaw(c)
			kit.C.Failure("raw", js, o.Fail)
			t.Errorf("%s", o.Fail)
			return
		}
	}
	kit.Check(t, kit.Spec[RawCase]{Sub: "raw", Quick: 60, Thorough: 1200,
		Gen: func(t *rapid.T) RawCase {
			var c RawCase
			for i, n := 0, rapid.IntRange(1, 4).Draw(t, "n"); i < n; i++ {
				if rapid.IntRange(0, 3).Draw(t, "valid") == 0 {
					c.Frames = append(c.Frames, kit.B(respx.EncodeCommand([][]byte{[]byte("SET"), []byte("rawk"), []byte("v")})))
				} else {
					c.Frames = append(c.Frames, kit.B(rapid.SampledFrom(frames).Draw(t, "frame")))
				}
			}
			return c
		},
		Exec: execRaw})
}

func mustJSONRaw(c RawCase) []byte {
	b, err := json.Marshal(c)
	if err != nil {
		panic(err)
	}
	return b
}
