// Package c04 checks C04: no client input can crash, wedge or hang the server.
package c04

import (
	"encoding/json"
	"fmt"
	"os"
	"sort"
	"strconv"
	"strings"
	"testing"
	"time"

	"github.com/innovationb1ue/RedisGO/memdb"
	"pgregory.net/rapid"

	"verifharness/gen"
	"verifharness/inproc"
	"verifharness/kit"
	"verifharness/respx"
	"verifharness/srv"
)

func TestMain(m *testing.M) { kit.Main(m, "C04") }

// ---------------------------------------------------------------- fixture

var server *srv.Server
var main *srv.Conn // connection used for inputs and same-connection probes
var sinceFresh int

var seedCmds = [][]string{
	{"SET", "str", "v"}, {"SET", "int", "10"}, {"RPUSH", "list", "a", "b", "c"}, {"SADD", "set", "a", "b", "c"},
	{"HSET", "hash", "f", "v", "n", "5"}, {"ZADD", "zset", "1", "a", "2", "b", "2", "c"}, {"XADD", "stream", "5-1", "f", "v"},
	{"SET", "vol", "x"}, {"EXPIRE", "vol", "100000"},
}
var seededKeys = []string{"str", "int", "list", "set", "hash", "zset", "stream", "vol"}

func ensureServer() error {
	if server != nil && server.Alive() && main != nil {
		return nil
	}
	if server != nil {
		server.Stop()
		server = nil
	}
	s, err := srv.Start(srv.Options{})
	if err != nil {
		return err
	}
	server = s
	c, err := s.Dial()
	if err != nil {
		return err
	}
	main = c
	return reseed()
}

func reseed() error {
	// wipe everything the previous input may have created, then seed one key of each type
	v, err := main.DoS(2*time.Second, "KEYS", "*")
	if err != nil {
		return fmt.Errorf("reseed: KEYS: %v", err)
	}
	for _, k := range v.Arr {
		if _, err := main.Do(2*time.Second, []byte("DEL"), k.Str); err != nil {
			return fmt.Errorf("reseed: DEL: %v", err)
		}
	}
	for _, c := range seedCmds {
		if _, err := main.DoS(2*time.Second, c...); err != nil {
			return fmt.Errorf("reseed: %v: %v", c, err)
		}
	}
	return nil
}

// reseedFast restores the eight seeded keys in one pipelined write (the enumeration must meet every
// input with the same keyspace: an earlier input may have deleted, renamed or retyped a seeded key).
func reseedFast() error {
	var stream []byte
	n := 0
	del := []string{"DEL"}
	del = append(del, seededKeys...)
	cmds := append([][]string{del}, seedCmds...)
	for _, c := range cmds {
		b := make([][]byte, len(c))
		for i, a := range c {
			b[i] = []byte(a)
		}
		stream = append(stream, respx.EncodeCommand(b)...)
		n++
	}
	if err := main.Write(stream, 3*time.Second); err != nil {
		return err
	}
	for i := 0; i < n; i++ {
		if _, err := main.Read(3 * time.Second); err != nil {
			return err
		}
	}
	return nil
}

var sinceWipe int

// blockClass classifies documented blocking commands by their timeout argument.
func blockClass(cmd kit.Cmd) (blocking bool, wait time.Duration, forever bool) {
	name := strings.ToLower(string(cmd[0]))
	if (name != "blpop" && name != "brpop") || len(cmd) < 3 {
		return false, 0, false
	}
	n, err := strconv.Atoi(string(cmd[len(cmd)-1]))
	if err != nil {
		return false, 0, false
	}
	if n == 0 || n > 3 {
		return true, 0, true // documented: block (practically) forever unless an element is there
	}
	if n < 0 {
		return false, 0, false
	}
	return true, time.Duration(n) * time.Second, false
}

type finding struct {
	Kind  string    `json:"kind"` // crash | no-reply | wedged | dead-to-others
	Input kit.Cmd   `json:"input"`
	Prog  []kit.Cmd `json:"program,omitempty"`
	Site  string    `json:"site"`
	Msg   string    `json:"msg"`
}

func repoRoot() string {
	if v := os.Getenv("VERIF_REPO"); v != "" {
		return v
	}
	return "/repo"
}

// crashSite extracts the first /repo frame of a panic trace: the grouping key of a crash.
func crashSite(report string) string {
	lines := strings.Split(report, "\n")
	head := ""
	if len(lines) > 0 {
		head = lines[0]
	}
	for _, l := range lines {
		l = strings.TrimSpace(l)
		if strings.HasPrefix(l, repoRoot()+"/") {
			if i := strings.Index(l, " "); i > 0 {
				l = l[:i]
			}
			return head + " @ " + l
		}
	}
	return head
}

// lateReply: the time bounds of this check (a reply within 3 s, a probe within 1.5 s) are generous for a
// server that works and say nothing when the machine is overloaded; a bound that is missed is therefore
// not a verdict yet. The connection is read for another 20 s: a reply that does arrive means "slow"
// (counted, the case goes on), only silence for the whole time means that the server hangs.
func lateReply(c *srv.Conn, err error) error {
	if err != srv.ErrTimeout {
		return err
	}
	if _, err2 := c.Read(20 * time.Second); err2 != nil {
		return err
	}
	kit.C.Label("reply-arrived-after-the-time-bound(machine-overloaded)", 1)
	return nil
}

// tryInput sends one command and applies the oracle. nil = the server answered and keeps serving.
func tryInput(cmd kit.Cmd) *finding {
	if err := ensureServer(); err != nil {
		return &finding{Kind: "infra", Input: cmd, Msg: err.Error()}
	}
	name := strings.ToLower(string(cmd[0]))
	conn := main
	private := name == "subscribe" || name == "publish"
	blocking, wait, forever := blockClass(cmd)
	if private || blocking {
		c, err := server.Dial()
		if err != nil {
			return &finding{Kind: "infra", Input: cmd, Msg: err.Error()}
		}
		conn = c
		defer c.Close()
	}
	timeout := 3 * time.Second
	if blocking && !forever {
		timeout = wait + 2*time.Second
	}
	if blocking && forever {
		timeout = 400 * time.Millisecond // either a prompt reply or a legitimate block
	}
	_, err := conn.Do(timeout, cmd.Bytes()...)
	if err == srv.ErrTimeout && !(blocking && forever) {
		err = lateReply(conn, err)
	}
	dead := func(kind string, msg string) *finding {
		f := &finding{Kind: kind, Input: cmd, Msg: msg}
		if server.WaitExit(500 * time.Millisecond) {
			f.Kind = "crash"
			rep := server.CrashReport()
			f.Site = crashSite(rep)
			f.Msg = rep
			if len(f.Msg) > 1200 {
				f.Msg = f.Msg[:1200]
			}
		}
		// start over with a clean server either way
		if main != nil {
			main.Close()
			main = nil
		}
		return f
	}
	if err != nil {
		if blocking && forever && err == srv.ErrTimeout {
			kit.C.Label("legit-infinite-block", 1)
		} else if err == srv.ErrTimeout {
			return dead("no-reply", fmt.Sprintf("no reply within %v, nor in the 20 s after that", timeout))
		} else {
			return dead("no-reply", fmt.Sprintf("connection failed while waiting for the reply: %v", err))
		}
	}
	if !server.Alive() {
		return dead("crash", "")
	}
	// same-connection probes: every seeded key the input named, plus one fixed key. A stripe lock left
	// held by the input makes a read of the same key hang.
	probe := main
	named := map[string]bool{"str": true}
	for _, a := range cmd[1:] {
		for _, k := range seededKeys {
			if string(a) == k {
				named[k] = true
			}
		}
	}
	keys := make([]string, 0, len(named))
	for k := range named {
		keys = append(keys, k)
	}
	sort.Strings(keys)
	for _, k := range keys {
		if _, err := probe.DoS(1500*time.Millisecond, "TYPE", k); lateReply(probe, err) != nil {
			return dead("wedged", fmt.Sprintf("TYPE %s after the input: %v", k, err))
		}
	}
	// the input may have created arbitrary keys: also probe every key argument that is not seeded
	for _, a := range cmd[1:] {
		if len(a) > 0 && len(a) < 64 && !named[string(a)] {
			if _, err := probe.Do(1500*time.Millisecond, []byte("EXISTS"), []byte(a)); lateReply(probe, err) != nil {
				return dead("wedged", fmt.Sprintf("EXISTS %q after the input: %v", string(a), err))
			}
		}
	}
	sinceFresh++
	if sinceFresh >= 50 {
		sinceFresh = 0
		c, err := server.Dial()
		if err != nil {
			return dead("dead-to-others", fmt.Sprintf("fresh connection refused: %v", err))
		}
		_, err = c.DoS(1500*time.Millisecond, "PING")
		err = lateReply(c, err)
		c.Close()
		if err != nil {
			return dead("dead-to-others", fmt.Sprintf("PING on a fresh connection: %v", err))
		}
	}
	return nil
}

// ---------------------------------------------------------------- alphabet and enumeration

func commandNames() []string {
	inproc.Setup()
	var names []string
	for n := range memdb.CmdTable {
		names = append(names, n)
	}
	names = append(names, "select", "nosuchcommand")
	sort.Strings(names)
	return names
}

var big = strings.Repeat("x", 5000)

// alphabet A: numeric extremes, hostile strings, every seeded key, a missing key, every option keyword
var alphabet = []string{"", "0", "1", "-1", "2", "9223372036854775807", "-9223372036854775808", "9223372036854775808",
	"1e309", "nan", "abc", big,
	"str", "int", "list", "set", "hash", "zset", "stream", "vol", "missing",
	"nx", "xx", "gt", "lt", "ch", "incr", "get", "ex", "px", "exat", "keepttl", "rank", "count", "maxlen", "minid", "limit",
	"nomkstream", "~", "=", "*", "-", "+", "(1", "withscores", "rev", "byscore", "bylex", "left", "right", "withvalues",
	"list", "add", "delete", "update", "5-1", "a", "f"}

var reduced = []string{"", "1", "-1", "9223372036854775807", "abc", "list", "zset", "stream", "missing", "*"}

// known findings excluded by construction (none may be generated while listed in known-findings.txt)
func excluded(cmd kit.Cmd) string {
	return ""
}

type tally struct {
	evals, distinct int64
	groups          map[string]*finding
}

func (ta *tally) run(t *testing.T, cmd kit.Cmd) {
	if id := excluded(cmd); id != "" {
		kit.C.Record(nil, kit.Outcome{Excluded: []string{id}})
		return
	}
	ta.evals++
	ta.distinct++
	if ensureServer() == nil {
		sinceWipe++
		if sinceWipe >= 500 {
			sinceWipe = 0
			_ = reseed()
		} else if reseedFast() != nil {
			stopServer()
		}
	}
	f := tryInput(cmd)
	if f == nil {
		return
	}
	if f.Kind == "infra" {
		t.Fatalf("infrastructure: %s", f.Msg)
	}
	key := strings.ToLower(string(cmd[0])) + " | " + f.Kind + " | " + f.Site
	if _, seen := ta.groups[key]; !seen {
		ta.groups[key] = f
		js, _ := json.Marshal(f)
		kit.C.Failure("input", js, fmt.Sprintf("%s: %s %s: %s", f.Kind, cmd.String(), f.Site, firstLine(f.Msg)))
		t.Errorf("%s on %s (%s)", f.Kind, cmd.String(), f.Site)
	}
}

func firstLine(s string) string {
	if i := strings.IndexByte(s, '\n'); i >= 0 {
		return s[:i]
	}
	return s
}

// TestExhaustive: every registered command name x every argument vector over the alphabet up to the
// arity bound, in order of increasing arity (so the first failure per command is minimal).
func TestExhaustive(t *testing.T) {
	defer stopServer()
	names := commandNames()
	ta := &tally{groups: map[string]*finding{}}
	shard, shards := kit.Shard(), kit.Shards()
	idx := 0
	mine := func() bool { idx++; return idx%shards == shard }
	maxFull := kit.Pick(1, 2) // full alphabet up to this many arguments
	if v := os.Getenv("VERIF_C04_ARITY"); v != "" {
		maxFull, _ = strconv.Atoi(v)
	}
	for arity := 0; arity <= maxFull; arity++ {
		for _, n := range names {
			variants := []string{n}
			if arity <= 1 {
				variants = append(variants, strings.ToUpper(n))
			}
			for _, name := range variants {
				enumArgs(alphabet, arity, func(args []string) {
					if !mine() {
						return
					}
					ta.run(t, kit.MkCmd(append([]string{name}, args...)...))
				})
			}
		}
	}
	// arity maxFull+1 .. maxFull+2 over the reduced alphabet, first argument from the key class
	for arity := maxFull + 1; arity <= maxFull+kit.Pick(1, 2); arity++ {
		for _, n := range names {
			enumArgs(reduced, arity, func(args []string) {
				if !mine() {
					return
				}
				ta.run(t, kit.MkCmd(append([]string{n}, args...)...))
			})
		}
	}
	// option keywords with numeric extremes behind the type check: <cmd> <key of its type> [a] <keyword> <number>
	keywords := []string{"nx", "xx", "gt", "lt", "ch", "incr", "get", "ex", "px", "exat", "keepttl", "rank", "count", "maxlen", "minid", "limit",
		"nomkstream", "~", "=", "*", "withscores", "rev", "byscore", "bylex", "left", "right", "withvalues"}
	for _, n := range names {
		k := prefKey(n)
		for _, kw := range keywords {
			for _, x := range extremes {
				for _, form := range [][]string{{n, k, kw, x}, {n, k, "a", kw, x}, {n, k, "0", "-1", kw, x}, {n, k, kw, x, "5-9", "f", "v"}} {
					if !mine() {
						continue
					}
					ta.run(t, kit.MkCmd(form...))
				}
			}
		}
	}
	// two option keywords with two numbers (the grammars that have them): every pair of extremes
	for _, x := range extremes {
		for _, y := range extremes {
			var forms [][]string
			for _, by := range []string{"bylex", "byscore", "rev", "withscores"} {
				forms = append(forms, []string{"zrange", "zset", "-", "+", by, "limit", x, y}, []string{"zrange", "zset", "0", "10", by, "limit", x, y},
					[]string{"zrange", "zset", "(1", "+inf", by, "limit", x, y})
			}
			forms = append(forms, []string{"lpos", "list", "a", "rank", x, "count", y}, []string{"lpos", "list", "a", "count", x, "maxlen", y},
				[]string{"lpos", "list", "a", "rank", x, "maxlen", y}, []string{"set", "str", "v", "ex", x, "px", y}, []string{"xadd", "stream", "maxlen", x, "limit", y, "*", "f", "v"},
				[]string{"hrandfield", "hash", x, "withvalues", y}, []string{"getrange", "str", x, y}, []string{"setrange", "str", x, y}, []string{"lrange", "list", x, y},
				[]string{"ltrim", "list", x, y}, []string{"zrange", "zset", x, y}, []string{"xrange", "stream", x, y})
			for _, form := range forms {
				if !mine() {
					continue
				}
				ta.run(t, kit.MkCmd(form...))
			}
		}
	}
	kit.C.Bulk(ta.evals, ta.distinct, "exhaustive-inputs")
	kit.C.SetExtra("exhaustive_done", len(ta.groups) == 0)
	kit.C.SetExtra("exhaustive_full_alphabet_arity", maxFull)
	kit.C.AddSample(map[string]any{"engine": "exhaustive", "commands": len(names), "alphabet_size": len(alphabet),
		"full_alphabet_up_to_arity": maxFull, "reduced_alphabet": reduced, "example": kit.MkCmd("zrange", "zset", "(1", "limit")})
}

func enumArgs(alpha []string, n int, f func([]string)) {
	args := make([]string, n)
	var rec func(i int)
	rec = func(i int) {
		if i == n {
			f(append([]string{}, args...))
			return
		}
		for _, a := range alpha {
			args[i] = a
			rec(i + 1)
		}
	}
	rec(0)
}

func stopServer() {
	if main != nil {
		main.Close()
		main = nil
	}
	if server != nil {
		server.Stop()
		server = nil
	}
}

// ---------------------------------------------------------------- random programs

type program struct {
	Cmds []kit.Cmd `json:"cmds"`
}

func genArg(t *rapid.T) string {
	switch rapid.IntRange(0, 5).Draw(t, "ak") {
	case 0, 1, 2:
		return rapid.SampledFrom(alphabet).Draw(t, "alpha")
	case 3:
		return gen.Int(t, "int")
	case 4:
		return gen.Value(t, "val")
	}
	return rapid.SampledFrom(seededKeys).Draw(t, "key")
}

// templates: per-command argument grammars for the option-heavy commands. Slots: K key, N number,
// V value, I stream ID; anything else is literal. A drawn template is then mutated (truncate, replace a
// slot by an extreme, duplicate an argument) so that parsers are hit just past their happy path.
var templates = [][]string{
	{"set", "K", "V", "nx", "ex", "N"}, {"set", "K", "V", "xx", "px", "N", "get"}, {"set", "K", "V", "exat", "N", "keepttl"},
	{"zadd", "K", "nx", "ch", "N", "V"}, {"zadd", "K", "xx", "gt", "incr", "N", "V"}, {"zadd", "K", "lt", "N", "V", "N", "V"},
	{"zrange", "K", "N", "N", "rev", "withscores"}, {"zrange", "K", "N", "N", "byscore", "limit", "N", "N"},
	{"zrange", "K", "(1", "N", "byscore", "withscores"}, {"zrange", "K", "N", "N", "bylex", "rev"}, {"zrank", "K", "V"}, {"zrem", "K", "V", "V"},
	{"xadd", "K", "nomkstream", "maxlen", "~", "N", "I", "V", "V"}, {"xadd", "K", "minid", "=", "I", "I", "V", "V"},
	{"xadd", "K", "maxlen", "N", "limit", "N", "*", "V", "V"}, {"xadd", "K", "~", "I", "V", "V"}, {"xrange", "K", "I", "I"}, {"xrange", "K", "-", "+", "count", "N"},
	{"lpos", "K", "V", "rank", "N", "count", "N", "maxlen", "N"}, {"lmove", "K", "K", "left", "right"}, {"lrem", "K", "N", "V"},
	{"ltrim", "K", "N", "N"}, {"lrange", "K", "N", "N"}, {"lset", "K", "N", "V"}, {"lindex", "K", "N"}, {"lpop", "K", "N"}, {"rpop", "K", "N"},
	{"blpop", "K", "K", "1"}, {"brpop", "K", "1"}, {"hrandfield", "K", "N", "withvalues"}, {"hincrby", "K", "V", "N"}, {"hincrbyfloat", "K", "V", "N"},
	{"spop", "K", "N"}, {"srandmember", "K", "N"}, {"smove", "K", "K", "V"}, {"sinterstore", "K", "K", "K"}, {"sdiffstore", "K", "K", "K"}, {"sunionstore", "K", "K"},
	{"expire", "K", "N", "gt"}, {"setex", "K", "N", "V"}, {"getrange", "K", "N", "N"}, {"setrange", "K", "N", "V"}, {"incrby", "K", "N"}, {"decrby", "K", "N"},
	{"incrbyfloat", "K", "N"}, {"rename", "K", "K"}, {"keys", "V"}, {"select", "N"}, {"publish", "K", "V"}, {"subscribe", "K", "K"},
	{"rconf", "add", "N", "V"}, {"rconf", "delete", "N"}, {"member", "list"}, {"mset", "K", "V", "K", "V"}, {"mget", "K", "K"}, {"del", "K", "K"},
}

var numbers = []string{"0", "1", "-1", "2", "3", "-2", "100", "9223372036854775807", "-9223372036854775808", "9223372036854775808",
	"4611686018427387904", "-4611686018427387905", "1e309", "nan", "inf", "-inf", "0.5", "", "x", "(1", "(", "-0", "+1", "007"}

// prefKey: the seeded key whose type the command operates on (so that option parsing behind the type
// check is reached).
func prefKey(name string) string {
	name = strings.ToLower(name)
	switch {
	case name == "set" || name == "setex" || name == "setnx" || name == "setrange" || name == "strlen" || name == "getrange" || name == "get" || name == "append":
		return "str"
	case strings.HasPrefix(name, "incr") || strings.HasPrefix(name, "decr"):
		return "int"
	case strings.HasPrefix(name, "l") || strings.HasPrefix(name, "rp") || strings.HasPrefix(name, "bl") || strings.HasPrefix(name, "br"):
		return "list"
	case strings.HasPrefix(name, "s"):
		return "set"
	case strings.HasPrefix(name, "h"):
		return "hash"
	case strings.HasPrefix(name, "z"):
		return "zset"
	case strings.HasPrefix(name, "x"):
		return "stream"
	}
	return "str"
}

var extremes = []string{"9223372036854775807", "-9223372036854775808", "9223372036854775808", "-1", "0", "4611686018427387904", "-4611686018427387905", "1e309"}

func fromTemplate(t *rapid.T) kit.Cmd {
	tpl := rapid.SampledFrom(templates).Draw(t, "tpl")
	args := make([]string, 0, len(tpl))
	for i, slot := range tpl {
		switch {
		case i == 0:
			args = append(args, gen.CaseOf(t, slot))
		case slot == "K":
			if rapid.IntRange(0, 2).Draw(t, "pref") > 0 {
				args = append(args, prefKey(tpl[0]))
			} else {
				args = append(args, rapid.SampledFrom(append(append([]string{}, seededKeys...), "missing", "")).Draw(t, "K"))
			}
		case slot == "N":
			if rapid.Bool().Draw(t, "extreme") {
				args = append(args, rapid.SampledFrom(extremes).Draw(t, "X"))
			} else {
				args = append(args, rapid.SampledFrom(numbers).Draw(t, "N"))
			}
		case slot == "V":
			args = append(args, gen.Value(t, "V"))
		case slot == "I":
			args = append(args, rapid.SampledFrom([]string{"*", "5-1", "5-2", "6-0", "0-0", "5-*", "9223372036854775807-9223372036854775807", "5", "-", "+", "x", "1-2-3", ""}).Draw(t, "I"))
		default:
			args = append(args, gen.CaseOf(t, slot))
		}
	}
	switch rapid.IntRange(0, 5).Draw(t, "mut") {
	case 0: // truncate
		n := rapid.IntRange(1, len(args)).Draw(t, "cut")
		args = args[:n]
	case 1: // replace one argument by an alphabet symbol
		if len(args) > 1 {
			args[rapid.IntRange(1, len(args)-1).Draw(t, "pos")] = rapid.SampledFrom(alphabet).Draw(t, "sym")
		}
	case 2: // duplicate an argument
		if len(args) > 1 {
			i := rapid.IntRange(1, len(args)-1).Draw(t, "dup")
			args = append(args[:i+1], args[i:]...)
		}
	case 3: // append a stray keyword
		args = append(args, rapid.SampledFrom(alphabet).Draw(t, "extra"))
	}
	return kit.MkCmd(args...)
}

func genProgram(names []string) func(t *rapid.T) program {
	return func(t *rapid.T) program {
		var p program
		n := rapid.IntRange(1, 6).Draw(t, "ncmds")
		for i := 0; i < n; i++ {
			if rapid.IntRange(0, 2).Draw(t, "usetpl") > 0 {
				p.Cmds = append(p.Cmds, fromTemplate(t))
				continue
			}
			name := gen.CaseOf(t, rapid.SampledFrom(names).Draw(t, "name"))
			arity := rapid.SampledFrom([]int{0, 1, 2, 3, 3, 4, 4, 5, 6, 8, 12}).Draw(t, "arity")
			args := []string{name}
			for j := 0; j < arity; j++ {
				if j == 0 && rapid.IntRange(0, 3).Draw(t, "keyfirst") > 0 {
					args = append(args, rapid.SampledFrom(seededKeys).Draw(t, "k"))
					continue
				}
				args = append(args, genArg(t))
			}
			p.Cmds = append(p.Cmds, kit.MkCmd(args...))
		}
		return p
	}
}

func execProgram(p program) kit.Outcome {
	o := kit.Outcome{NonTrivial: true}
	for _, c := range p.Cmds {
		if id := excluded(c); id != "" {
			o.Excluded = append(o.Excluded, id)
			return o
		}
	}
	if err := ensureServer(); err != nil {
		return kit.Outcome{Fail: "infrastructure: " + err.Error()}
	}
	if err := reseed(); err != nil {
		// a failing reseed means the previous case left the server unusable; start clean
		stopServer()
		if err := ensureServer(); err != nil {
			return kit.Outcome{Fail: "infrastructure: " + err.Error()}
		}
	}
	for _, c := range p.Cmds {
		if f := tryInput(c); f != nil {
			if f.Kind == "infra" {
				o.Fail = "infrastructure: " + f.Msg
				return o
			}
			o.Fail = fmt.Sprintf("%s: %s %s: %s", f.Kind, c.String(), f.Site, firstLine(f.Msg))
			return o
		}
		o.Labels = append(o.Labels, "cmd:"+strings.ToLower(string(c[0])))
	}
	return o
}

func TestRandom(t *testing.T) {
	defer stopServer()
	names := commandNames()
	kit.Check(t, kit.Spec[program]{Sub: "prog", Quick: 750, Thorough: 12000, Gen: genProgram(names), Exec: execProgram})
}

func TestReplay(t *testing.T) {
	defer stopServer()
	kit.Replay[program](t, map[string]func(kit.RawCase) kit.Outcome{
		"prog": kit.ReplaySub(execProgram),
		"raw":  kit.ReplaySub(execRaw),
		"input": kit.ReplaySub(func(f finding) kit.Outcome {
			if r := tryInput(f.Input); r != nil {
				return kit.Outcome{Fail: fmt.Sprintf("%s: %s %s", r.Kind, f.Input.String(), r.Site)}
			}
			return kit.Outcome{}
		}),
	})
}
