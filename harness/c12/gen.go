// Package c12 checks C12: sorted sets keep one score per member, ordered output, valid AVL.
package c12

import (
	"strings"

	"pgregory.net/rapid"

	"verifharness/gen"
	"verifharness/inproc"
	"verifharness/kit"
	"verifharness/prog"
)


var keys = []string{"z1", "Z1", "vol", "str"}
var members = []string{"a", "b", "c", "d", "e", "A", "", "m\r\nn", "f", "g", "h", "i"}
var scores = []string{"-1", "0", "1", "1", "2", "2.5", "1e10", "-inf", "+inf", "inf", "3", "4", "5", "6", "7", "-2.5", "1.0",
	"9223372036854775807", "-9223372036854775808", "1e19", "-1e19", "1e30", "9007199254740993", "1e-7", "-0"}

func key(t *rapid.T) string {
	if rapid.IntRange(0, 9).Draw(t, "kk") == 0 {
		return rapid.SampledFrom(keys).Draw(t, "key")
	}
	return rapid.SampledFrom(keys[:3]).Draw(t, "zkey")
}
func member(t *rapid.T) string { return rapid.SampledFrom(members).Draw(t, "member") }
func score(t *rapid.T) string {
	if rapid.IntRange(0, 19).Draw(t, "badscore") == 0 {
		return gen.Pick(t, "bs", "abc", "", "nan", "1x")
	}
	return rapid.SampledFrom(scores).Draw(t, "score")
}

func genOp(t *rapid.T, phase int) kit.Cmd {
	c := func(name string, args ...string) kit.Cmd {
		return kit.MkCmd(append([]string{gen.CaseOf(t, name)}, args...)...)
	}
	if rapid.IntRange(0, 24).Draw(t, "infinite") == 0 {
		// one member lives at the infinities: set there, then moved by an increment (the sum of opposite
		// infinities is not a number and must be refused)
		if rapid.Bool().Draw(t, "infset") {
			return c("zadd", key(t), gen.Pick(t, "infs", "inf", "-inf", "+inf"), "w")
		}
		return c("zadd", key(t), gen.CaseOf(t, "incr"), gen.Pick(t, "infi", "inf", "-inf", "+inf", "1"), "w")
	}
	w := []int{14, 6, 6, 3, 1}
	if phase == 1 { // delete-heavy phase
		w = []int{4, 14, 4, 3, 1}
	}
	switch gen.Weighted(t, "cmd", w) {
	case 0:
		args := []string{key(t)}
		if rapid.IntRange(0, 2).Draw(t, "hasopt") == 0 {
			for _, o := range []string{"nx", "xx", "gt", "lt", "ch", "incr"} {
				if rapid.IntRange(0, 4).Draw(t, "o"+o) == 0 {
					args = append(args, gen.CaseOf(t, o))
				}
			}
		}
		n := rapid.IntRange(1, 3).Draw(t, "pairs")
		for i := 0; i < n; i++ {
			args = append(args, score(t), member(t))
		}
		if rapid.IntRange(0, 14).Draw(t, "odd") == 0 {
			args = args[:len(args)-1]
		}
		return c("zadd", args...)
	case 1:
		n := rapid.IntRange(1, 3).Draw(t, "n")
		args := []string{key(t)}
		for i := 0; i < n; i++ {
			args = append(args, member(t))
		}
		return c("zrem", args...)
	case 2:
		args := []string{key(t), gen.SmallInt(t, "s", -14, 14), gen.SmallInt(t, "e", -14, 14)}
		if rapid.IntRange(0, 9).Draw(t, "extreme") == 0 {
			ext := []string{"9223372036854775807", "-9223372036854775808", "9223372036854775806", "-9223372036854775807", "2147483648", "-2147483649", "4294967296"}
			args[1+rapid.IntRange(0, 1).Draw(t, "which")] = rapid.SampledFrom(ext).Draw(t, "ext")
			if rapid.Bool().Draw(t, "both") {
				args[1], args[2] = gen.Pick(t, "es", "0", "-9223372036854775808", "1", "-1"), rapid.SampledFrom(ext).Draw(t, "ext2")
			}
		}
		if rapid.IntRange(0, 11).Draw(t, "bad") == 0 {
			args[1] = gen.Pick(t, "badidx", "x", "", "1.5")
		}
		if rapid.Bool().Draw(t, "rev") {
			args = append(args, gen.CaseOf(t, "rev"))
		}
		if rapid.Bool().Draw(t, "ws") {
			args = append(args, gen.CaseOf(t, "withscores"))
		}
		return c("zrange", args...)
	case 3:
		return c("zrank", key(t), member(t))
	default:
		name := gen.Pick(t, "an", "zadd", "zrem", "zrange", "zrank")
		n := rapid.IntRange(0, 3).Draw(t, "arity")
		var args []string
		for i := 0; i < n; i++ {
			args = append(args, gen.Pick(t, "aa", "z1", "1", "a"))
		}
		return c(name, args...)
	}
}

func GenProgram(t *rapid.T) prog.Program {
	p := prog.Program{ShardNum: rapid.SampledFrom([]int{1, 16}).Draw(t, "shards")}
	if rapid.IntRange(0, 2).Draw(t, "prologue") > 0 {
		p.Ops = append(p.Ops, kit.MkCmd("SET", "str", "v"), kit.MkCmd("ZADD", "vol", "1", "a"), kit.MkCmd("EXPIRE", "vol", "5000"))
	}
	// optional sorted run: forces rotations
	if rapid.IntRange(0, 2).Draw(t, "run") == 0 {
		n := rapid.IntRange(3, 12).Draw(t, "runlen")
		desc := rapid.Bool().Draw(t, "desc")
		for i := 0; i < n; i++ {
			s := i
			if desc {
				s = n - i
			}
			p.Ops = append(p.Ops, kit.MkCmd("ZADD", "z1", gen.SmallInt(t, "unused", s, s), members[i%len(members)]))
		}
	}
	n := rapid.SampledFrom([]int{1, 4, 10, 25, 60}).Draw(t, "len")
	if kit.Thorough() && rapid.IntRange(0, 19).Draw(t, "long") == 0 {
		n = 300
	}
	phase := 0
	for i := 0; i < n; i++ {
		if i == n/2 && rapid.Bool().Draw(t, "delphase") {
			phase = 1
		}
		p.Ops = append(p.Ops, genOp(t, phase))
	}
	return p
}

func Opts() prog.Options {
	return prog.Options{
		SweepKeys: func(prog.Program) []string { return keys },
		Check: func(db *inproc.DB, keys []string) error {
			if h := db.ZSetHeight("z1"); h > 0 {
				kit.C.MaxExtra("max_tree_height", int64(h))
			}
			return db.CheckAll()
		},
		NonTrivial: func(p prog.Program, st *prog.Stats) bool {
			// a score update or removal with >= 5 members added before, or any tie
			added := map[string]bool{}
			seenScore := map[string]bool{}
			for _, op := range p.Ops {
				name := strings.ToLower(string(op[0]))
				if name == "zadd" && len(op) >= 4 {
					for i := len(op) - 2; i >= 2; i -= 2 {
						m, s := string(op[1])+"\x00"+string(op[i+1]), string(op[1])+"\x00"+string(op[i])
						if added[m] && len(added) >= 5 {
							return true
						}
						if seenScore[s] {
							return true
						}
						added[m], seenScore[s] = true, true
					}
				}
				if name == "zrem" && len(added) >= 5 {
					return true
				}
			}
			return false
		},
	}
}

func Exec(p prog.Program) kit.Outcome {
	o, _ := prog.Run(p, Opts())
	return o
}

