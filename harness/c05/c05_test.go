// Package c05 checks C05: concurrent clients observe linearizable single-key operations.
package c05

import (
	"fmt"
	"os"
	"runtime"
	"sort"
	"strings"
	"sync"
	"sync/atomic"
	"testing"
	"time"

	"github.com/anishathalye/porcupine"
	"github.com/innovationb1ue/RedisGO/memdb"
	"pgregory.net/rapid"

	"verifharness/gen"
	"verifharness/inproc"
	"verifharness/kit"
	"verifharness/lin"
	"verifharness/respx"
	"verifharness/schedx"
	"verifharness/srv"
)

func TestMain(m *testing.M) { kit.Main(m, "C05") }

type Client struct {
	Ops []kit.Cmd `json:"ops"`
}

type Case struct {
	ShardNum int      `json:"shard_num"`
	Yield    int      `json:"yield"` // 0 = none; n = Gosched at every n-th lock event
	Clients  []Client `json:"clients"`
	// Pre: commands executed one after the other before the clients start (large values to read from)
	Pre []kit.Cmd `json:"pre,omitempty"`
}

// key universe: few keys per type so that clients collide on keys (and, with ShardNum 1-2, on stripes/shards)
var keysByType = map[string][]string{"s": {"s0", "s1"}, "l": {"l0", "l1"}, "t": {"t0"}, "h": {"h0"}, "z": {"z0"}, "x": {"x0"}}

func genOp(t *rapid.T, client, seq int) kit.Cmd {
	typ := gen.Pick(t, "typ", "s", "s", "l", "l", "t", "h", "z", "x")
	k := rapid.SampledFrom(keysByType[typ]).Draw(t, "key")
	uniq := fmt.Sprintf("c%d-%d", client, seq) // unique values: a reply delivered to the wrong client shows
	switch typ {
	case "s":
		switch gen.Weighted(t, "sop", []int{5, 4, 3, 6, 3, 4, 2, 2, 2, 3, 3, 2, 3, 3, 2}) {
		case 12:
			// deadlines far away: whether a deadline is attached or removed is part of the key's state
			// (NX/XX depend on the presence of a deadline only; GT/LT would compare instants)
			if opt := gen.Pick(t, "eopt", "", "", "NX", "XX"); opt != "" {
				return kit.MkCmd("EXPIRE", k, "100000", opt)
			}
			return kit.MkCmd("EXPIRE", k, "100000")
		case 13:
			return kit.MkCmd("PERSIST", k)
		case 14:
			if rapid.Bool().Draw(t, "keepttl") {
				return kit.MkCmd("SET", k, uniq, "KEEPTTL")
			}
			return kit.MkCmd("SET", k, uniq, "EX", "200000")
		case 0:
			return kit.MkCmd("GET", k)
		case 1:
			return kit.MkCmd("SET", k, gen.Pick(t, "sv", "0", "5", uniq))
		case 2:
			return kit.MkCmd("SETNX", k, uniq)
		case 3:
			return kit.MkCmd("INCR", k)
		case 4:
			return kit.MkCmd("INCRBY", k, gen.Pick(t, "by", "2", "-1", "10"))
		case 5:
			return kit.MkCmd("APPEND", k, "x") // a non-digit: digits would create spellings like "01" whose integer reading is a don't-care
		case 6:
			return kit.MkCmd("STRLEN", k)
		case 7:
			return kit.MkCmd("DEL", k)
		case 8:
			return kit.MkCmd("EXISTS", k)
		case 9:
			// big values (8 KiB of one tag): a reply that mixes two tags is a value the key never held
			return kit.MkCmd("SET", k, strings.Repeat(uniq+"|", 8192/(len(uniq)+1)))
		case 10:
			// overwrite inside the current value (non-growing when the value is big)
			return kit.MkCmd("SETRANGE", k, "0", strings.Repeat(uniq+"|", 4096/(len(uniq)+1)))
		default:
			return kit.MkCmd("GETRANGE", k, "0", "-1")
		}
	case "l":
		switch gen.Weighted(t, "lop", []int{6, 6, 5, 5, 2, 2, 1, 4}) {
		case 7:
			// positional reads (several readers at different positions share whatever the list caches)
			return kit.MkCmd("LINDEX", k, gen.Pick(t, "li", "0", "1", "2", "3", "5", "8", "-1", "-2"))
		case 0:
			return kit.MkCmd("LPUSH", k, uniq)
		case 1:
			return kit.MkCmd("RPUSH", k, uniq, uniq+"b")
		case 2:
			return kit.MkCmd("LPOP", k)
		case 3:
			return kit.MkCmd("RPOP", k)
		case 4:
			return kit.MkCmd("LLEN", k)
		case 5:
			return kit.MkCmd("LRANGE", k, "0", "-1")
		default:
			return kit.MkCmd("DEL", k)
		}
	case "t":
		m := gen.Pick(t, "member", "a", "b", "c")
		switch gen.Weighted(t, "top", []int{5, 4, 3, 2, 2}) {
		case 0:
			return kit.MkCmd("SADD", k, m)
		case 1:
			return kit.MkCmd("SREM", k, m)
		case 2:
			return kit.MkCmd("SISMEMBER", k, m)
		case 3:
			return kit.MkCmd("SCARD", k)
		default:
			return kit.MkCmd("SMEMBERS", k)
		}
	case "h":
		f := gen.Pick(t, "field", "f", "g")
		switch gen.Weighted(t, "hop", []int{4, 3, 3, 5, 2, 1, 4, 2, 2}) {
		case 7:
			return kit.MkCmd("HEXISTS", k, f)
		case 8:
			return kit.MkCmd("HSTRLEN", k, f)
		case 0:
			return kit.MkCmd("HSET", k, f, gen.Pick(t, "hv", "1", "7"))
		case 1:
			return kit.MkCmd("HGET", k, f)
		case 2:
			return kit.MkCmd("HDEL", k, f)
		case 3:
			return kit.MkCmd("HINCRBY", k, f, "1")
		case 4:
			return kit.MkCmd("HLEN", k)
		case 5:
			return kit.MkCmd("HGETALL", k)
		default:
			return kit.MkCmd("HSETNX", k, f, uniq) // exactly one concurrent claimant may win
		}
	case "x":
		// explicit IDs that mostly grow with the step (a late client is refused: also a legal outcome);
		// a small MAXLEN so that every append trims: a reader must never see more entries than the bound
		switch gen.Weighted(t, "xop", []int{5, 3, 5, 1}) {
		case 3:
			return kit.MkCmd("DEL", k)
		case 0:
			return kit.MkCmd("XADD", k, "MAXLEN", gen.Pick(t, "xml", "1", "2", "2", "3"), fmt.Sprintf("%d-%d", seq+1, client+1), "f", uniq)
		case 1:
			return kit.MkCmd("XADD", k, fmt.Sprintf("%d-%d", seq+1, client+1), "f", uniq)
		default:
			return kit.MkCmd("XRANGE", k, "-", "+")
		}
	default:
		m := gen.Pick(t, "zm", "a", "b", "c", "d")
		switch gen.Weighted(t, "zop", []int{5, 3, 3, 1}) {
		case 0:
			// distinct scores per member: ties are a don't-care zone of C12
			return kit.MkCmd("ZADD", k, map[string]string{"a": "1", "b": "2", "c": "3", "d": "4"}[m], m)
		case 1:
			return kit.MkCmd("ZREM", k, m)
		case 2:
			return kit.MkCmd("ZRANGE", k, "0", "-1")
		default:
			return kit.MkCmd("ZRANK", k, m)
		}
	}
}

// genReaderOp: mostly positional and ranked reads of large values (many readers at once share whatever
// the value caches between calls), a few writers in between.
func genReaderOp(t *rapid.T, client, seq int) kit.Cmd {
	uniq := fmt.Sprintf("c%d-%d", client, seq)
	idx := func() string { return fmt.Sprintf("%d", rapid.IntRange(-45, 45).Draw(t, "idx")) }
	mem := func() string { return fmt.Sprintf("m%02d", rapid.IntRange(0, 44).Draw(t, "mem")) }
	switch gen.Weighted(t, "rop", []int{40, 6, 8, 6, 6, 4, 1, 1, 1, 1}) {
	case 0:
		return kit.MkCmd("LINDEX", "l0", idx())
	case 1:
		return kit.MkCmd("LRANGE", "l0", idx(), idx())
	case 2:
		return kit.MkCmd("ZRANK", "z0", mem())
	case 3:
		return kit.MkCmd("ZRANGE", "z0", idx(), idx())
	case 4:
		return kit.MkCmd("HGET", "h0", mem())
	case 5:
		return kit.MkCmd("SISMEMBER", "t0", mem())
	case 6:
		return kit.MkCmd("LPUSH", "l0", uniq)
	case 7:
		return kit.MkCmd("ZADD", "z0", fmt.Sprintf("%d", 100+rapid.IntRange(0, 50).Draw(t, "zs")), uniq)
	case 8:
		return kit.MkCmd("HSET", "h0", mem(), uniq)
	default:
		return kit.MkCmd("RPOP", "l0")
	}
}

// genHotOp: one hash, one set and one sorted set written and read by everybody at once: whole-value
// reads (they walk the value) against writers of the same value.
func genHotOp(t *rapid.T, client, seq int) kit.Cmd {
	uniq := fmt.Sprintf("c%d-%d", client, seq)
	f := gen.Pick(t, "hf", "f", "g", "h", "i", "j", "k")
	switch gen.Weighted(t, "hot", []int{5, 3, 4, 3, 2, 2, 2, 2, 3, 2, 2, 2, 2}) {
	case 0:
		return kit.MkCmd("HSET", "h0", f, uniq)
	case 1:
		return kit.MkCmd("HDEL", "h0", f)
	case 2:
		return kit.MkCmd("HGETALL", "h0")
	case 3:
		return kit.MkCmd("HGET", "h0", f)
	case 4:
		return kit.MkCmd("HKEYS", "h0")
	case 5:
		return kit.MkCmd("HVALS", "h0")
	case 6:
		return kit.MkCmd("HLEN", "h0")
	case 7:
		return kit.MkCmd("HEXISTS", "h0", f)
	case 8:
		return kit.MkCmd("SADD", "t0", f)
	case 9:
		return kit.MkCmd("SREM", "t0", f)
	case 10:
		return kit.MkCmd("SMEMBERS", "t0")
	case 11:
		return kit.MkCmd("SCARD", "t0")
	default:
		return kit.MkCmd("SISMEMBER", "t0", f)
	}
}

// genWalkOp: one long list; the first two clients overwrite single positions (head, then tail, then the
// middle: two writes of one client are ordered in real time), the others read the whole list. A reader
// that walks the list while positions are overwritten must see a state that existed: never the later of
// one client's two writes without the earlier.
func genWalkOp(t *rapid.T, client, seq int) kit.Cmd {
	if client < 2 {
		pos := []string{"0", "-1", "400", "1", "-2"}[seq%5]
		if rapid.IntRange(0, 9).Draw(t, "wpos") == 0 {
			pos = fmt.Sprintf("%d", rapid.IntRange(-800, 799).Draw(t, "pos"))
		}
		return kit.MkCmd("LSET", "l0", pos, fmt.Sprintf("c%d-%d", client, seq))
	}
	switch gen.Weighted(t, "wop", []int{12, 2, 2, 1}) {
	case 0:
		return kit.MkCmd("LRANGE", "l0", "0", "-1")
	case 1:
		return kit.MkCmd("LINDEX", "l0", gen.Pick(t, "wi", "0", "-1", "400"))
	case 2:
		return kit.MkCmd("LRANGE", "l0", "-3", "-1")
	default:
		return kit.MkCmd("LLEN", "l0")
	}
}

func genCase(t *rapid.T) Case {
	c := Case{ShardNum: rapid.SampledFrom([]int{1, 2, 16}).Draw(t, "shards"), Yield: rapid.SampledFrom([]int{0, 0, 1, 2, 5}).Draw(t, "yield")}
	nc := rapid.IntRange(2, 8).Draw(t, "clients")
	per := rapid.SampledFrom([]int{5, 12, 30, 60}).Draw(t, "per")
	readers := rapid.IntRange(0, 4).Draw(t, "readers") == 0
	hot := !readers && rapid.IntRange(0, 5).Draw(t, "hot") == 0
	if hot {
		nc, per = 6, 30
	}
	walk := !readers && !hot && rapid.IntRange(0, 9).Draw(t, "walk") == 0
	if walk {
		l := []string{"RPUSH", "l0"}
		for i := 0; i < 800; i++ {
			l = append(l, fmt.Sprintf("e%04d", i))
		}
		c.Pre = []kit.Cmd{kit.MkCmd(l...)}
		nc, per = rapid.IntRange(4, 6).Draw(t, "wclients"), 16
	}
	if readers {
		l, z, h, st := []string{"RPUSH", "l0"}, []string{"ZADD", "z0"}, []string{"HSET", "h0"}, []string{"SADD", "t0"}
		for i := 0; i < 40; i++ {
			m := fmt.Sprintf("m%02d", i)
			l, z, h, st = append(l, m), append(z, fmt.Sprintf("%d", i), m), append(h, m, m), append(st, m)
		}
		c.Pre = []kit.Cmd{kit.MkCmd(l...), kit.MkCmd(z...), kit.MkCmd(h...), kit.MkCmd(st...)}
		c.Yield = 0
		nc, per = 12, rapid.SampledFrom([]int{150, 600}).Draw(t, "rper")
	}
	for i := 0; i < nc; i++ {
		var cl Client
		for j := 0; j < per; j++ {
			if readers {
				cl.Ops = append(cl.Ops, genReaderOp(t, i, j))
			} else if walk {
				cl.Ops = append(cl.Ops, genWalkOp(t, i, j))
			} else if hot {
				cl.Ops = append(cl.Ops, genHotOp(t, i, j))
			} else {
				cl.Ops = append(cl.Ops, genOp(t, i, j))
			}
		}
		c.Clients = append(c.Clients, cl)
	}
	return c
}

var yieldEvery int64
var yieldCount int64

func init() {
	memdb.VerifLockHook = func(kind string, stripe int) {
		if n := atomic.LoadInt64(&yieldEvery); n > 0 && atomic.AddInt64(&yieldCount, 1)%n == 0 {
			runtime.Gosched()
		}
	}
}

type doer func(client int, cmd kit.Cmd) (respx.Value, string)

// runHistory executes the clients concurrently and returns the timestamped history.
func runHistory(c Case, do doer) (hist []porcupine.Operation, fail string, overlapped bool) {
	var mu sync.Mutex
	var wg sync.WaitGroup
	start := make(chan struct{})
	t0 := time.Now()
	failCh := make(chan string, len(c.Clients))
	for i, cmd := range c.Pre {
		v, bad := do(0, cmd)
		if bad != "" {
			return nil, fmt.Sprintf("prologue %.80s: %s", cmd.String(), bad), false
		}
		hist = append(hist, porcupine.Operation{ClientId: len(c.Clients) + 1, Input: lin.In{Cmd: cmd, Part: string(cmd[1])}, Call: int64(-2 * (len(c.Pre) - i)), Output: lin.Out{Val: v}, Return: int64(-2*(len(c.Pre)-i) + 1)})
	}
	for ci, cl := range c.Clients {
		wg.Add(1)
		go func(ci int, cl Client) {
			defer wg.Done()
			<-start
			for _, cmd := range cl.Ops {
				call := time.Since(t0).Nanoseconds()
				v, bad := do(ci, cmd)
				ret := time.Since(t0).Nanoseconds()
				if bad != "" {
					failCh <- fmt.Sprintf("client %d %s: %s", ci, cmd.String(), bad)
					return
				}
				mu.Lock()
				hist = append(hist, porcupine.Operation{ClientId: ci, Input: lin.In{Cmd: cmd, Part: string(cmd[1])}, Call: call, Output: lin.Out{Val: v}, Return: ret})
				mu.Unlock()
			}
		}(ci, cl)
	}
	close(start)
	done := make(chan struct{})
	go func() { wg.Wait(); close(done) }()
	select {
	case <-done:
	case <-time.After(20 * time.Second):
		buf := make([]byte, 1<<20)
		n := runtime.Stack(buf, true)
		blocked := strings.Count(string(buf[:n]), "sync.(*RWMutex)")
		return nil, fmt.Sprintf("clients did not finish within 20 s (%d goroutines parked in RWMutex): executors are wedged on a lock", blocked), false
	}
	select {
	case f := <-failCh:
		return nil, f, false
	default:
	}
	// did two clients really overlap on one key with a mutator?
	sort.Slice(hist, func(i, j int) bool { return hist[i].Call < hist[j].Call })
	for i := range hist {
		for j := i + 1; j < len(hist) && hist[j].Call < hist[i].Return; j++ {
			if hist[i].ClientId != hist[j].ClientId && hist[i].Input.(lin.In).Part == hist[j].Input.(lin.In).Part {
				overlapped = true
			}
		}
	}
	return hist, "", overlapped
}

func finalReads(do doer, client int) ([]porcupine.Operation, string) {
	var out []porcupine.Operation
	base := time.Now().UnixNano()
	reads := map[string][]string{"s": {"GET"}, "l": {"LRANGE", "0", "-1"}, "t": {"SMEMBERS"}, "h": {"HGETALL"}, "z": {"ZRANGE", "0", "-1", "WITHSCORES"}, "x": {"XRANGE", "-", "+"}}
	i := int64(0)
	for typ, ks := range keysByType {
		for _, k := range ks {
			args := append([]string{reads[typ][0], k}, reads[typ][1:]...)
			cmd := kit.MkCmd(args...)
			v, bad := do(client, cmd)
			if bad != "" {
				return nil, fmt.Sprintf("final read %s: %s", cmd.String(), bad)
			}
			// strictly after everything else (Call values only need to be ordered consistently)
			out = append(out, porcupine.Operation{ClientId: client, Input: lin.In{Cmd: cmd, Part: k}, Call: 1<<60 + base + i, Output: lin.Out{Val: v}, Return: 1<<60 + base + i + 1})
			i += 2
		}
	}
	return out, ""
}

func judge(c Case, hist []porcupine.Operation, o *kit.Outcome) {
	switch lin.Check(hist, 8*time.Second) {
	case porcupine.Ok:
	case porcupine.Unknown:
		o.Inconclusive = true
		o.Labels = append(o.Labels, "porcupine-budget-exhausted")
	default:
		// find the offending partition for the message
		byKey := map[string][]porcupine.Operation{}
		for _, op := range hist {
			byKey[op.Input.(lin.In).Part] = append(byKey[op.Input.(lin.In).Part], op)
		}
		for k, ops := range byKey {
			if lin.Check(ops, 8*time.Second) == porcupine.Illegal {
				o.Fail = fmt.Sprintf("history on key %q is not linearizable (%d operations, %d clients):%s", k, len(ops), len(c.Clients), lin.Describe(ops, 60))
				return
			}
		}
		o.Fail = "history is not linearizable"
	}
}

func execInproc(c Case) kit.Outcome {
	db := inproc.New(c.ShardNum, 0)
	atomic.StoreInt64(&yieldEvery, int64(c.Yield))
	defer atomic.StoreInt64(&yieldEvery, 0)
	do := func(client int, cmd kit.Cmd) (respx.Value, string) {
		r := db.Do(cmd.Bytes())
		if r.Panic != "" {
			return respx.Value{}, "executor panicked (a server would have exited): " + firstLines(r.Panic, 8)
		}
		if r.DecErr != nil {
			return respx.Value{}, fmt.Sprintf("malformed reply %q", r.Raw)
		}
		return r.Val, ""
	}
	o := kit.Outcome{Labels: []string{fmt.Sprintf("shardnum:%d", c.ShardNum), fmt.Sprintf("yield:%d", c.Yield)}}
	if len(c.Pre) == 1 {
		o.Labels = append(o.Labels, "profile:long-list-overwritten-in-place-while-walked")
	} else if len(c.Pre) > 0 {
		o.Labels = append(o.Labels, "profile:many-readers-of-large-values")
	}
	if len(c.Clients) > 0 && len(c.Clients[0].Ops) > 0 && len(c.Pre) == 0 {
		hot := true
		for _, op := range c.Clients[0].Ops {
			if k := string(op[1]); k != "h0" && k != "t0" {
				hot = false
			}
		}
		if hot {
			o.Labels = append(o.Labels, "profile:one-hash-and-one-set-written-and-walked-by-all")
		}
	}
	hist, fail, overlapped := runHistory(c, do)
	if fail != "" {
		o.Fail = fail
		return o
	}
	o.NonTrivial = overlapped
	fin, fail := finalReads(do, len(c.Clients))
	if fail != "" {
		o.Fail = fail
		return o
	}
	judge(c, append(hist, fin...), &o)
	if o.Fail != "" {
		return o
	}
	// bookkeeping at quiescence: KEYS * = {k : EXISTS k}, structural self-check, key counter
	var exist []string
	for _, ks := range keysByType {
		for _, k := range ks {
			if v, _ := do(0, kit.MkCmd("EXISTS", k)); v.Int == 1 {
				exist = append(exist, k)
			}
		}
	}
	sort.Strings(exist)
	v, bad := do(0, kit.MkCmd("KEYS", "*"))
	if bad != "" {
		o.Fail = "KEYS *: " + bad
		return o
	}
	var listed []string
	for _, e := range v.Arr {
		listed = append(listed, string(e.Str))
	}
	sort.Strings(listed)
	if strings.Join(listed, ",") != strings.Join(exist, ",") {
		o.Fail = fmt.Sprintf("at quiescence KEYS * = %q but EXISTS says %q", listed, exist)
		return o
	}
	if err := db.CheckAll(); err != nil {
		o.Fail = "structural self-check at quiescence: " + err.Error()
	}
	return o
}

func firstLines(s string, n int) string {
	l := strings.Split(s, "\n")
	if len(l) > n {
		l = l[:n]
	}
	return strings.Join(l, "\n")
}

func TestInproc(t *testing.T) {
	q, th := 400, 3000
	if os.Getenv("VERIF_RACE") != "" {
		q, th = 60, 500 // the race detector slows execution ~10x
	}
	kit.Check(t, kit.Spec[Case]{Sub: "inproc", Quick: q, Thorough: th, Gen: genCase, Exec: execInproc, TrackCase: true})
}

// ---------------------------------------------------------------- the same programs over TCP

var server *srv.Server

func execTCP(c Case) kit.Outcome {
	if server == nil || !server.Alive() {
		if server != nil {
			server.Stop()
		}
		s, err := srv.Start(srv.Options{ShardNum: 2})
		if err != nil {
			return kit.Outcome{Fail: "infrastructure: " + err.Error()}
		}
		server = s
	}
	conns := make([]*srv.Conn, len(c.Clients)+1)
	for i := range conns {
		cn, err := server.Dial()
		if err != nil {
			return kit.Outcome{Fail: "infrastructure: " + err.Error()}
		}
		conns[i] = cn
		defer cn.Close()
	}
	for _, ks := range keysByType {
		for _, k := range ks {
			_, _ = conns[0].DoS(2*time.Second, "DEL", k)
		}
	}
	do := func(client int, cmd kit.Cmd) (respx.Value, string) {
		v, err := conns[client].Do(5*time.Second, cmd.Bytes()...)
		if err != nil {
			if server.WaitExit(500 * time.Millisecond) {
				return v, fmt.Sprintf("server died: %.400s", server.CrashReport())
			}
			return v, err.Error()
		}
		return v, ""
	}
	o := kit.Outcome{Labels: []string{"tcp"}}
	hist, fail, overlapped := runHistory(c, do)
	if fail != "" {
		o.Fail = fail
		if !server.Alive() {
			server.Stop()
			server = nil
		}
		return o
	}
	o.NonTrivial = overlapped
	fin, fail := finalReads(do, len(c.Clients))
	if fail != "" {
		o.Fail = fail
		return o
	}
	judge(c, append(hist, fin...), &o)
	return o
}

func TestTCP(t *testing.T) {
	if os.Getenv("VERIF_RACE") != "" {
		t.Skip("the race build only instruments the in-process run")
	}
	defer func() {
		if server != nil {
			server.Stop()
		}
	}()
	kit.Check(t, kit.Spec[Case]{Sub: "tcp", Quick: 40, Thorough: 600, Gen: genCase, Exec: execTCP})
}

func TestReplay(t *testing.T) {
	defer func() {
		if server != nil {
			server.Stop()
		}
	}()
	// concurrency outcomes depend on the schedule: a replay repeats the program up to 30 times
	rep := func(exec func(Case) kit.Outcome) func(Case) kit.Outcome {
		return func(c Case) kit.Outcome {
			var o kit.Outcome
			for i := 0; i < 30; i++ {
				if o = exec(c); o.Fail != "" {
					return o
				}
			}
			return o
		}
	}
	kit.Replay[Case](t, map[string]func(kit.RawCase) kit.Outcome{"inproc": kit.ReplaySub(rep(execInproc)), "tcp": kit.ReplaySub(rep(execTCP)), "sched": kit.ReplaySub(schedx.Exec)})
}
