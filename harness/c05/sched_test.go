package c05

import (
	"testing"

	"verifharness/kit"
	"verifharness/schedx"
)

// Schedules owned by the harness (package schedx): a single-key command runs in its own goroutine and is
// suspended just before its k-th stripe-lock event (hook H2), another command - three times in four on the
// same key - runs meanwhile, and replies plus final keyspace must be those of some serial order. The
// histories above leave the interleaving to the Go scheduler; a decision taken before the lock and applied
// under it (existence, deadline, length) is a window of a few instructions there and a certainty here.

func init() { schedx.Install() } // (after the init of c05_test.go, which sets the yield hook)

var singleKeyFirst = []int{4, 2, 2, 2, 0, 16, 4} // the suspended command: mostly a single-key command; a multi-key writer suspended inside its lock section is what exposes a single-key reader that does not lock

func TestSingleKeySchedules(t *testing.T) {
	kit.Check(t, kit.Spec[schedx.Case]{Sub: "sched", Quick: 6000, Thorough: 40000,
		Gen: schedx.Gen(schedx.Profile{Fast: true, AWeights: singleKeyFirst}), Exec: schedx.Exec, TrackCase: true})
}

// with pops that wait (one key) and keys past their deadline but still stored
func TestSingleKeySchedulesSlow(t *testing.T) {
	kit.Check(t, kit.Spec[schedx.Case]{Sub: "sched", Quick: 100, Thorough: 1500,
		Gen: schedx.Gen(schedx.Profile{AWeights: []int{3, 1, 1, 1, 5, 14, 4}}), Exec: schedx.Exec, TrackCase: true})
}
