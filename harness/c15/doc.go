// Package c15 holds the check of property C15 (etcd Raft core: election safety, log matching,
// commitment, leader completeness, HardState monotonicity under arbitrary schedules).
//
// All code lives in _test.go files guarded by the build tag "verif" (the check needs the
// verification hook raft.VerifSeedRand, which only exists under that tag):
//
//	sim_test.go    deterministic in-process simulator over raft.RawNode + raft.MemoryStorage and the
//	               oracle (invariants evaluated after every action)
//	micro_test.go  engine (a): rapid-drawn weighted micro-schedules (a case is plain data)
//	macro_test.go  engine (b): bounded breadth-first enumeration of macro-schedules on 3 voters; the
//	               extra operations of engine (c)
//	c15_test.go    TestMain, TestSched, TestMacroBFS (+ engine (c): novelty-guided random extension of
//	               the enumeration's horizon, thorough tier only), TestReplay
//
// Knobs (environment): VERIF_C15_DEPTH (BFS depth; default 7 quick / 9 thorough), VERIF_C15_BFS_SECONDS
// (BFS time budget), VERIF_C15_NOVELTY_SECONDS (engine (c); default 0 quick / 120 thorough),
// VERIF_C15_TRACE=1 (print every step and every node's state while executing a micro-schedule,
// e.g. together with VERIF_REPLAY).
package c15
