//go:build verif

package c15

import (
	"encoding/json"
	"math/rand"
	"os"
	"strconv"
	"testing"
	"time"

	"verifharness/kit"
)

func TestMain(m *testing.M) { kit.Main(m, "C15") }

// TestSched is engine (a): rapid-drawn weighted micro-schedules.
func TestSched(t *testing.T) {
	kit.Check(t, kit.Spec[Case]{Sub: "sched", Quick: 6000, Thorough: 100000, Gen: genCase, Exec: execSched})
}

func envInt(name string, def int) int {
	if v := os.Getenv(name); v != "" {
		if n, err := strconv.Atoi(v); err == nil {
			return n
		}
	}
	return def
}

// TestMacroBFS is engine (b): every sequence of macro-operations by increasing length; a sequence
// is extended only if it ended in an abstract state not seen before (in this shard). Because the
// abstract state is canonical under renaming of the nodes, splitting by the first operation would
// give the shards isomorphic work; instead every shard runs the first levels completely (a fraction
// of a second) and, at the first level whose frontier has >= 8 sequences per shard, keeps the
// frontier members with index = shard (mod shards). The shared levels are counted by shard 0 only.
func TestMacroBFS(t *testing.T) {
	depth := envInt("VERIF_C15_DEPTH", kit.Pick(7, 9))
	budget := time.Duration(envInt("VERIF_C15_BFS_SECONDS", kit.Pick(60, 600))) * time.Second
	start := time.Now()
	shard, shards := kit.Shard(), kit.Shards()

	seen := map[uint64]struct{}{}
	{
		r := runMacro(nil, 0)
		if r.s.fail != "" {
			t.Fatalf("empty schedule fails: %s", r.s.fail)
		}
		seen[r.abstractState()] = struct{}{}
	}
	type seq = []uint8
	frontier := []seq{{}}
	var runs, nt int64
	var maxTerm, maxLog uint64
	var truncs, leaderChanges, delivered int64
	done := 0
	failures := 0
	timedOut := false
	split := shards <= 1
	splitDepth := 0
	var sample MacroCase
	for d := 1; d <= depth && len(frontier) > 0 && failures == 0 && !timedOut; d++ {
		var next []seq
		if !split && len(frontier) >= 8*shards {
			var mine []seq
			for i, p := range frontier {
				if i%shards == shard {
					mine = append(mine, p)
				}
			}
			frontier, split, splitDepth = mine, true, d
		}
		counted := split || shard == 0
		for _, p := range frontier {
			if time.Since(start) > budget {
				timedOut = true
				break
			}
			for o := 0; o < bfsOps; o++ {
				ops := append(append(make(seq, 0, len(p)+1), p...), uint8(o))
				r := runMacro(ops, len(ops)-1)
				ct := &r.s.ct
				if counted {
					runs++
				}
				if ct.NTLeaderChange {
					if counted {
						nt++
					}
					if len(sample.Ops) == 0 && d >= 4 {
						sample = macroCaseOf(ops)
					}
				}
				if ct.MaxTerm > maxTerm {
					maxTerm = ct.MaxTerm
				}
				if ct.MaxLog > maxLog {
					maxLog = ct.MaxLog
				}
				if r.s.fail != "" {
					failures++
					c := macroCaseOf(ops)
					js, _ := json.Marshal(c)
					// confirm with full checks on every step (also what a replay does)
					msg := execMacro(c).Fail
					if msg == "" {
						msg = r.s.fail
					}
					kit.C.Failure("macro", js, msg)
					t.Errorf("%s", msg)
					break
				}
				// counted once per run, for the last operation's contribution only it would be
				// cheaper, but totals over whole runs are what the evidence reports
				if counted {
					truncs += ct.Truncations
					leaderChanges += ct.LeaderChanges
					delivered += ct.Delivered
				}
				h := r.abstractState()
				if _, ok := seen[h]; !ok {
					seen[h] = struct{}{}
					next = append(next, ops)
				}
			}
			if failures > 0 {
				break
			}
		}
		if failures == 0 && !timedOut {
			done = d
			t.Logf("bfs depth %d: runs so far %d, abstract states %d, frontier %d, %.1fs", d, runs, len(seen), len(next), time.Since(start).Seconds())
		}
		frontier = next
	}
	kit.C.Bulk(runs, nt, "bfs-runs")
	kit.C.Label("bfs-deliveries", delivered)
	kit.C.Label("bfs-truncations", truncs)
	kit.C.Label("bfs-leader-changes", leaderChanges)
	kit.C.MaxExtra("max_term", int64(maxTerm))
	kit.C.MaxExtra("max_log_index", int64(maxLog))
	kit.C.SetExtra("bfs_depth", done)
	kit.C.SetExtra("bfs_abstract_states", len(seen))
	kit.C.SetExtra("exhaustive_done", failures == 0 && done == depth)
	kit.C.SetExtra("bfs_bound", "3 voters, 22 macro-operations, all sequences up to bfs_depth (from bfs_split_depth on: extensions of every shards-th frontier member), pruned by abstract state modulo node renaming")
	kit.C.SetExtra("bfs_split_depth", splitDepth)
	if len(sample.Ops) > 0 {
		kit.C.AddSample(map[string]any{"engine": "macro-bfs", "example": sample})
	}
	if timedOut {
		t.Logf("bfs stopped by its time budget after completing depth %d (target %d)", done, depth)
	}
	if nov := envInt("VERIF_C15_NOVELTY_SECONDS", kit.Pick(0, 120)); nov > 0 && failures == 0 && len(frontier) > 0 {
		novelty(t, frontier, seen, time.Duration(nov)*time.Second)
	}
}

// novelty is engine (c): the horizon of the enumeration is the corpus; a random member is extended
// by 1..4 random operations (the 22 of (b) and the crash / reorder / duplicate / queued-campaign
// operations); an extension that ends in an abstract state not seen before joins the corpus.
func novelty(t *testing.T, corpus [][]uint8, seen map[uint64]struct{}, budget time.Duration) {
	rng := rand.New(rand.NewSource(int64(kit.RapidSeed("novelty"))))
	start := time.Now()
	var runs, nt, fresh int64
	maxLen := 0
	var maxTerm uint64
	for time.Since(start) < budget {
		p := corpus[rng.Intn(len(corpus))]
		k := 1 + rng.Intn(4)
		ops := append(make([]uint8, 0, len(p)+k), p...)
		for i := 0; i < k; i++ {
			if rng.Intn(2) == 0 {
				ops = append(ops, uint8(rng.Intn(bfsOps)))
			} else {
				ops = append(ops, uint8(bfsOps+rng.Intn(len(macroOps)-bfsOps)))
			}
		}
		r := runMacro(ops, len(p))
		runs++
		if r.s.ct.NTLeaderChange || r.s.ct.NTCrashUnacked {
			nt++
		}
		if r.s.ct.MaxTerm > maxTerm {
			maxTerm = r.s.ct.MaxTerm
		}
		if r.s.fail != "" {
			c := macroCaseOf(ops)
			js, _ := json.Marshal(c)
			msg := execMacro(c).Fail
			if msg == "" {
				msg = r.s.fail
			}
			kit.C.Failure("macro", js, msg)
			t.Errorf("%s", msg)
			break
		}
		h := r.abstractState()
		if _, ok := seen[h]; !ok {
			seen[h] = struct{}{}
			fresh++
			if len(corpus) < 3_000_000 {
				corpus = append(corpus, ops)
			}
			if len(ops) > maxLen {
				maxLen = len(ops)
			}
		}
	}
	kit.C.Bulk(runs, nt, "novelty-runs")
	kit.C.Label("novelty-new-abstract-states", fresh)
	kit.C.MaxExtra("max_term", int64(maxTerm))
	kit.C.SetExtra("novelty_longest_schedule", maxLen)
	t.Logf("novelty: %d runs, %d new abstract states, longest schedule %d ops, %.0fs", runs, fresh, maxLen, time.Since(start).Seconds())
}

func TestReplay(t *testing.T) {
	kit.Replay[Case](t, map[string]func(kit.RawCase) kit.Outcome{
		"sched": kit.ReplaySub(execSched),
		"macro": kit.ReplaySub(execMacro),
	})
}
