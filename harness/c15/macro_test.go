//go:build verif

package c15

import (
	"fmt"
	"math"
	"sort"

	"go.etcd.io/etcd/raft/v3"
	pb "go.etcd.io/etcd/raft/v3/raftpb"

	"verifharness/kit"
)

// ------------------------------------------------------------------------------------------------
// Engine (b): macro-schedules on 3 voters. The network is a FIFO queue per directed link. A
// macro-operation runs every Ready it causes to completion, so between operations every node's
// state is entirely persisted.
//
//	E(x,y)     x gets itself elected with y's vote only: a leader x first exchanges one heartbeat with
//	           y (a stale one steps down on the reply); then x campaigns; only (pre-)vote traffic
//	           between x and y is delivered, everything to or from the third node is lost, anything
//	           else between x and y (the new leader's appends) stays queued. Up to 3 rounds while x
//	           keeps learning a newer term.
//	A(x)       leader x appends one proposal locally; outgoing appends are queued.
//	R(x,y,k)   deliver up to k in {1,2,4,inf} queued messages between x and y, oldest first; replies are
//	           queued behind and count.
//	D          drop everything queued.
//
// Engine (c), thorough tier only, continues from the horizon of (b) with random extensions and
// four more operations that (b) leaves out:
//
//	C(x)       crash x and restart it from its storage, replaying from the snapshot index
//	N(x,y)     deliver the newest queued message x->y (reordering)
//	U(x,y)     deliver a copy of the oldest queued message x->y, which stays queued (duplication)
//	H(x)       x campaigns; its vote requests to both peers are queued
//
// PreVote is on (a stale leader is told the newer term by the reply to its heartbeat) and
// MaxSizePerMsg is 0 (one entry per append), so that "replicated up to here, not further" states
// are reachable with few operations.
// ------------------------------------------------------------------------------------------------

type macroOp struct {
	kind    byte // 'E','A','R','D' (enumerated by (b)); 'C','N','U','H' (engine (c) only)
	x, y, k int  // k: 0 = unbounded
}

func (o macroOp) String() string {
	switch o.kind {
	case 'E':
		return fmt.Sprintf("E(%d,%d)", o.x, o.y)
	case 'A':
		return fmt.Sprintf("A(%d)", o.x)
	case 'R':
		if o.k == 0 {
			return fmt.Sprintf("R(%d,%d,inf)", o.x, o.y)
		}
		return fmt.Sprintf("R(%d,%d,%d)", o.x, o.y, o.k)
	case 'C', 'H':
		return fmt.Sprintf("%c(%d)", o.kind, o.x)
	case 'N', 'U':
		return fmt.Sprintf("%c(%d,%d)", o.kind, o.x, o.y)
	}
	return "D"
}

var macroOps = func() []macroOp {
	var ops []macroOp
	for x := 1; x <= 3; x++ {
		for y := 1; y <= 3; y++ {
			if x != y {
				ops = append(ops, macroOp{kind: 'E', x: x, y: y})
			}
		}
	}
	for x := 1; x <= 3; x++ {
		ops = append(ops, macroOp{kind: 'A', x: x})
	}
	for x := 1; x <= 3; x++ {
		for y := x + 1; y <= 3; y++ {
			for _, k := range []int{1, 2, 4, 0} {
				ops = append(ops, macroOp{kind: 'R', x: x, y: y, k: k})
			}
		}
	}
	ops = append(ops, macroOp{kind: 'D'})
	// ---- engine (c) only; the enumeration uses the first bfsOps operations
	for x := 1; x <= 3; x++ {
		ops = append(ops, macroOp{kind: 'C', x: x}, macroOp{kind: 'H', x: x})
		for y := 1; y <= 3; y++ {
			if x != y {
				ops = append(ops, macroOp{kind: 'N', x: x, y: y}, macroOp{kind: 'U', x: x, y: y})
			}
		}
	}
	return ops
}()

const bfsOps = 22

var macroCfg = Cfg{Seed: 1, Voters: 3, PreVote: true, MaxSize: 0, MaxInflight: 16, ElectionTick: 10}

// MacroCase is a replayable macro-schedule: indexes into macroOps (Text is informational).
type MacroCase struct {
	Ops  []int    `json:"ops"`
	Text []string `json:"text,omitempty"`
}

type qmsg struct {
	seq uint64
	m   pb.Message
}

type macroNet struct {
	s   *sim
	q   [4][4][]qmsg
	seq uint64

	electing bool
	ex, ey   uint64
	phase    int // 1 = heartbeat exchange, 2 = vote exchange
	direct   []pb.Message
}

func (nw *macroNet) send(m pb.Message) {
	if nw.electing {
		if !((m.From == nw.ex && m.To == nw.ey) || (m.From == nw.ey && m.To == nw.ex)) {
			nw.s.ct.Lost++
			return
		}
		d := false
		switch m.Type {
		case pb.MsgHeartbeat, pb.MsgHeartbeatResp, pb.MsgAppResp:
			d = nw.phase == 1
		case pb.MsgPreVote, pb.MsgPreVoteResp, pb.MsgVote, pb.MsgVoteResp:
			d = nw.phase == 2
		}
		if d {
			nw.direct = append(nw.direct, m)
			return
		}
	}
	nw.seq++
	nw.q[m.From][m.To] = append(nw.q[m.From][m.To], qmsg{nw.seq, m})
}

func (nw *macroNet) appInFlight(t uint64) bool {
	for f := 1; f <= 3; f++ {
		for to := 1; to <= 3; to++ {
			for i := range nw.q[f][to] {
				if m := &nw.q[f][to][i].m; m.Type == pb.MsgApp && len(m.Entries) > 0 && m.Term < t {
					return true
				}
			}
		}
	}
	return false
}

type macroRun struct {
	s  *sim
	nw *macroNet
}

func newMacroRun(seed bool) *macroRun {
	cfg := macroCfg
	if !seed {
		// Election jitter cannot influence a macro-schedule (only leaders are ticked), so the
		// enumeration skips the re-seeding (10% of its run time); replays seed as always.
		cfg.Seed = 0
	}
	s := newSim(cfg)
	nw := &macroNet{s: s}
	s.send = nw.send
	s.appInFlight = nw.appInFlight
	return &macroRun{s: s, nw: nw}
}

func (r *macroRun) pump(n *node) {
	r.s.observe() // a node that just became leader is registered before its Ready is persisted
	for i := 0; i < 1000 && r.s.fail == "" && r.s.processReady(n, stopNone); i++ {
	}
	r.s.observe()
}

func (r *macroRun) stepInto(m pb.Message) {
	n := r.s.node(m.To)
	_ = n.rn.Step(m)
	r.s.ct.Delivered++
	r.pump(n)
}

func (r *macroRun) drainDirect() {
	for len(r.nw.direct) > 0 && r.s.fail == "" {
		m := r.nw.direct[0]
		r.nw.direct = r.nw.direct[1:]
		r.stepInto(m)
	}
}

func (r *macroRun) apply(op macroOp) {
	s, nw := r.s, r.nw
	s.ct.Actions++
	switch op.kind {
	case 'E':
		x := s.node(uint64(op.x))
		nw.electing, nw.ex, nw.ey = true, uint64(op.x), uint64(op.y)
		defer func() { nw.electing = false; nw.direct = nw.direct[:0] }()
		for round := 0; round < 3 && s.fail == ""; round++ {
			if isLeader(x) {
				nw.phase = 1
				x.rn.Tick()
				r.pump(x)
				r.drainDirect()
				if isLeader(x) {
					return
				}
			}
			before := x.rn.BasicStatus().Term
			nw.phase = 2
			_ = x.rn.Campaign()
			r.pump(x)
			r.drainDirect()
			if isLeader(x) || x.rn.BasicStatus().Term == before {
				return
			}
		}
	case 'A':
		x := s.node(uint64(op.x))
		if isLeader(x) {
			s.propSeq++
			_ = x.rn.Propose([]byte(fmt.Sprintf("a%d", s.propSeq)))
			s.ct.Proposals++
			r.pump(x)
		}
	case 'R':
		limit := op.k
		if limit == 0 {
			limit = 200
		}
		for i := 0; i < limit && s.fail == ""; i++ {
			a, b := &nw.q[op.x][op.y], &nw.q[op.y][op.x]
			var from *[]qmsg
			switch {
			case len(*a) == 0 && len(*b) == 0:
				return
			case len(*b) == 0 || (len(*a) > 0 && (*a)[0].seq < (*b)[0].seq):
				from = a
			default:
				from = b
			}
			m := (*from)[0].m
			*from = (*from)[1:]
			r.stepInto(m)
		}
	case 'C':
		x := s.node(uint64(op.x))
		s.crash(x, false)
		s.restart(x, true)
		r.pump(x)
	case 'H':
		x := s.node(uint64(op.x))
		if !isLeader(x) {
			_ = x.rn.Campaign()
			r.pump(x)
		}
	case 'N':
		if q := &nw.q[op.x][op.y]; len(*q) > 0 {
			m := (*q)[len(*q)-1].m
			*q = (*q)[:len(*q)-1]
			r.stepInto(m)
		}
	case 'U':
		if q := nw.q[op.x][op.y]; len(q) > 0 {
			s.ct.Duplicated++
			r.stepInto(cloneMsg(q[0].m))
		}
	case 'D':
		for f := 1; f <= 3; f++ {
			for to := 1; to <= 3; to++ {
				s.ct.Lost += int64(len(nw.q[f][to]))
				nw.q[f][to] = nil
			}
		}
	}
}

var perms3 = [6][3]int{{0, 1, 2}, {0, 2, 1}, {1, 0, 2}, {1, 2, 0}, {2, 0, 1}, {2, 1, 0}}

// abstractState hashes: per node role, term rank, vote, commit and the term-rank sequence of its
// persisted log; per link the kinds of the first two queued messages. The three nodes are
// interchangeable (the operation set is closed under renaming), so the hash is made canonical by
// taking the minimum over the 6 renamings.
func (r *macroRun) abstractState() uint64 {
	var terms [64]uint64
	nt := 0
	addTerm := func(t uint64) {
		for i := 0; i < nt; i++ {
			if terms[i] == t {
				return
			}
		}
		if nt < len(terms) {
			terms[nt] = t
			nt++
		}
	}
	var logs [3]plog
	var bss [3]raft.BasicStatus
	for i, n := range r.s.nodes {
		bss[i] = n.rn.BasicStatus()
		addTerm(bss[i].Term)
		logs[i] = n.plog()
		for j := range logs[i].ents {
			addTerm(logs[i].ents[j].Term)
		}
	}
	ts := terms[:nt]
	sort.Slice(ts, func(i, j int) bool { return ts[i] < ts[j] })
	rank := func(t uint64) byte {
		for i, v := range ts {
			if v == t {
				return byte(i)
			}
		}
		return 255
	}
	var nd [3][]byte
	var buf [3][48]byte
	for i := range r.s.nodes {
		b := buf[i][:0]
		b = append(b, byte(bss[i].RaftState), rank(bss[i].Term), byte(bss[i].Commit), byte(len(logs[i].ents)))
		for j := range logs[i].ents {
			b = append(b, rank(logs[i].ents[j].Term))
		}
		nd[i] = b
	}
	var ld [3][3][2]byte
	for f := 0; f < 3; f++ {
		for to := 0; to < 3; to++ {
			q := r.nw.q[f+1][to+1]
			for i := 0; i < len(q) && i < 2; i++ {
				ld[f][to][i] = byte(q[i].m.Type) + 1
			}
		}
	}
	best := uint64(math.MaxUint64)
	for _, p := range perms3 {
		var inv [4]byte // old id -> new id
		for i := 0; i < 3; i++ {
			inv[p[i]+1] = byte(i + 1)
		}
		h := uint64(14695981039346656037)
		put := func(b byte) { h = (h ^ uint64(b)) * 1099511628211 }
		for i := 0; i < 3; i++ {
			o := p[i]
			for _, b := range nd[o] {
				put(b)
			}
			put(inv[bss[o].Vote])
			put(0xfe)
		}
		for f := 0; f < 3; f++ {
			for to := 0; to < 3; to++ {
				put(ld[p[f]][p[to]][0])
				put(ld[p[f]][p[to]][1])
			}
		}
		if h < best {
			best = h
		}
	}
	return best
}

// runMacro executes ops from scratch. The expensive cross-node checks are skipped for the first
// light operations (a prefix that has been run with full checks before).
func runMacro(ops []uint8, light int) *macroRun {
	var r *macroRun
	var s0 sim
	func() {
		defer func() {
			if rec := recover(); rec != nil && r == nil {
				s0.failf("panic while building the cluster: %v", rec)
			}
		}()
		r = newMacroRun(light == 0)
	}()
	if r == nil {
		return &macroRun{s: &s0}
	}
	r.s.guard(func() {
		r.s.observe()
		for i, o := range ops {
			r.s.light = i < light
			r.apply(macroOps[o])
			if r.s.fail != "" {
				return
			}
		}
	})
	return r
}

func macroCaseOf(ops []uint8) MacroCase {
	var c MacroCase
	for _, o := range ops {
		c.Ops = append(c.Ops, int(o))
		c.Text = append(c.Text, macroOps[o].String())
	}
	return c
}

// execMacro replays one macro-schedule with full checks after every internal step.
func execMacro(c MacroCase) kit.Outcome {
	ops := make([]uint8, 0, len(c.Ops))
	for _, o := range c.Ops {
		if o < 0 || o >= len(macroOps) {
			return kit.Outcome{Fail: "replay: malformed macro case"}
		}
		ops = append(ops, uint8(o))
	}
	r := runMacro(ops, 0)
	o := kit.Outcome{NonTrivial: r.s.ct.NTLeaderChange || r.s.ct.NTCrashUnacked}
	if r.s.fail != "" {
		o.Fail = fmt.Sprintf("%s [macro-schedule %v]", r.s.fail, macroCaseOf(ops).Text)
	}
	return o
}
