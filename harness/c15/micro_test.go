//go:build verif

package c15

import (
	"fmt"
	"os"
	"sort"

	"go.etcd.io/etcd/raft/v3"
	pb "go.etcd.io/etcd/raft/v3/raftpb"
	"pgregory.net/rapid"

	"verifharness/kit"
)

// ------------------------------------------------------------------------------------------------
// Engine (a): micro-schedules. A case is plain data: a cluster configuration and a list of actions
// drawn up front. Indices in actions are relative ("the k-th node that has a Ready", "in-flight
// message k mod n"), and an action that is not applicable falls back to a cheaper one or is a no-op,
// so that most of a drawn schedule does something.
// ------------------------------------------------------------------------------------------------

// Act is one schedule step. K selects the kind; A..D are kind-specific small integers.
//
//	rdy   A=which ready node, B=stop point (0 none,1 before persist,2 after persist,3 after send)
//	del   A=which in-flight message           drp  A=which message, B&1=ReportUnreachable
//	dup   A=which message                     tick A=node, B=ticks      tka (tick all up nodes once)
//	prop  A=node (B&1: A-th leader instead)   camp A=node               xfer A=node, B=transferee
//	iso   A=node                              heal                      crash A=node
//	part  A=bitmask of the nodes in group B: messages between the two groups are lost until heal
//	burst A=node: everything in flight to that node is delivered, oldest first, no Ready in between
//	settle B=rounds: deliver everything in flight, handle every Ready, repeat (a quiet spell)
//	rst   A=which down node, B&1=replay from snapshot
//	cmp   A=node, B=entries to keep
//	cc    A=which leader, B=kind(0 add voter,1 remove,2 add learner/demote,3 two changes,4 leave joint),
//	      C=target seed, D=flags (bit0: v1 message, bits1-2: transition, bits3..: second target seed)
type Act struct {
	K string `json:"k"`
	A int    `json:"a,omitempty"`
	B int    `json:"b,omitempty"`
	C int    `json:"c,omitempty"`
	D int    `json:"d,omitempty"`
}

type Case struct {
	Cfg     Cfg   `json:"cfg"`
	Profile int   `json:"profile"` // informational: fault level the generator used (0 calm, 1 normal, 2 chaotic)
	Acts    []Act `json:"acts"`
}

const maxInFlight = 400

type microNet struct {
	s     *sim
	msgs  []pb.Message
	drops int64
}

func (nw *microNet) send(m pb.Message) {
	if len(nw.msgs) >= maxInFlight { // bound memory: the oldest message is lost
		old := nw.msgs[0]
		nw.msgs = append(nw.msgs[:0], nw.msgs[1:]...)
		nw.s.lose(old, false)
	}
	nw.msgs = append(nw.msgs, m)
}

func (nw *microNet) take(k int) pb.Message {
	m := nw.msgs[k]
	nw.msgs = append(nw.msgs[:k], nw.msgs[k+1:]...)
	return m
}

func (nw *microNet) appInFlight(t uint64) bool {
	for i := range nw.msgs {
		if nw.msgs[i].Type == pb.MsgApp && len(nw.msgs[i].Entries) > 0 && nw.msgs[i].Term < t {
			return true
		}
	}
	return false
}

func mod(a, n int) int {
	if n <= 0 {
		return 0
	}
	a %= n
	if a < 0 {
		a += n
	}
	return a
}

type microRun struct {
	s  *sim
	nw *microNet
}

func (r *microRun) upNodes(pred func(n *node) bool) []*node {
	var out []*node
	for _, n := range r.s.nodes {
		if n.rn != nil && (pred == nil || pred(n)) {
			out = append(out, n)
		}
	}
	return out
}

// pendingCC: the node's log holds a committed membership change that it has not applied yet.
func pendingCC(n *node) bool {
	st := n.rn.BasicStatus()
	if st.Commit <= n.applied {
		return false
	}
	// the library's own log is the authority (unstable entries included); read it through the storage
	// where possible, which is enough for a label
	last, _ := n.ms.LastIndex()
	hi := st.Commit
	if hi > last {
		hi = last
	}
	first, _ := n.ms.FirstIndex()
	lo := n.applied + 1
	if lo < first {
		lo = first
	}
	if lo > hi {
		return false
	}
	ents, err := n.ms.Entries(lo, hi+1, noLimit)
	if err != nil {
		return false
	}
	for i := range ents {
		if ents[i].Type == pb.EntryConfChange || ents[i].Type == pb.EntryConfChangeV2 {
			return true
		}
	}
	return false
}

func isLeader(n *node) bool { return n.rn.BasicStatus().RaftState == raft.StateLeader }

func (r *microRun) step(a Act) {
	s := r.s
	N := len(s.nodes)
	switch a.K {
	case "rdy":
		rs := r.upNodes(func(n *node) bool { return n.rn.HasReady() })
		if len(rs) == 0 {
			r.step(Act{K: "del", A: a.A})
			return
		}
		if a.C > 0 && a.B == 0 {
			// up to C messages that are in flight to this node reach it between Ready and Advance
			k := a.C
			s.beforeAdvance = func(n *node) {
				// (any order is a legal arrival order: snapshots first, they are the rare ones)
				for i := 0; i < len(r.nw.msgs) && k > 0; {
					if r.nw.msgs[i].To == n.id && r.nw.msgs[i].Type == pb.MsgSnap {
						s.deliver(r.nw.take(i))
						s.ct.SteppedBeforeAdvance++
						s.ct.SnapBeforeAdvance++
						k--
						if n.rn == nil || s.fail != "" {
							return
						}
						continue
					}
					i++
				}
				for i := 0; i < len(r.nw.msgs) && k > 0; {
					if r.nw.msgs[i].To == n.id {
						s.deliver(r.nw.take(i))
						s.ct.SteppedBeforeAdvance++
						k--
						if n.rn == nil || s.fail != "" {
							return
						}
						continue
					}
					i++
				}
			}
		}
		s.processReady(rs[mod(a.A, len(rs))], a.B)
		s.beforeAdvance = nil
	case "del":
		if len(r.nw.msgs) == 0 {
			// quiescent: let time pass, or (every other time) have the leader append something
			if a.A&1 == 1 {
				r.step(Act{K: "tick", A: a.A >> 1, B: 1})
			} else {
				r.step(Act{K: "prop", A: a.A >> 1, B: 1})
			}
			return
		}
		s.deliver(r.nw.take(mod(a.A, len(r.nw.msgs))))
	case "drp":
		if len(r.nw.msgs) > 0 {
			s.lose(r.nw.take(mod(a.A, len(r.nw.msgs))), a.B&1 == 1)
		}
	case "dup":
		if len(r.nw.msgs) > 0 {
			r.nw.send(cloneMsg(r.nw.msgs[mod(a.A, len(r.nw.msgs))]))
			s.ct.Duplicated++
		}
	case "tick":
		if n := s.nodes[mod(a.A, N)]; n.rn != nil {
			for i := 0; i < a.B && i < 32; i++ {
				n.rn.Tick()
				s.ct.Ticks++
			}
		}
	case "tka":
		for _, n := range s.nodes {
			if n.rn != nil {
				n.rn.Tick()
				s.ct.Ticks++
			}
		}
	case "prop":
		var n *node
		if a.B&1 == 1 {
			if ls := r.upNodes(isLeader); len(ls) > 0 {
				n = ls[mod(a.A, len(ls))]
			}
		}
		if n == nil {
			n = s.nodes[mod(a.A, N)]
		}
		if n.rn != nil {
			s.propSeq++
			_ = n.rn.Propose([]byte(fmt.Sprintf("p%d", s.propSeq)))
			s.ct.Proposals++
		}
	case "camp":
		if n := s.nodes[mod(a.A, N)]; n.rn != nil {
			if pendingCC(n) {
				s.ct.CampPendingCC++
			}
			_ = n.rn.Campaign()
		}
	case "part":
		s.parted, s.side = true, uint64(a.A)<<1
		s.ct.Partitions++
	case "burst":
		n := s.nodes[mod(a.A, N)]
		var rest, mine []pb.Message
		for _, m := range r.nw.msgs {
			if m.To == n.id {
				mine = append(mine, m)
			} else {
				rest = append(rest, m)
			}
		}
		r.nw.msgs = rest
		for _, m := range mine {
			s.deliver(m)
		}
		if len(mine) > 1 {
			s.ct.Bursts++
		}
	case "rsn":
		// the sender's transport reports on a snapshot that is still on its way: "finished" as soon as the
		// bytes have left, or "failed" after a time-out of its own - the message may arrive all the same
		for i := range r.nw.msgs {
			m := &r.nw.msgs[mod(a.A+i, len(r.nw.msgs))]
			if m.Type != pb.MsgSnap {
				continue
			}
			if from := s.node(m.From); from != nil && from.rn != nil {
				st := raft.SnapshotFinish
				if a.B&1 == 1 {
					st = raft.SnapshotFailure
				}
				from.rn.ReportSnapshot(m.To, st)
				s.ct.EarlySnapReports++
			}
			break
		}
	case "settle":
		s.ct.Settles++
		for round := 0; round < 1+mod(a.B, 12); round++ {
			busy := false
			msgs := r.nw.msgs
			r.nw.msgs = nil
			for _, m := range msgs {
				s.deliver(m)
				busy = true
			}
			for _, n := range s.nodes {
				for k := 0; k < 64 && n.rn != nil && n.rn.HasReady(); k++ {
					s.processReady(n, stopNone)
					busy = true
					if s.fail != "" {
						return
					}
				}
			}
			if !busy {
				break
			}
		}
	case "xfer":
		if n := s.nodes[mod(a.A, N)]; n.rn != nil {
			n.rn.TransferLeader(uint64(1 + mod(a.B, N)))
			s.ct.Transfers++
		}
	case "iso":
		s.isolated |= 1 << uint(1+mod(a.A, N))
	case "heal":
		s.isolated, s.parted, s.side = 0, false, 0
	case "crash":
		s.crash(s.nodes[mod(a.A, N)], false)
	case "rst":
		var down []*node
		for _, n := range s.nodes {
			if n.rn == nil {
				down = append(down, n)
			}
		}
		if len(down) > 0 {
			s.restart(down[mod(a.A, len(down))], a.B&1 == 1)
		}
	case "cmp":
		s.compact(s.nodes[mod(a.A, N)], uint64(mod(a.B, 8)))
	case "cc":
		if ls := r.upNodes(isLeader); len(ls) > 0 {
			r.proposeCC(ls[mod(a.A, len(ls))], a)
		}
	}
}

// proposeCC proposes a membership change that is valid on top of the leader's current (= applied)
// configuration; the leader only accepts it when no other change is pending, so it is still valid
// when it is applied. (Proposing an invalid change is an application error, not a library one.)
func (r *microRun) proposeCC(n *node, a Act) {
	s := r.s
	st := n.rn.Status()
	voters := map[uint64]bool{}
	for id := range st.Config.Voters[0] {
		voters[id] = true
	}
	learners := map[uint64]bool{}
	for id := range st.Config.Learners {
		learners[id] = true
	}
	for id := range st.Config.LearnersNext {
		learners[id] = true
	}
	joint := len(st.Config.Voters[1]) > 0
	N := len(s.nodes)
	pick := func(seed int, ok func(id uint64) bool) uint64 {
		var c []uint64
		for id := uint64(1); id <= uint64(N); id++ {
			if ok(id) {
				c = append(c, id)
			}
		}
		if len(c) == 0 {
			return 0
		}
		sort.Slice(c, func(i, j int) bool { return c[i] < c[j] })
		return c[mod(seed, len(c))]
	}
	// one change, validated against and applied to the scratch sets
	single := func(kind, seed int) (pb.ConfChangeSingle, bool) {
		switch kind {
		case 0: // add voter / promote learner
			id := pick(seed, func(id uint64) bool { return !voters[id] })
			if id == 0 {
				return pb.ConfChangeSingle{}, false
			}
			voters[id] = true
			delete(learners, id)
			return pb.ConfChangeSingle{Type: pb.ConfChangeAddNode, NodeID: id}, true
		case 1: // remove voter or learner
			id := pick(seed, func(id uint64) bool { return (voters[id] && len(voters) > 1) || learners[id] })
			if id == 0 {
				return pb.ConfChangeSingle{}, false
			}
			delete(voters, id)
			delete(learners, id)
			return pb.ConfChangeSingle{Type: pb.ConfChangeRemoveNode, NodeID: id}, true
		default: // add learner / demote voter
			id := pick(seed, func(id uint64) bool { return !learners[id] && (!voters[id] || len(voters) > 1) })
			if id == 0 {
				return pb.ConfChangeSingle{}, false
			}
			delete(voters, id)
			learners[id] = true
			return pb.ConfChangeSingle{Type: pb.ConfChangeAddLearnerNode, NodeID: id}, true
		}
	}
	s.propSeq++
	tag := []byte(fmt.Sprintf("cc%d", s.propSeq))
	var cc pb.ConfChangeI
	switch kind := mod(a.B, 5); kind {
	case 4:
		if !joint {
			return
		}
		cc = pb.ConfChangeV2{Context: tag}
	case 3:
		c1, ok1 := single(mod(a.C, 3), a.C/3)
		c2, ok2 := single(mod(a.D>>3, 3), a.D>>5)
		if !ok1 || !ok2 {
			return
		}
		cc = pb.ConfChangeV2{Transition: pb.ConfChangeTransition(mod(a.D>>1, 3)), Changes: []pb.ConfChangeSingle{c1, c2}, Context: tag}
	default:
		c1, ok := single(kind, a.C)
		if !ok {
			return
		}
		if a.D&1 == 1 {
			cc = pb.ConfChange{Type: c1.Type, NodeID: c1.NodeID, Context: tag}
		} else {
			cc = pb.ConfChangeV2{Transition: pb.ConfChangeTransition(mod(a.D>>1, 3)), Changes: []pb.ConfChangeSingle{c1}, Context: tag}
		}
	}
	s.ccLost[string(tag)] = s.ct.Lost
	if (a.D>>8)&3 != 3 {
		if err := n.rn.ProposeConfChange(cc); err == nil {
			s.ct.ConfProposed++
		}
		return
	}
	// a batch: one proposal message carrying several entries (Step accepts any number), the membership
	// change next to a normal entry or to a second membership change that is valid on top of the first
	enc := func(c pb.ConfChangeI) (pb.Entry, bool) {
		if v1, ok := c.AsV1(); ok {
			d, err := v1.Marshal()
			return pb.Entry{Type: pb.EntryConfChange, Data: d}, err == nil
		}
		v2 := c.AsV2()
		d, err := v2.Marshal()
		return pb.Entry{Type: pb.EntryConfChangeV2, Data: d}, err == nil
	}
	first, ok := enc(cc)
	if !ok {
		return
	}
	ents := []pb.Entry{first}
	s.propSeq++
	switch mod(a.D>>10, 3) {
	case 0:
		ents = append(ents, pb.Entry{Data: []byte(fmt.Sprintf("p%d", s.propSeq))})
	case 1:
		ents = append([]pb.Entry{{Data: []byte(fmt.Sprintf("p%d", s.propSeq))}}, ents...)
	default:
		if c2, ok := single(mod(a.C>>4, 3), a.C>>6); ok {
			tag2 := []byte(fmt.Sprintf("cc%d", s.propSeq))
			if e2, ok := enc(pb.ConfChangeV2{Transition: pb.ConfChangeTransition(mod(a.D>>6, 3)), Changes: []pb.ConfChangeSingle{c2}, Context: tag2}); ok {
				s.ccLost[string(tag2)] = s.ct.Lost
				ents = append(ents, e2)
			}
		}
	}
	if err := n.rn.Step(pb.Message{Type: pb.MsgProp, From: n.id, Entries: ents}); err == nil {
		s.ct.ConfProposed++
		s.ct.BatchProposals++
	}
}

// execSched executes a case; it is a plain function of the case data.
func execSched(c Case) kit.Outcome {
	cfg := c.Cfg
	if cfg.Voters < 1 || cfg.Voters > 7 || cfg.Spares < 0 || cfg.Spares > 4 || cfg.MaxInflight < 1 || cfg.ElectionTick < 2 {
		return kit.Outcome{Fail: "replay: malformed case configuration"}
	}
	var s *sim
	nw := &microNet{}
	func() {
		defer func() {
			if r := recover(); r != nil && s == nil {
				s = &sim{}
				s.failf("panic while building the cluster: %v", r)
			}
		}()
		s = newSim(cfg)
	}()
	if s.fail != "" {
		return kit.Outcome{Fail: s.fail}
	}
	nw.s = s
	s.send = nw.send
	s.appInFlight = nw.appInFlight
	r := &microRun{s: s, nw: nw}
	executed := 0
	trace := os.Getenv("VERIF_C15_TRACE") != ""
	s.guard(func() {
		s.observe()
		for i, a := range c.Acts {
			s.ct.Actions++
			if trace {
				s.trace = func(format string, v ...interface{}) { fmt.Printf("      "+format+"\n", v...) }
				fmt.Printf("#%d %+v\n", i, a)
			}
			r.step(a)
			s.observe()
			if trace {
				fmt.Println(s.describe(len(r.nw.msgs)))
			}
			executed++
			if s.fail != "" {
				return
			}
		}
	})
	return outcomeOf(s, executed, c.Profile)
}

func outcomeOf(s *sim, executed, profile int) kit.Outcome {
	ct := &s.ct
	o := kit.Outcome{NonTrivial: ct.NTLeaderChange || ct.NTCrashUnacked || ct.NTConfUnderLoss}
	if s.fail != "" {
		o.Fail = fmt.Sprintf("%s [after %d actions]", s.fail, executed)
	}
	add := func(cond bool, l string) {
		if cond {
			o.Labels = append(o.Labels, l)
		}
	}
	add(true, fmt.Sprintf("cases:voters=%d", s.cfg.Voters))
	add(true, fmt.Sprintf("cases:profile=%d", profile))
	add(s.cfg.PreVote, "cases:prevote")
	add(s.cfg.CheckQuorum, "cases:checkquorum")
	add(ct.NTLeaderChange, "cases:nt-leader-change-with-entries-in-flight")
	add(ct.NTCrashUnacked, "cases:nt-restart-with-unacknowledged-entries")
	add(ct.NTConfUnderLoss, "cases:nt-conf-change-committed-under-loss")
	add(ct.Truncations > 0, "cases:with-truncation")
	add(ct.SnapDelivered > 0, "cases:with-msgsnap")
	add(ct.LeaderChanges > 0, "cases:with-leader-change")
	add(ct.ConfCommitted > 0, "cases:with-conf-change-committed")
	add(ct.JointCommitted > 0, "cases:with-joint-config")
	add(ct.Leaders == 0, "cases:no-leader-ever")
	add(ct.Partitions > 0, "cases:with-group-partition")
	add(ct.CampPendingCC > 0, "cases:campaign-with-unapplied-conf-change")
	C := kit.C
	C.Label("actions", ct.Actions)
	C.Label("deliveries", ct.Delivered)
	C.Label("messages-lost", ct.Lost)
	C.Label("messages-duplicated", ct.Duplicated)
	C.Label("readies", ct.Readies)
	C.Label("ticks", ct.Ticks)
	C.Label("proposals", ct.Proposals)
	C.Label("entries-committed", ct.Committed)
	C.Label("truncations", ct.Truncations)
	C.Label("conflicts-found", ct.Conflicts)
	C.Label("msgsnap-sent", ct.SnapSent)
	C.Label("msgsnap-delivered", ct.SnapDelivered)
	C.Label("snapshots-installed", ct.SnapInstalled)
	C.Label("on-demand-snapshots", ct.OnDemandSnaps)
	C.Label("leaders-elected", ct.Leaders)
	C.Label("leader-changes", ct.LeaderChanges)
	C.Label("crashes", ct.Crashes)
	C.Label("crashes-inside-ready", ct.CrashInReady)
	C.Label("restarts", ct.Restarts)
	C.Label("restarts-replaying-from-snapshot", ct.RestartReplay)
	C.Label("compactions", ct.Compactions)
	C.Label("conf-changes-proposed", ct.ConfProposed)
	C.Label("conf-changes-committed", ct.ConfCommitted)
	C.Label("joint-configs-entered", ct.JointCommitted)
	C.Label("membership-changes-checked-one-at-a-time", ct.OneAtATimeChecks)
	C.Label("proposal-batches-with-a-membership-change", ct.BatchProposals)
	C.Label("snapshot-status-reported-while-the-snapshot-is-in-flight", ct.EarlySnapReports)
	C.Label("messages-stepped-between-ready-and-advance", ct.SteppedBeforeAdvance)
	C.Label("of-which-snapshots", ct.SnapBeforeAdvance)
	C.Label("readies-re-emitting-persisted-entries-unchanged", ct.ReEmitted)
	C.Label("commit-advances-checked-against-persisted-quorum", ct.CommitQuorumChecks)
	C.Label("of-which-in-a-joint-configuration", ct.JointCommitChecks)
	C.Label("leader-transfers-requested", ct.Transfers)
	C.Label("group-partitions", ct.Partitions)
	C.Label("bursts-of-2+-messages-without-a-ready", ct.Bursts)
	C.Label("quiet-spells", ct.Settles)
	C.Label("campaigns-asked-with-an-unapplied-committed-conf-change", ct.CampPendingCC)
	C.Label("votes-granted", ct.VotesGranted)
	C.MaxExtra("max_term", int64(ct.MaxTerm))
	C.MaxExtra("max_log_index", int64(ct.MaxLog))
	return o
}

// ------------------------------------------------------------------------------------------------ generator

type wkind struct {
	k string
	w int
}

// ubits draws n unbiased bits. rapid's integer generators are deliberately biased towards small and
// boundary values, which wrecks a weighted choice; single Bool draws are uniform (and still shrink
// towards zero = the first alternative).
func ubits(t *rapid.T, n int) int {
	v := 0
	for i := 0; i < n; i++ {
		if rapid.Bool().Draw(t, "bit") {
			v |= 1 << i
		}
	}
	return v
}

func pickInt(t *rapid.T, xs []int) int { return xs[ubits(t, 10)%len(xs)] }

func genCase(t *rapid.T) Case {
	var c Case
	c.Cfg = Cfg{
		Seed:         int64(1 + ubits(t, 20)),
		Voters:       pickInt(t, []int{3, 1, 2, 3, 3, 4, 5, 5}),
		Learner:      ubits(t, 2) == 3,
		Spares:       pickInt(t, []int{0, 0, 1, 2}),
		PreVote:      ubits(t, 1) == 1,
		CheckQuorum:  ubits(t, 1) == 1,
		MaxSize:      []uint64{1 << 20, 0, 64}[ubits(t, 10)%3],
		MaxInflight:  pickInt(t, []int{16, 1, 2}),
		ElectionTick: pickInt(t, []int{3, 5, 10}),
		OnDemandSnap: ubits(t, 1) == 1,
	}
	n := pickInt(t, []int{60, 150, 400, 1000})
	f := pickInt(t, []int{1, 0, 1, 1, 2}) // 0 calm, 1 normal, 2 chaotic
	c.Profile = f
	ws := []wkind{
		{"rdy", 25}, {"del", 30}, {"tick", 6}, {"prop", 3}, {"tka", 1}, {"camp", 1},
		{"drp", 2 * f}, {"dup", f}, {"iso", f}, {"heal", 2}, {"crash", f}, {"rst", 3},
		{"cmp", 2}, {"cc", 2}, {"xfer", 1},
		{"part", f}, {"burst", 2}, {"settle", 1}, {"rsn", 2},
	}
	var table []string
	for _, w := range ws {
		for i := 0; i < w.w; i++ {
			table = append(table, w.k)
		}
	}
	for i := 0; i < n; i++ {
		k := table[ubits(t, 12)%len(table)]
		a := Act{K: k}
		switch k {
		case "rdy":
			a.A = ubits(t, 4)
			// crash inside Ready handling: ~1.2% (normal) / ~3.5% (chaotic) of the Readies
			if z := ubits(t, 8); z < 3*f {
				a.B = 1 + z%3
			} else if z >= 224 {
				a.C = 1 + z%3 // one Ready in eight: messages arrive between Ready and Advance
			}
		case "del", "dup":
			// half of the deliveries take the oldest message (keeps the protocol moving), the
			// rest any message (reordering, delay)
			if ubits(t, 1) == 1 {
				a.A = ubits(t, 6)
			}
		case "drp":
			a.A = ubits(t, 6)
			a.B = ubits(t, 1)
		case "tick":
			a.A = ubits(t, 4)
			a.B = pickInt(t, []int{1, 1, 1, 2, 1, 1, 2, 3, c.Cfg.ElectionTick})
		case "prop":
			a.A = ubits(t, 4)
			a.B = pickInt(t, []int{1, 1, 1, 0})
		case "camp", "iso", "crash", "burst":
			a.A = ubits(t, 4)
		case "part":
			a.A = ubits(t, 7)
		case "rsn":
			a.A = ubits(t, 6)
			a.B = ubits(t, 1)
		case "settle":
			a.B = ubits(t, 3)
		case "xfer", "rst", "cmp":
			a.A = ubits(t, 4)
			a.B = ubits(t, 4)
		case "cc":
			a.A = ubits(t, 2)
			a.B = pickInt(t, []int{0, 1, 2, 3, 3, 4, 4})
			a.C = ubits(t, 6)
			a.D = ubits(t, 12)
		}
		c.Acts = append(c.Acts, a)
	}
	return c
}
