//go:build verif

package c15

import (
	"fmt"
	"math"
	"runtime/debug"
	"sort"
	"strings"

	"go.etcd.io/etcd/raft/v3"
	pb "go.etcd.io/etcd/raft/v3/raftpb"
)

// ------------------------------------------------------------------------------------------------
// Simulator: N raft.RawNode instances, each over its own raft.MemoryStorage, driven step by step by
// an explicit schedule. No goroutines, no clocks. The only source of non-determinism in the library
// (election jitter) is pinned with raft.VerifSeedRand at the start of every case.
//
// The simulated application follows the documented RawNode contract:
//   Ready -> persist Snapshot, Entries, HardState -> release Messages -> apply CommittedEntries
//   (conf changes through ApplyConfChange) -> Advance.
// A crash drops the RawNode and keeps the storage; a restart builds a new RawNode over the same
// storage with Config.Applied set to an index the application can legitimately claim.
// ------------------------------------------------------------------------------------------------

const noLimit = math.MaxUint64

// Cfg is the per-case cluster configuration (plain data).
type Cfg struct {
	Seed         int64  `json:"seed"`
	Voters       int    `json:"voters"`            // initial voters, ids 1..Voters
	Learner      bool   `json:"learner,omitempty"` // one initial learner, id Voters+1
	Spares       int    `json:"spares,omitempty"`  // further ids that exist with empty storage and are not members yet
	PreVote      bool   `json:"prevote,omitempty"`
	CheckQuorum  bool   `json:"checkquorum,omitempty"`
	MaxSize      uint64 `json:"maxsize"`
	MaxInflight  int    `json:"maxinflight"`
	ElectionTick int    `json:"etick"`
	OnDemandSnap bool   `json:"ondemandsnap,omitempty"` // Storage.Snapshot() snapshots the application state at its applied index
}

// stop points inside Ready handling (= the node crashes at that point).
const (
	stopNone          = 0
	stopBeforePersist = 1
	stopAfterPersist  = 2 // persisted, messages not released
	stopAfterSend     = 3 // persisted, messages released, nothing applied
)

type counters struct {
	VotesGranted int64
	Partitions, Bursts, Settles int64
	CampPendingCC               int64 // campaigns asked of a node that has a committed, unapplied membership change
	Actions, Delivered, Lost, Duplicated, Readies, Ticks  int64
	Proposals, Committed                                  int64
	MaxTerm, MaxLog                                       uint64
	Truncations, Conflicts                                int64
	SnapSent, SnapDelivered, SnapInstalled, OnDemandSnaps int64
	Leaders, LeaderChanges                                int64
	Crashes, CrashInReady, Restarts, RestartReplay        int64
	Compactions                                           int64
	ConfProposed, ConfCommitted, JointCommitted           int64
	CommitQuorumChecks, JointCommitChecks                 int64
	OneAtATimeChecks, BatchProposals                      int64
	SteppedBeforeAdvance, ReEmitted, EarlySnapReports     int64
	SnapBeforeAdvance                                     int64
	Transfers                                             int64
	NTLeaderChange, NTCrashUnacked, NTConfUnderLoss       bool
}

type centry struct {
	set  bool
	term uint64
	typ  pb.EntryType
	data string
	cobs uint64 // term of the node that first handed the entry out (>= the term in which it became committed)
}

type node struct {
	id  uint64
	s   *sim
	ms  *raft.MemoryStorage
	st  *store
	rn  *raft.RawNode // nil = down
	gen int           // incarnation

	// application state: index of the last applied entry and the ConfState as of that index
	applied uint64
	appCS   pb.ConfState
	confIdx []uint64 // ascending indexes of the conf-change entries the application has applied

	hs    pb.HardState // last persisted HardState
	memHS pb.HardState // last in-memory HardState seen in this incarnation

	pendingLeader  []uint64 // terms in which this node was first seen as leader, completeness not yet checked
	crashedUnacked bool
}

// store is the raft.Storage handed to the library: MemoryStorage, optionally snapshotting the
// application state on demand (the way an application with a cheap snapshot does).
type store struct {
	*raft.MemoryStorage
	n *node
}

func (st *store) Snapshot() (pb.Snapshot, error) {
	n := st.n
	if n.s.cfg.OnDemandSnap {
		cur, _ := st.MemoryStorage.Snapshot()
		if n.applied > cur.Metadata.Index {
			cs := cloneCS(n.appCS)
			if _, err := st.MemoryStorage.CreateSnapshot(n.applied, &cs, nil); err == nil {
				n.s.ct.OnDemandSnaps++
			}
		}
	}
	return st.MemoryStorage.Snapshot()
}

type sim struct {
	cfg   Cfg
	nodes []*node
	send  func(m pb.Message) // engine-specific network
	// beforeAdvance, if set, runs between the application's handling of a Ready and its Advance (messages
	// may be stepped into a node there: raft.Node's loop accepts them at that point); reset after use
	beforeAdvance func(n *node)
	// appInFlight reports whether an append carrying entries of a term < t is in flight (NT rule).
	appInFlight func(t uint64) bool

	isolated uint64 // bit i set = node id i is cut off
	parted   bool   // the network is split in two groups: messages between the groups are lost
	side     uint64 // bit i set = node id i is in group B

	leaders  map[uint64]uint64 // term -> the one node ever seen as leader in it
	granted  map[[2]uint64]uint64 // (node, term) -> the candidate whose vote request that node granted in that term
	table    []centry          // committed table, by index
	maxTable uint64
	confIdxs []uint64 // ascending indexes of committed conf-change entries
	csAt     map[uint64]pb.ConfState
	initCS   pb.ConfState
	ccLost   map[string]int64 // conf-change tag -> messages lost so far when it was proposed

	ct      counters
	fail    string
	light   bool // skip the expensive cross-node checks (prefix of an already checked schedule)
	propSeq int
	lg      *quietLogger
	trace   func(format string, v ...interface{}) // debugging aid (VERIF_C15_TRACE), nil otherwise
}

// describe renders every node's volatile and persisted state on one line each (trace mode).
func (s *sim) describe(inflight int) string {
	var sb strings.Builder
	for _, n := range s.nodes {
		p := n.plog()
		var terms []string
		for i := range p.ents {
			terms = append(terms, fmt.Sprint(p.ents[i].Term))
		}
		if n.rn == nil {
			fmt.Fprintf(&sb, "      n%d DOWN", n.id)
		} else {
			st := n.rn.Status()
			fmt.Fprintf(&sb, "      n%d %s t%d v%d c%d lead%d cfg=%s", n.id, st.RaftState, st.Term, st.Vote, st.Commit, st.Lead, st.Config)
		}
		fmt.Fprintf(&sb, " | hs=%v applied=%d log[%d@t%d](%s)\n", n.hs, n.applied, p.first-1, p.dummyTerm, strings.Join(terms, " "))
	}
	fmt.Fprintf(&sb, "      inflight=%d isolated=%b", inflight, s.isolated)
	return sb.String()
}

// quietLogger discards everything, turns Panic/Fatal into Go panics and counts conflict events.
type quietLogger struct{ s *sim }

func (l *quietLogger) Debug(v ...interface{})                   {}
func (l *quietLogger) Debugf(format string, v ...interface{})   {}
func (l *quietLogger) Error(v ...interface{})                   {}
func (l *quietLogger) Errorf(format string, v ...interface{})   {}
func (l *quietLogger) Info(v ...interface{})                    {}
func (l *quietLogger) Warning(v ...interface{})                 {}
func (l *quietLogger) Warningf(format string, v ...interface{}) {}
func (l *quietLogger) Infof(format string, v ...interface{}) {
	if l.s != nil && strings.HasPrefix(format, "found conflict at index") {
		l.s.ct.Conflicts++
	}
}
func (l *quietLogger) Fatal(v ...interface{}) { panic("raft fatal: " + fmt.Sprint(v...)) }
func (l *quietLogger) Fatalf(format string, v ...interface{}) {
	panic("raft fatal: " + fmt.Sprintf(format, v...))
}
func (l *quietLogger) Panic(v ...interface{}) { panic("raft panic: " + fmt.Sprint(v...)) }
func (l *quietLogger) Panicf(format string, v ...interface{}) {
	panic("raft panic: " + fmt.Sprintf(format, v...))
}

func init() { raft.SetLogger(&quietLogger{}) }

func cloneCS(cs pb.ConfState) pb.ConfState {
	return pb.ConfState{
		Voters:         append([]uint64(nil), cs.Voters...),
		Learners:       append([]uint64(nil), cs.Learners...),
		VotersOutgoing: append([]uint64(nil), cs.VotersOutgoing...),
		LearnersNext:   append([]uint64(nil), cs.LearnersNext...),
		AutoLeave:      cs.AutoLeave,
	}
}

// cloneMsg gives every receiver its own Entries slice and ConfState: in-process, a message would
// otherwise alias the sender's log array (the library keeps received slices).
func cloneMsg(m pb.Message) pb.Message {
	if len(m.Entries) > 0 {
		e := make([]pb.Entry, len(m.Entries))
		copy(e, m.Entries)
		m.Entries = e
	}
	if m.Type == pb.MsgSnap {
		m.Snapshot.Metadata.ConfState = cloneCS(m.Snapshot.Metadata.ConfState)
	}
	return m
}

func newSim(cfg Cfg) *sim {
	if cfg.Seed != 0 { // 0: keep the current jitter source (BFS runs, where no follower is ever ticked)
		raft.VerifSeedRand(cfg.Seed)
	}
	s := &sim{cfg: cfg, leaders: map[uint64]uint64{}, granted: map[[2]uint64]uint64{}, csAt: map[uint64]pb.ConfState{}, ccLost: map[string]int64{}}
	s.lg = &quietLogger{s: s}
	s.table = make([]centry, 64)
	for i := 1; i <= cfg.Voters; i++ {
		s.initCS.Voters = append(s.initCS.Voters, uint64(i))
	}
	members := cfg.Voters
	if cfg.Learner {
		members++
		s.initCS.Learners = []uint64{uint64(members)}
	}
	total := members + cfg.Spares
	for i := 1; i <= total; i++ {
		n := &node{id: uint64(i), s: s, ms: raft.NewMemoryStorage()}
		n.st = &store{MemoryStorage: n.ms, n: n}
		if i <= members {
			snap := pb.Snapshot{Metadata: pb.SnapshotMetadata{Index: 1, Term: 1, ConfState: cloneCS(s.initCS)}}
			if err := n.ms.ApplySnapshot(snap); err != nil {
				panic(err)
			}
			n.applied = 1
			n.appCS = cloneCS(s.initCS)
		}
		s.nodes = append(s.nodes, n)
		n.start(0)
	}
	return s
}

func (n *node) start(applied uint64) {
	c := &raft.Config{
		ID:              n.id,
		ElectionTick:    n.s.cfg.ElectionTick,
		HeartbeatTick:   1,
		Storage:         n.st,
		Applied:         applied,
		MaxSizePerMsg:   n.s.cfg.MaxSize,
		MaxInflightMsgs: n.s.cfg.MaxInflight,
		CheckQuorum:     n.s.cfg.CheckQuorum,
		PreVote:         n.s.cfg.PreVote,
		Logger:          n.s.lg,
	}
	rn, err := raft.NewRawNode(c)
	if err != nil {
		panic(err)
	}
	n.rn = rn
	n.gen++
	n.memHS = rn.BasicStatus().HardState
	n.pendingLeader = nil
}

func (s *sim) failf(format string, a ...interface{}) {
	if s.fail == "" {
		s.fail = fmt.Sprintf(format, a...)
	}
}

func (s *sim) node(id uint64) *node {
	if id == 0 || int(id) > len(s.nodes) {
		return nil
	}
	return s.nodes[id-1]
}

func (s *sim) cut(id uint64) bool { return s.isolated&(1<<id) != 0 }

// ------------------------------------------------------------------------------------------------ log access

type plog struct {
	first, last uint64 // first real entry, last entry (last = first-1 when empty)
	dummyTerm   uint64 // term at first-1
	ents        []pb.Entry
}

func (n *node) plog() plog {
	var p plog
	p.first, _ = n.ms.FirstIndex()
	p.last, _ = n.ms.LastIndex()
	p.dummyTerm, _ = n.ms.Term(p.first - 1)
	if p.last >= p.first {
		p.ents, _ = n.ms.Entries(p.first, p.last+1, noLimit)
	}
	return p
}

// term returns the term at idx for first-1 <= idx <= last.
func (p *plog) term(idx uint64) uint64 {
	if idx == p.first-1 {
		return p.dummyTerm
	}
	return p.ents[idx-p.first].Term
}

func sameEntry(a, b *pb.Entry) bool {
	return a.Term == b.Term && a.Type == b.Type && string(a.Data) == string(b.Data)
}

// ------------------------------------------------------------------------------------------------ oracle

// observe runs after every action: election safety over everything ever reported by Status, and
// in-memory HardState monotonicity within an incarnation.
func (s *sim) observe() {
	for _, n := range s.nodes {
		if n.rn == nil {
			continue
		}
		bs := n.rn.BasicStatus()
		if bs.Term < n.memHS.Term {
			s.failf("node %d: in-memory term regressed %d -> %d", n.id, n.memHS.Term, bs.Term)
		}
		if bs.Commit < n.memHS.Commit {
			s.failf("node %d: in-memory commit regressed %d -> %d", n.id, n.memHS.Commit, bs.Commit)
		}
		if bs.Term == n.memHS.Term && n.memHS.Vote != 0 && bs.Vote != n.memHS.Vote {
			s.failf("node %d: vote changed within term %d: %d -> %d", n.id, bs.Term, n.memHS.Vote, bs.Vote)
		}
		n.memHS = bs.HardState
		if bs.Term > s.ct.MaxTerm {
			s.ct.MaxTerm = bs.Term
		}
		if bs.RaftState != raft.StateLeader {
			continue
		}
		// A node counts as leader of term T once its HardState for T is durable. With a single
		// voter the library makes the node leader inside Campaign(), before the Ready that persists
		// {Term: T, Vote: self} has been handled; if the node crashes right there, nothing of term T
		// ever left it (messages are only released after the persist) and it legitimately restarts
		// in term T-1, where it may grant its vote for T to somebody else. Found by this check with
		// the stricter reading (soak seed 11); with two or more voters leadership always follows a
		// persisted self-vote, because the vote requests are released after the persist.
		if n.hs.Term != bs.Term {
			continue
		}
		l, ok := s.leaders[bs.Term]
		if ok {
			if l != n.id {
				s.failf("election safety: two leaders in term %d: node %d and node %d", bs.Term, l, n.id)
			}
			continue
		}
		s.leaders[bs.Term] = n.id
		s.ct.Leaders++
		if s.ct.Leaders > 1 {
			s.ct.LeaderChanges++
			if s.appInFlight != nil && s.appInFlight(bs.Term) {
				s.ct.NTLeaderChange = true
			}
		}
		n.pendingLeader = append(n.pendingLeader, bs.Term)
	}
}

func (s *sim) tableAt(idx uint64) *centry {
	if idx < uint64(len(s.table)) && s.table[idx].set {
		return &s.table[idx]
	}
	return nil
}

// handOut records/compares one entry handed out in CommittedEntries by node n at term t.
func (s *sim) handOut(n *node, t uint64, e *pb.Entry) {
	for e.Index >= uint64(len(s.table)) {
		s.table = append(s.table, make([]centry, len(s.table))...)
	}
	ce := &s.table[e.Index]
	if ce.set {
		if ce.term != e.Term || ce.typ != e.Type || ce.data != string(e.Data) {
			s.failf("state-machine safety: node %d applies (term %d, %s, %q) at index %d, but (term %d, %s, %q) was applied there before",
				n.id, e.Term, e.Type, e.Data, e.Index, ce.term, ce.typ, ce.data)
		}
		return
	}
	*ce = centry{set: true, term: e.Term, typ: e.Type, data: string(e.Data), cobs: t}
	if e.Index > s.maxTable {
		s.maxTable = e.Index
	}
	s.ct.Committed++
	if e.Type == pb.EntryConfChange || e.Type == pb.EntryConfChangeV2 {
		s.confIdxs = append(s.confIdxs, e.Index)
		sort.Slice(s.confIdxs, func(i, j int) bool { return s.confIdxs[i] < s.confIdxs[j] })
		s.ct.ConfCommitted++
		if tag := ccTag(e); tag != "" {
			if at, ok := s.ccLost[tag]; ok && s.ct.Lost > at {
				s.ct.NTConfUnderLoss = true
			}
		}
	}
	// Every other node that already persisted this index as committed must hold the same entry.
	if s.light {
		return
	}
	for _, o := range s.nodes {
		if o == n || o.hs.Commit < e.Index {
			continue
		}
		p := o.plog()
		if e.Index < p.first || e.Index > p.last {
			if e.Index == p.first-1 && p.dummyTerm != e.Term {
				s.failf("node %d compacted index %d at term %d, but node %d applies term %d there", o.id, e.Index, p.dummyTerm, n.id, e.Term)
			}
			continue
		}
		if !sameEntry(&p.ents[e.Index-p.first], e) {
			s.failf("commitment: node %d holds (term %d) at its committed index %d, node %d applies (term %d, %q)",
				o.id, p.ents[e.Index-p.first].Term, e.Index, n.id, e.Term, e.Data)
		}
	}
}

func ccTag(e *pb.Entry) string {
	switch e.Type {
	case pb.EntryConfChange:
		var cc pb.ConfChange
		if cc.Unmarshal(e.Data) == nil {
			return string(cc.Context)
		}
	case pb.EntryConfChangeV2:
		var cc pb.ConfChangeV2
		if cc.Unmarshal(e.Data) == nil {
			return string(cc.Context)
		}
	}
	return ""
}

// expectedCS is the ConfState implied by the committed conf changes up to idx.
func (s *sim) expectedCS(idx uint64) (pb.ConfState, bool) {
	best := uint64(0)
	for _, ci := range s.confIdxs {
		if ci <= idx {
			best = ci
		}
	}
	if best == 0 {
		return s.initCS, true
	}
	cs, ok := s.csAt[best]
	return cs, ok
}

// afterPersist: checks that need node n's log entirely in storage.
func (s *sim) afterPersist(n *node) {
	p := n.plog()
	if p.last > s.ct.MaxLog {
		s.ct.MaxLog = p.last
	}
	if s.light {
		return
	}
	commit := n.hs.Commit
	// persisted entries at indexes <= commit agree with the committed table
	hi := commit
	if p.last < hi {
		s.failf("node %d: persisted commit %d beyond persisted last index %d", n.id, commit, p.last)
		hi = p.last
	}
	if s.maxTable < hi {
		hi = s.maxTable
	}
	for idx := p.first; idx <= hi; idx++ {
		ce := s.tableAt(idx)
		if ce == nil {
			continue
		}
		e := &p.ents[idx-p.first]
		if ce.term != e.Term || ce.typ != e.Type || ce.data != string(e.Data) {
			s.failf("commitment: node %d persisted (term %d, %q) at index %d <= its commit %d, but (term %d, %q) was applied there",
				n.id, e.Term, e.Data, idx, commit, ce.term, ce.data)
			break
		}
	}
	if p.first-1 <= commit {
		if ce := s.tableAt(p.first - 1); ce != nil && ce.term != p.dummyTerm {
			s.failf("node %d: compaction point %d has term %d, applied entry there has term %d", n.id, p.first-1, p.dummyTerm, ce.term)
		}
	}
	// log matching + agreement on committed indexes against every other persisted log
	for _, o := range s.nodes {
		if o != n {
			s.checkPair(n, &p, o)
		}
	}
	// leader completeness for the terms in which n was first seen as leader
	if len(n.pendingLeader) > 0 {
		for _, t := range n.pendingLeader {
			s.checkLeaderComplete(n, &p, t)
		}
		n.pendingLeader = n.pendingLeader[:0]
	}
}

// checkOneChangeAtATime: membership changes are safe only one at a time - a leader must not put a
// membership change into its log while another one, its own or inherited, sits there unapplied
// (otherwise two majorities that do not intersect can form). Checked where the leader's new entries
// are persisted: for every membership-change entry of the leader's own term, no other
// membership-change entry lies between what the node has applied and that entry.
func (s *sim) checkOneChangeAtATime(n *node, ents []pb.Entry, term uint64) {
	isCC := func(e *pb.Entry) bool { return e.Type == pb.EntryConfChange || e.Type == pb.EntryConfChangeV2 }
	var p *plog
	for i := range ents {
		e := &ents[i]
		if !isCC(e) || e.Term != term || n.rn.BasicStatus().RaftState != raft.StateLeader {
			continue
		}
		if p == nil {
			q := n.plog()
			p = &q
		}
		lo := n.applied + 1
		if lo < p.first {
			lo = p.first
		}
		for idx := lo; idx < e.Index && idx <= p.last; idx++ {
			if o := &p.ents[idx-p.first]; isCC(o) {
				s.failf("membership: leader %d of term %d appends the membership change %q at index %d while the membership change %q at index %d (term %d) is still unapplied (applied index %d): two changes in flight",
					n.id, term, ccTag(e), e.Index, ccTag(o), idx, o.Term, n.applied)
				return
			}
		}
		s.ct.OneAtATimeChecks++
	}
}

// checkCommitQuorum: a leader that moves its commit index to c, onto an entry of its own term, has
// decided that under its current configuration. At that moment the entry must be in the persisted log
// of a majority of the voters - of both halves while the configuration is joint. (Acknowledgements
// are only sent from persisted state, see processReady; the leader's own log has just been persisted.)
// This is the commit rule itself, checked where it is applied: a wrong quorum is seen at once, long
// before an election among the nodes that never had the entry makes two histories visible.
func (s *sim) checkCommitQuorum(n *node, c uint64) {
	st := n.rn.Status()
	if st.RaftState != raft.StateLeader {
		return
	}
	p := n.plog()
	if c > p.last || c < p.first {
		return
	}
	tc := p.term(c)
	if tc != st.Term {
		return // decided in an earlier role or term
	}
	holds := func(id uint64) bool {
		if id == n.id {
			return true
		}
		o := s.node(id)
		if o == nil {
			return false
		}
		q := o.plog()
		if c < q.first-1 {
			return true // behind its snapshot: committed there already
		}
		return c <= q.last && q.term(c) == tc
	}
	s.ct.CommitQuorumChecks++
	for half, mc := range st.Config.Voters {
		if len(mc) == 0 {
			continue
		}
		have := 0
		var ids []uint64
		for id := range mc {
			ids = append(ids, id)
			if holds(id) {
				have++
			}
		}
		if have < len(mc)/2+1 {
			sort.Slice(ids, func(i, j int) bool { return ids[i] < ids[j] })
			which := "incoming"
			if half == 1 {
				which = "outgoing"
				s.ct.JointCommitChecks++
			}
			s.failf("commitment: leader %d of term %d moves its commit index to %d, but the entry (term %d) is in the persisted log of only %d of the %d voters %v (the %s half of configuration %s): not a majority",
				n.id, st.Term, c, tc, have, len(mc), ids, which, st.Config.Voters.String())
			return
		}
		if half == 1 {
			s.ct.JointCommitChecks++
		}
	}
}

func (s *sim) checkPair(a *node, pa *plog, b *node) {
	pb_ := b.plog()
	lo := pa.first - 1
	if pb_.first-1 > lo {
		lo = pb_.first - 1
	}
	hi := pa.last
	if pb_.last < hi {
		hi = pb_.last
	}
	cm := a.hs.Commit
	if b.hs.Commit < cm {
		cm = b.hs.Commit
	}
	matched := false
	for idx := hi; idx >= lo && idx > 0; idx-- {
		ta, tb := pa.term(idx), pb_.term(idx)
		if ta == tb {
			if idx >= pa.first && idx >= pb_.first {
				ea, eb := &pa.ents[idx-pa.first], &pb_.ents[idx-pb_.first]
				if ea.Type != eb.Type || string(ea.Data) != string(eb.Data) {
					s.failf("log matching: nodes %d and %d hold index %d term %d with different content (%q vs %q)", a.id, b.id, idx, ta, ea.Data, eb.Data)
					return
				}
			}
			matched = true
			continue
		}
		if matched {
			s.failf("log matching: nodes %d and %d agree on (index %d) but differ at index %d (terms %d vs %d)", a.id, b.id, idx+1, idx, ta, tb)
			return
		}
		if idx <= cm {
			s.failf("commitment: nodes %d and %d hold different entries (terms %d vs %d) at index %d, committed on both (commit %d / %d)",
				a.id, b.id, ta, tb, idx, a.hs.Commit, b.hs.Commit)
			return
		}
	}
}

func (s *sim) checkLeaderComplete(n *node, p *plog, t uint64) {
	for idx := uint64(2); idx <= s.maxTable; idx++ {
		ce := &s.table[idx]
		if !ce.set || ce.cobs >= t {
			continue
		}
		switch {
		case idx > p.last:
			s.failf("leader completeness: leader %d of term %d lacks committed index %d (term %d, first applied by a node in term %d); its log ends at %d",
				n.id, t, idx, ce.term, ce.cobs, p.last)
			return
		case idx < p.first-1:
			// compacted into the leader's snapshot
		case idx == p.first-1:
			if p.dummyTerm != ce.term {
				s.failf("leader completeness: leader %d of term %d has term %d at compaction point %d, committed entry has term %d", n.id, t, p.dummyTerm, idx, ce.term)
				return
			}
		default:
			e := &p.ents[idx-p.first]
			if e.Term != ce.term || e.Type != ce.typ || string(e.Data) != ce.data {
				s.failf("leader completeness: leader %d of term %d has a different entry at committed index %d: (term %d, %q), committed (term %d, %q, first applied in term %d)",
					n.id, t, idx, e.Term, e.Data, ce.term, ce.data, ce.cobs)
				return
			}
		}
	}
}

// ------------------------------------------------------------------------------------------------ node operations

func (s *sim) crash(n *node, inReady bool) {
	if n.rn == nil {
		return
	}
	n.rn = nil
	s.ct.Crashes++
	if inReady {
		s.ct.CrashInReady++
	}
	if last, _ := n.ms.LastIndex(); last > n.hs.Commit {
		n.crashedUnacked = true
	}
}

// restart builds a new RawNode over the same storage. replay=true: the application reloads its
// state from the snapshot in storage and is given every later committed entry again;
// replay=false: the application state is durable and Applied is the largest index it may claim
// (conf changes after the snapshot must be handed out again, because the node's configuration is
// restored from the snapshot's ConfState).
func (s *sim) restart(n *node, replay bool) {
	if n.rn != nil {
		return
	}
	snap, _ := n.ms.Snapshot()
	si := snap.Metadata.Index
	a := si
	if !replay {
		a = n.applied
		for _, ci := range n.confIdx {
			if ci > si {
				if ci-1 < a {
					a = ci - 1
				}
				break
			}
		}
		if a < si {
			a = si
		}
	} else {
		s.ct.RestartReplay++
	}
	n.applied = a
	n.appCS = cloneCS(snap.Metadata.ConfState)
	if si > 0 && !s.light {
		if want, ok := s.expectedCS(si); ok {
			if err := want.Equivalent(n.appCS); err != nil {
				s.failf("node %d restarts from snapshot at %d with ConfState %v, committed conf changes imply %v", n.id, si, n.appCS, want)
			}
		}
	}
	// persisted HardState must be what was last written (MemoryStorage: trivially) and sane
	hs, _, _ := n.ms.InitialState()
	if hs.Term != n.hs.Term || hs.Vote != n.hs.Vote || hs.Commit != n.hs.Commit {
		s.failf("node %d: harness bug: persisted HardState mismatch", n.id)
	}
	n.start(a)
	s.ct.Restarts++
	if n.crashedUnacked {
		s.ct.NTCrashUnacked = true
		n.crashedUnacked = false
	}
}

// compact snapshots the application state at its applied index and discards the log up to
// applied-keep, so that followers that are further behind need a snapshot.
func (s *sim) compact(n *node, keep uint64) {
	if n.rn == nil {
		return
	}
	snap, _ := n.ms.Snapshot()
	if n.applied > snap.Metadata.Index {
		cs := cloneCS(n.appCS)
		if _, err := n.ms.CreateSnapshot(n.applied, &cs, nil); err != nil {
			s.failf("node %d: harness bug: CreateSnapshot(%d): %v", n.id, n.applied, err)
			return
		}
	}
	first, _ := n.ms.FirstIndex()
	if n.applied < first {
		return
	}
	ci := n.applied
	if keep < n.applied-(first-1) {
		ci = n.applied - keep
	}
	if ci < first {
		return
	}
	if err := n.ms.Compact(ci); err != nil {
		s.failf("node %d: harness bug: Compact(%d): %v", n.id, ci, err)
		return
	}
	s.ct.Compactions++
}

// processReady handles one Ready of node n according to the contract; stopAt != 0 crashes the node
// at that point. It returns false if the node had nothing ready.
func (s *sim) processReady(n *node, stopAt int) bool {
	if n.rn == nil || !n.rn.HasReady() {
		return false
	}
	rd := n.rn.Ready()
	s.ct.Readies++
	if s.trace != nil {
		s.trace("ready n%d stop=%d: %s", n.id, stopAt, strings.ReplaceAll(raft.DescribeReady(rd, nil), "\n", " / "))
	}
	if stopAt == stopBeforePersist {
		s.crash(n, true)
		return true
	}
	term := n.rn.BasicStatus().Term
	var commitAdvanced uint64

	// ---- persist: snapshot, entries, HardState
	if !raft.IsEmptySnap(rd.Snapshot) {
		md := rd.Snapshot.Metadata
		if md.Index <= n.applied {
			s.failf("node %d: is handed snapshot at index %d but has applied %d already", n.id, md.Index, n.applied)
		}
		if ce := s.tableAt(md.Index); ce != nil && ce.term != md.Term {
			s.failf("snapshot: node %d installs snapshot (index %d, term %d), but the entry applied at that index has term %d", n.id, md.Index, md.Term, ce.term)
		}
		if want, ok := s.expectedCS(md.Index); ok && !s.light {
			if err := want.Equivalent(md.ConfState); err != nil {
				s.failf("snapshot: node %d installs snapshot at %d with ConfState %v, committed conf changes imply %v", n.id, md.Index, md.ConfState, want)
			}
		}
		if err := n.ms.ApplySnapshot(rd.Snapshot); err != nil {
			s.failf("node %d: storage refuses snapshot at %d: %v", n.id, md.Index, err)
		}
		s.ct.SnapInstalled++
	}
	if len(rd.Entries) > 0 {
		first := rd.Entries[0].Index
		last, _ := n.ms.LastIndex()
		if first <= last {
			s.ct.Truncations++
			// entries at or below the persisted commit index / the applied index may be handed out again
			// (a message stepped in between Ready and Advance can make the library re-emit its unstable
			// entries from their start), but never with another content
			lim := n.hs.Commit
			if n.applied > lim {
				lim = n.applied
			}
			if first <= lim {
				p := n.plog()
				for i := range rd.Entries {
					e := &rd.Entries[i]
					if e.Index > lim || e.Index > p.last {
						break
					}
					if e.Index < p.first {
						continue
					}
					if old := &p.ents[e.Index-p.first]; !sameEntry(old, e) {
						s.failf("node %d: rewrites its persisted log at index %d (term %d -> %d), but its persisted commit index is %d and it has applied up to %d",
							n.id, e.Index, old.Term, e.Term, n.hs.Commit, n.applied)
						break
					}
				}
				s.ct.ReEmitted++
			}
		}
		if first > last+1 {
			s.failf("node %d: Ready.Entries start at %d, persisted log ends at %d (gap)", n.id, first, last)
		}
		if err := n.ms.Append(rd.Entries); err != nil {
			s.failf("node %d: storage append: %v", n.id, err)
		}
		if !s.light {
			s.checkOneChangeAtATime(n, rd.Entries, term)
		}
	}
	if !raft.IsEmptyHardState(rd.HardState) {
		h := rd.HardState
		if h.Term < n.hs.Term {
			s.failf("HardState: node %d persisted term regresses %d -> %d", n.id, n.hs.Term, h.Term)
		}
		if h.Commit < n.hs.Commit {
			s.failf("HardState: node %d persisted commit regresses %d -> %d", n.id, n.hs.Commit, h.Commit)
		}
		if h.Term == n.hs.Term && n.hs.Vote != 0 && h.Vote != n.hs.Vote {
			s.failf("HardState: node %d persisted vote changes within term %d: %d -> %d", n.id, h.Term, n.hs.Vote, h.Vote)
		}
		if h.Commit > n.hs.Commit {
			commitAdvanced = h.Commit
		}
		n.hs = h
		_ = n.ms.SetHardState(h)
	}
	if s.fail != "" {
		return true
	}
	s.afterPersist(n)
	if commitAdvanced > 0 && !s.light {
		s.checkCommitQuorum(n, commitAdvanced)
	}
	if stopAt == stopAfterPersist {
		s.crash(n, true)
		return true
	}

	// ---- release messages
	for _, m := range rd.Messages {
		if m.Type == pb.MsgSnap {
			s.ct.SnapSent++
		}
		// What a node tells its peers must rest on what it would still know after a crash at this
		// very moment (everything of this Ready has been persisted above): a granted vote on the
		// persisted (term, vote), an accepted append on the persisted log. Otherwise crash + restart
		// lets it vote twice in a term / lets a leader count an entry that a majority no longer has.
		switch {
		case m.Type == pb.MsgVoteResp && !m.Reject:
			// (a persisted term beyond the message's term is fine: the node moved on before this Ready
			// was taken, and will never vote in the older term again)
			if n.hs.Term < m.Term || (n.hs.Term == m.Term && n.hs.Vote != m.To) {
				s.failf("election safety: node %d grants its vote to %d in term %d, but what it has persisted at that moment is term %d vote %d: after a crash it could vote again in that term",
					n.id, m.To, m.Term, n.hs.Term, n.hs.Vote)
			}
			k := [2]uint64{n.id, m.Term}
			if prev, ok := s.granted[k]; ok && prev != m.To {
				s.failf("election safety: node %d grants its vote to %d in term %d after having granted it to %d in the same term", n.id, m.To, m.Term, prev)
			}
			s.granted[k] = m.To
			s.ct.VotesGranted++
		case m.Type == pb.MsgAppResp && !m.Reject:
			// only within the term the node is still in: an acknowledgement produced for an older
			// leader may describe entries that a newer leader has legitimately overwritten since
			if last, _ := n.ms.LastIndex(); n.hs.Term == m.Term && last < m.Index {
				s.failf("commitment: node %d acknowledges the log up to index %d, but its persisted log ends at %d: the leader may commit an entry this node loses in a crash", n.id, m.Index, last)
			}
		}
		s.send(cloneMsg(m))
	}
	if stopAt == stopAfterSend {
		s.crash(n, true)
		return true
	}

	// ---- apply
	if !raft.IsEmptySnap(rd.Snapshot) {
		n.applied = rd.Snapshot.Metadata.Index
		n.appCS = cloneCS(rd.Snapshot.Metadata.ConfState)
	}
	for i := range rd.CommittedEntries {
		e := &rd.CommittedEntries[i]
		if e.Index != n.applied+1 {
			s.failf("node %d: applied sequence not gap-free: is handed index %d after %d", n.id, e.Index, n.applied)
			return true
		}
		s.handOut(n, term, e)
		if s.fail != "" {
			return true
		}
		var cs *pb.ConfState
		switch e.Type {
		case pb.EntryConfChange:
			var cc pb.ConfChange
			if err := cc.Unmarshal(e.Data); err != nil {
				s.failf("harness bug: conf change does not unmarshal: %v", err)
				return true
			}
			cs = n.rn.ApplyConfChange(cc)
		case pb.EntryConfChangeV2:
			var cc pb.ConfChangeV2
			if err := cc.Unmarshal(e.Data); err != nil {
				s.failf("harness bug: conf change does not unmarshal: %v", err)
				return true
			}
			cs = n.rn.ApplyConfChange(cc)
		}
		n.applied = e.Index
		if cs != nil {
			n.appCS = cloneCS(*cs)
			if l := len(n.confIdx); l == 0 || n.confIdx[l-1] < e.Index {
				n.confIdx = append(n.confIdx, e.Index)
			}
			if prev, ok := s.csAt[e.Index]; ok {
				if err := prev.Equivalent(*cs); err != nil {
					s.failf("conf change at index %d yields %v on node %d but yielded %v before", e.Index, *cs, n.id, prev)
				}
			} else {
				s.csAt[e.Index] = cloneCS(*cs)
				if len(cs.VotersOutgoing) > 0 {
					s.ct.JointCommitted++
				}
			}
		}
	}
	if f := s.beforeAdvance; f != nil {
		s.beforeAdvance = nil
		f(n)
		if s.fail != "" || n.rn == nil {
			return true
		}
	}
	n.rn.Advance(rd)
	return true
}

// deliver steps message m into its target; returns false when the message is lost instead
// (target down or cut off).
func (s *sim) deliver(m pb.Message) bool {
	to := s.node(m.To)
	if to == nil || to.rn == nil || s.cut(m.To) || s.cut(m.From) || (s.parted && (s.side>>m.From)&1 != (s.side>>m.To)&1) {
		s.lose(m, false)
		return false
	}
	if s.trace != nil {
		s.trace("deliver %s", raft.DescribeMessage(m, nil))
	}
	_ = to.rn.Step(m)
	s.ct.Delivered++
	if m.Type == pb.MsgSnap {
		s.ct.SnapDelivered++
		if from := s.node(m.From); from != nil && from.rn != nil {
			from.rn.ReportSnapshot(m.To, raft.SnapshotFinish)
		}
	}
	return true
}

func (s *sim) lose(m pb.Message, reportUnreachable bool) {
	s.ct.Lost++
	if s.trace != nil {
		s.trace("lose %s", raft.DescribeMessage(m, nil))
	}
	from := s.node(m.From)
	if from == nil || from.rn == nil {
		return
	}
	if m.Type == pb.MsgSnap {
		from.rn.ReportSnapshot(m.To, raft.SnapshotFailure)
	} else if reportUnreachable {
		from.rn.ReportUnreachable(m.To)
	}
}

// guard runs f and converts a panic into a failure of the case.
func (s *sim) guard(f func()) {
	defer func() {
		if r := recover(); r != nil {
			st := string(debug.Stack())
			if len(st) > 3000 {
				st = st[:3000]
			}
			s.failf("panic on a schedule that respects the contract: %v\n%s", r, st)
		}
	}()
	f()
}
