// Package c08 checks C08: acknowledged cluster writes survive crashes and restarts.
package c08

import (
	"fmt"
	"os"
	"path/filepath"
	"sort"
	"strconv"
	"strings"
	"sync"
	"testing"
	"time"

	"pgregory.net/rapid"

	"verifharness/gen"
	"verifharness/kit"
	"verifharness/respx"
	"verifharness/srv"
)

func TestMain(m *testing.M) { kit.Main(m, "C08") }

// Phase: writers run (each bound to a node), then a crash event, then restarts.
type Phase struct {
	// DownWriters > 0: while the killed nodes are down (only when a majority is still up), that many
	// further writers run against the surviving nodes before the restart, so that the restarted node
	// has to catch up - through the log or, with a snapshot threshold, through an installed snapshot.
	DownWriters int    `json:"down_writers,omitempty"`
	Writers    []int  `json:"writers"`     // node of each writer
	PerWriter  int    `json:"per_writer"`  // writes per writer
	Kill       []int  `json:"kill"`        // nodes killed (-9) at the crash event
	DuringLoad bool   `json:"during_load"` // kill while the writers are still running
	KillAtMs   int    `json:"kill_at_ms"`  // with DuringLoad: delay after the start of the phase
	Restart    []int  `json:"restart"`     // restart order (a permutation of Kill)
	Kinds      string `json:"kinds"`       // which value types the writers use: "s" strings only | "all"
	// Slow > 0: that many times during the load a client sends a command that keeps the state machine busy
	// for a second (a blocking pop on a list that stays empty is executed inside the apply loop): commit
	// batches then take long to apply, whatever is waiting for "applied" waits long too
	Slow int `json:"slow,omitempty"`
}

type Case struct {
	// TornTail: after a quiet kill of all nodes (every node has applied every write), the last record of
	// this node's log that spans a 512-byte sector boundary loses its sectors from that boundary on - the
	// state a kill leaves when it lands between two write() calls of the record being appended.
	TornTail  int     `json:"torn_tail,omitempty"`
	SnapCount int     `json:"snap_count"` // 0 = the default (10000): no snapshot is ever taken
	CatchUp   int     `json:"catch_up"`
	Phases    []Phase `json:"phases"`
	// CrashPoint (hook H4), if set, makes the nodes in CrashNodes kill themselves the CrashNth time
	// they pass that point of Ready handling during the first phase (instead of being killed from outside)
	CrashPoint string `json:"crash_point,omitempty"`
	CrashNth   int    `json:"crash_nth,omitempty"`
	CrashNodes []int  `json:"crash_nodes,omitempty"`
	// KillRest: after the armed nodes died, the remaining nodes are killed as well, the armed ones are
	// restarted first and must serve on their own (they are a majority) before the rest comes back: an
	// entry that was acknowledged on the strength of their replies must have been durable on them.
	KillRest bool `json:"kill_rest,omitempty"`
	// ArmAtMs > 0: the crash point is armed at run time (hook H4, file form) on all CrashNodes at once,
	// ArmAtMs milliseconds into the load, instead of at their start.
	ArmAtMs int `json:"arm_at_ms,omitempty"`
	// LingerMs: the node stays at the crash point this long before it dies (a slow disk or a pause at
	// that spot); messages it has already handed to the transport get out in the meantime.
	LingerMs int `json:"linger_ms,omitempty"`
	// DownFirst > 0: that node is killed before the load starts and comes back with the first group of
	// restarted nodes: while it is away every acknowledgement rests on the two others, so anything one
	// of them acknowledges to its peer must be durable on it at that moment.
	DownFirst int `json:"down_first,omitempty"`
	// CrashRole ("follower" | "leader"), with DownFirst: the node numbers of the case are roles that are
	// bound when the cluster is up - CrashNodes[0] stands for the node of that role, DownFirst for a
	// follower, the remaining number for the third node.
	CrashRole string `json:"crash_role,omitempty"`
}

var crashPoints = []string{"ready-start", "before-wal-save", "after-wal-save", "after-append", "after-send", "after-publish", "before-advance",
	"before-save-snap", "after-save-snap", "between-snap-file-and-wal-record"}

// genPointCase: one phase of writers while the chosen nodes carry a self-kill at a named point.
func genPointCase(t *rapid.T) Case {
	c := Case{CrashPoint: rapid.SampledFrom(crashPoints).Draw(t, "point"), CrashNth: rapid.SampledFrom([]int{1, 2, 3, 5, 9, 17}).Draw(t, "nth")}
	if strings.Contains(c.CrashPoint, "snap") {
		c.SnapCount, c.CatchUp = 5, 2
		c.CrashNth = rapid.SampledFrom([]int{1, 2}).Draw(t, "snapnth")
	} else if rapid.Bool().Draw(t, "withsnap") {
		c.SnapCount, c.CatchUp = 5, 2
	}
	switch rapid.IntRange(0, 2).Draw(t, "who") {
	case 0:
		c.CrashNodes = []int{1, 2, 3}
	case 1:
		c.CrashNodes = []int{1 + rapid.IntRange(0, 2).Draw(t, "one")}
	default:
		a := 1 + rapid.IntRange(0, 2).Draw(t, "a")
		c.CrashNodes = []int{a, 1 + a%3}
		c.KillRest = rapid.Bool().Draw(t, "killrest")
	}
	c.LingerMs = rapid.SampledFrom([]int{0, 0, 5, 15}).Draw(t, "linger")
	if rapid.IntRange(0, 2).Draw(t, "armlate") > 0 {
		c.ArmAtMs = rapid.SampledFrom([]int{5, 20, 60}).Draw(t, "armat")
		c.CrashNth = rapid.SampledFrom([]int{1, 1, 2, 3}).Draw(t, "armnth")
	}
	p := Phase{PerWriter: rapid.SampledFrom([]int{10, 25}).Draw(t, "per"), Kinds: "all", Kill: c.CrashNodes, Restart: rapid.Permutation(c.CrashNodes).Draw(t, "restart")}
	nw := rapid.IntRange(2, 4).Draw(t, "writers")
	for w := 0; w < nw; w++ {
		p.Writers = append(p.Writers, 1+rapid.IntRange(0, 2).Draw(t, "wnode"))
	}
	c.Phases = []Phase{p}
	return c
}

func genCase(t *rapid.T) Case {
	c := Case{}
	// snapshot settings are generated only when the snapshot findings are not (or no longer) listed
	if !kit.Known("C08-F1") && !kit.Known("C08-F2") {
		c.SnapCount = rapid.SampledFrom([]int{0, 5, 5, 20, 20}).Draw(t, "snapcount")
		// the shipped constants are equal (threshold 10000, catch-up 10000): that is the main
		// configuration; a smaller catch-up is explored too. A larger one makes the compaction index fall
		// behind the previous snapshot, which the code does not expect (not reachable as shipped).
		c.CatchUp = c.SnapCount
		if c.SnapCount > 0 && rapid.IntRange(0, 2).Draw(t, "smallcatchup") == 0 {
			c.CatchUp = 2
		}
	}
	np := rapid.IntRange(1, 3).Draw(t, "phases")
	for i := 0; i < np; i++ {
		p := Phase{PerWriter: rapid.SampledFrom([]int{5, 15, 40}).Draw(t, "per"), Kinds: gen.Pick(t, "kinds", "s", "all", "all")}
		nw := rapid.IntRange(1, 4).Draw(t, "writers")
		if c.SnapCount > 0 {
			nw = rapid.IntRange(4, 12).Draw(t, "manywriters") // commit batches with several commands around snapshot points
		}
		for w := 0; w < nw; w++ {
			p.Writers = append(p.Writers, 1+rapid.IntRange(0, 2).Draw(t, "wnode"))
		}
		switch rapid.IntRange(0, 4).Draw(t, "crash") {
		case 0:
			p.Kill = []int{1, 2, 3} // everything at once
		case 1:
			p.Kill = []int{1 + rapid.IntRange(0, 2).Draw(t, "one")}
		case 2:
			a := 1 + rapid.IntRange(0, 2).Draw(t, "a")
			p.Kill = []int{a, 1 + a%3}
		case 3:
			p.Kill = []int{1, 2, 3}
			p.DuringLoad = true
		default:
			p.Kill = []int{1 + rapid.IntRange(0, 2).Draw(t, "one")}
			p.DuringLoad = true
		}
		if p.DuringLoad {
			p.KillAtMs = rapid.SampledFrom([]int{1, 5, 20, 60}).Draw(t, "killat")
		}
		p.Restart = rapid.Permutation(p.Kill).Draw(t, "restart")
		if len(p.Kill) == 1 && rapid.Bool().Draw(t, "downwrites") {
			p.DownWriters = rapid.IntRange(1, 4).Draw(t, "downwriters")
		}
		c.Phases = append(c.Phases, p)
	}
	return c
}

type write struct {
	cmd   kit.Cmd
	acked bool
}

// ledger of what was written, per key
type ledger struct {
	mu      sync.Mutex
	strs    map[string]write            // key -> SET (each key written once)
	incrAck int                         // INCR ctr
	incrTry int                         //
	list    map[int][]write             // writer -> RPUSH lst <writer>:<seq>, in order
	hash    map[string]write            // field -> HSET h field value
	set     map[string]write            // member -> SADD s member
	vols         map[string]write     // key -> SET key v EX 6
	persisted    map[string]bool      // volatile keys for which a PERSIST has been issued
	persistAcked map[string]time.Time // volatile keys whose PERSIST was acknowledged with 1
}

func execCase(c Case) kit.Outcome {
	var env []string
	if c.SnapCount > 0 {
		env = append(env, "VERIF_SNAPCOUNT="+strconv.Itoa(c.SnapCount), "VERIF_CATCHUP="+strconv.Itoa(c.CatchUp))
	}
	cl, err := srv.StartCluster(srv.ClusterOptions{Size: 3, Env: env, NodeEnv: func(id int, dir string) []string {
		return []string{"VERIF_CRASH_FILE=" + filepath.Join(dir, "crash-now")}
	}})
	if err != nil {
		return kit.Outcome{Fail: "infrastructure: " + err.Error()}
	}
	defer cl.Stop()
	o := kit.Outcome{Labels: []string{fmt.Sprintf("snapcount:%d", c.SnapCount)}}
	if c.CrashPoint != "" && c.ArmAtMs == 0 {
		// re-start the targeted nodes with the self-kill armed (counts start at their restart)
		o.Labels = append(o.Labels, "crashpoint:"+c.CrashPoint)
		for _, n := range c.CrashNodes {
			cl.Kill(n)
			cl.SetNodeEnv(n, []string{fmt.Sprintf("VERIF_CRASH=%s:%d:%d", c.CrashPoint, c.CrashNth, c.LingerMs)})
			if err := cl.StartNode(n); err != nil {
				return kit.Outcome{Fail: "infrastructure: " + err.Error()}
			}
		}
		// the armed nodes may die while becoming ready again; wait only for the cluster as a whole
		time.Sleep(300 * time.Millisecond)
	}
	if c.CrashRole != "" && c.DownFirst > 0 && len(c.CrashNodes) == 1 && len(c.Phases) == 1 {
		lead := 0
		for i := 0; i < 50 && lead == 0; i++ {
			if lead = cl.Leader(); lead == 0 {
				time.Sleep(100 * time.Millisecond)
			}
		}
		if lead == 0 {
			return kit.Outcome{Inconclusive: true, Labels: []string{"no-leader-named"}}
		}
		var followers []int
		for n := 1; n <= 3; n++ {
			if n != lead {
				followers = append(followers, n)
			}
		}
		// roles -> nodes: (armed, down, third)
		oldArmed, oldDown := c.CrashNodes[0], c.DownFirst
		oldThird := 6 - oldArmed - oldDown
		var armed, down, third int
		if c.CrashRole == "leader" {
			armed, down, third = lead, followers[0], followers[1]
		} else {
			armed, down, third = followers[0], followers[1], lead
		}
		m := map[int]int{oldArmed: armed, oldDown: down, oldThird: third}
		ren := func(xs []int) []int {
			out := make([]int, len(xs))
			for i, x := range xs {
				out[i] = m[x]
			}
			return out
		}
		p := c.Phases[0]
		p.Writers, p.Kill, p.Restart = ren(p.Writers), ren(p.Kill), ren(p.Restart)
		c.Phases = []Phase{p}
		c.CrashNodes, c.DownFirst = []int{armed}, down
		o.Labels = append(o.Labels, "armed-role:"+c.CrashRole)
	}
	if c.DownFirst > 0 {
		cl.Kill(c.DownFirst)
		o.Labels = append(o.Labels, "one-node-down-before-load")
		var up []int
		for n := 1; n <= 3; n++ {
			if n != c.DownFirst {
				up = append(up, n)
			}
		}
		if err := cl.WaitServing(20*time.Second, up); err != nil { // a new leader may have to be elected first
			return kit.Outcome{Inconclusive: true, Labels: []string{"two-nodes-not-serving"}}
		}
	}
	lg := &ledger{strs: map[string]write{}, list: map[int][]write{}, hash: map[string]write{}, set: map[string]write{},
		vols: map[string]write{}, persisted: map[string]bool{}, persistAcked: map[string]time.Time{}}
	seq := 0
	for pi, p := range c.Phases {
		var wg sync.WaitGroup
		stop := make(chan struct{})
		startWriter := func(wid, node, n int, kinds string) {
			wg.Add(1)
			go func() {
				defer wg.Done()
				var cn *srv.Conn
				defer func() {
					if cn != nil {
						cn.Close()
					}
				}()
				for i := 0; i < n; i++ {
					select {
					case <-stop:
						return
					default:
					}
					kind := "s"
					if kinds == "all" {
						kind = []string{"s", "i", "l", "h", "t", "v"}[i%6]
					}
					if kinds == "persist" {
						kind = "p"
					}
					id := fmt.Sprintf("w%d-%d", wid, i)
					var cmd kit.Cmd
					switch kind {
					case "s":
						cmd = kit.MkCmd("SET", "k:"+id, "v:"+id)
					case "i":
						cmd = kit.MkCmd("INCR", "ctr")
					case "l":
						cmd = kit.MkCmd("RPUSH", "lst", id)
					case "h":
						cmd = kit.MkCmd("HSET", "h", "f:"+id, "v:"+id)
					case "t":
						cmd = kit.MkCmd("SADD", "s", "m:"+id)
					case "v": // a volatile key with a far deadline ...
						cmd = kit.MkCmd("SET", "vol:"+id, "v:"+id, "EX", "6")
					default: // ... made persistent again later (possibly while a node is down)
						lg.mu.Lock()
						var pick string
						for k, w := range lg.vols {
							if w.acked && !lg.persisted[k] {
								pick = k
								lg.persisted[k] = true
								break
							}
						}
						lg.mu.Unlock()
						if pick == "" {
							cmd = kit.MkCmd("SET", "k:"+id, "v:"+id)
							kind = "s"
						} else {
							cmd = kit.MkCmd("PERSIST", pick)
						}
					}
					if cn == nil {
						var err error
						if cn, err = cl.Dial(node); err != nil {
							return // the node is down: this writer stops
						}
					}
					v, err := cn.Do(5*time.Second, cmd.Bytes()...)
					acked := err == nil && v.Kind != respx.Error
					if err != nil {
						cn.Close()
						cn = nil
					}
					lg.mu.Lock()
					w := write{cmd: cmd, acked: acked}
					switch kind {
					case "s":
						lg.strs["k:"+id] = w
					case "i":
						lg.incrTry++
						if acked {
							lg.incrAck++
						}
					case "l":
						lg.list[wid] = append(lg.list[wid], w)
					case "h":
						lg.hash["f:"+id] = w
					case "t":
						lg.set["m:"+id] = w
					case "v":
						lg.vols["vol:"+id] = w
					default:
						// PERSIST acknowledged with :1 -> the key has no deadline any more, on every replica
						if acked && v.Kind == respx.Integer && v.Int == 1 {
							lg.persistAcked[string(cmd[1])] = time.Now()
						}
					}
					lg.mu.Unlock()
					if err != nil {
						return
					}
				}
			}()
		}
		for wi, node := range p.Writers {
			startWriter(pi*100+wi, node, p.PerWriter, p.Kinds)
		}
		if p.Slow > 0 {
			wg.Add(1)
			go func(n int) {
				defer wg.Done()
				for i := 0; i < n; i++ {
					time.Sleep(time.Duration(40+60*i) * time.Millisecond)
					if cn, err := cl.Dial(1 + i%3); err == nil {
						_, _ = cn.DoS(4*time.Second, "BLPOP", "never:pushed:to", "1")
						cn.Close()
					}
				}
			}(p.Slow)
		}
		kill := func() {
			for _, n := range p.Kill {
				cl.Kill(n)
			}
		}
		if c.CrashPoint != "" && pi == 0 {
			if c.ArmAtMs > 0 {
				time.Sleep(time.Duration(c.ArmAtMs) * time.Millisecond)
				for _, n := range c.CrashNodes {
					// written under another name and renamed: the node must never see the file half-written
					tmp := filepath.Join(cl.Nodes[n-1].Dir, "crash-now.tmp")
					_ = os.WriteFile(tmp, []byte(fmt.Sprintf("%s:%d:%d", c.CrashPoint, c.CrashNth, c.LingerMs)), 0o644)
					_ = os.Rename(tmp, filepath.Join(cl.Nodes[n-1].Dir, "crash-now"))
				}
			}
			wg.Wait()
			died := 0
			for _, n := range p.Kill {
				if !cl.Alive(n) {
					died++
				}
				cl.SetNodeEnv(n, nil) // the restart runs without the self-kill
				_ = os.Remove(filepath.Join(cl.Nodes[n-1].Dir, "crash-now"))
			}
			o.Labels = append(o.Labels, fmt.Sprintf("crashpoint-nodes-that-died:%d-of-%d", died, len(p.Kill)))
			lg.mu.Lock()
			nack := lg.incrAck
			for _, w := range lg.strs {
				if w.acked {
					nack++
				}
			}
			lg.mu.Unlock()
			o.Labels = append(o.Labels, fmt.Sprintf("acked-before-crash>=%d", nack/10*10))
			kill()
		} else if p.DuringLoad {
			time.Sleep(time.Duration(p.KillAtMs) * time.Millisecond)
			kill()
			wg.Wait()
		} else {
			wg.Wait()
			if p.Slow > 0 {
				// a last burst: a command that keeps the state machine busy for a second and, right behind it
				// through the same node, one write each from a dozen connections - the commit batch that crosses
				// the snapshot threshold last is one that takes long to apply. Everything is acknowledged before
				// the nodes are killed; nothing follows, so the snapshots taken now are the newest ones.
				node := 1 + seq%3
				for b := 0; b < 12; b++ {
					if b%5 == 0 {
						wg.Add(1)
						go func() {
							defer wg.Done()
							if cn, err := cl.Dial(node); err == nil {
								_, _ = cn.DoS(6*time.Second, "BLPOP", "never:pushed:to", "1")
								cn.Close()
							}
						}()
					}
					startWriter(pi*100+50+b, node, 1, "all")
				}
				wg.Wait()
				time.Sleep(300 * time.Millisecond)
			}
			if c.TornTail > 0 {
				// every node must hold every entry before one log is torn (the torn record then belongs
				// to a write that a majority still has)
				_ = cl.WaitServing(20*time.Second, []int{1, 2, 3})
			}
			kill()
		}
		close(stop)
		seq++
		if c.TornTail > 0 && pi == 0 {
			if msg := tearTail(filepath.Join(cl.Nodes[c.TornTail-1].Dir, fmt.Sprintf("raftexample-%d", c.TornTail))); msg != "" {
				o.Labels = append(o.Labels, "torn-tail:"+msg)
			} else {
				o.Labels = append(o.Labels, "torn-tail:applied")
			}
		}
		if p.DownWriters > 0 && len(p.Kill) == 1 {
			// the survivors keep taking writes (incl. PERSIST of volatile keys) while one node is down
			stop = make(chan struct{})
			up := []int{}
			for n := 1; n <= 3; n++ {
				if n != p.Kill[0] {
					up = append(up, n)
				}
			}
			for w := 0; w < p.DownWriters; w++ {
				kinds := "s"
				if w == 0 {
					kinds = "persist"
				}
				startWriter(pi*100+50+w, up[w%2], 30, kinds)
			}
			wg.Wait()
			close(stop)
		}
		var rest []int
		if c.CrashPoint != "" && c.KillRest && pi == 0 {
			for n := 1; n <= 3; n++ {
				armed := false
				for _, a := range c.CrashNodes {
					if a == n {
						armed = true
					}
				}
				for _, a := range p.Restart {
					if a == n {
						armed = true // comes back with the first group
					}
				}
				if !armed {
					cl.Kill(n)
					rest = append(rest, n)
				}
			}
		}
		for _, n := range p.Restart {
			if err := cl.StartNode(n); err != nil {
				return kit.Outcome{Fail: "infrastructure: restart: " + err.Error()}
			}
			time.Sleep(50 * time.Millisecond)
		}
		if len(rest) > 0 {
			// the restarted majority must come back on its own before the others return
			if err := cl.WaitServing(40*time.Second, p.Restart); err != nil {
				o.Inconclusive = true
				o.Labels = append(o.Labels, "majority-not-serving-alone")
				return o
			}
			o.Labels = append(o.Labels, "majority-restarted-first")
			// what was acknowledged must already be there: these two are a majority, and a node that
			// returns later can only follow them
			if msg := verifyNodes(cl, lg, p.Restart); msg != "" {
				o.Fail = fmt.Sprintf("phase %d: nodes %v restarted first and serve as the majority (the others are still down): %s", pi, p.Restart, msg)
				return o
			}
			for _, n := range rest {
				if err := cl.StartNode(n); err != nil {
					return kit.Outcome{Fail: "infrastructure: restart: " + err.Error()}
				}
			}
		}
		// the cluster must serve again; a node that died with a panic is a violation, mere slowness is not
		if err := cl.WaitServing(40*time.Second, []int{1, 2, 3}); err != nil {
			logs := cl.Logs(1500)
			for n := 1; n <= 3; n++ {
				if rep := cl.CrashReport(n); rep != "" {
					o.Fail = fmt.Sprintf("phase %d: after the restart node %d is down with: %.700s", pi, n, rep)
					return o
				}
			}
			if strings.Contains(logs, "log.Fatal") || strings.Contains(logs, "raftexample:") {
				o.Fail = fmt.Sprintf("phase %d: the cluster does not serve again after the restart: %v\n%.1200s", pi, err, logs)
				return o
			}
			o.Inconclusive = true
			o.Labels = append(o.Labels, "not-serving-after-restart")
			return o
		}
		if msg := verify(cl, lg); msg != "" {
			o.Fail = fmt.Sprintf("phase %d (killed %v%s, restarted in order %v, snapshot every %d entries): %s", pi, p.Kill,
				map[bool]string{true: " during load", false: ""}[p.DuringLoad], p.Restart, c.SnapCount, msg)
			return o
		}
		o.NonTrivial = true
	}
	// keys that were made persistent must outlive their old deadline on every node
	lg.mu.Lock()
	var latest time.Time
	for _, at := range lg.persistAcked {
		if at.After(latest) {
			latest = at
		}
	}
	lg.mu.Unlock()
	if !latest.IsZero() {
		if d := time.Until(latest.Add(7200 * time.Millisecond)); d > 0 {
			time.Sleep(d)
		}
		o.Labels = append(o.Labels, "persisted-volatile-keys-checked")
		if msg := verify(cl, lg); msg != "" && o.Fail == "" {
			o.Fail = "after the old deadlines of keys made persistent: " + msg
		}
	}
	for n := 1; n <= 3; n++ {
		if !cl.Alive(n) {
			o.Fail = fmt.Sprintf("node %d is down at the end: %.600s", n, cl.CrashReport(n))
		}
	}
	return o
}

// verify reads every key through every node and checks it against the ledger: acknowledged writes are
// mandatory, unacknowledged in-flight ones optional, nothing else may appear.
func verify(cl *srv.Cluster, lg *ledger) string { return verifyNodes(cl, lg, []int{1, 2, 3}) }

func verifyNodes(cl *srv.Cluster, lg *ledger, nodes []int) string {
	lg.mu.Lock()
	defer lg.mu.Unlock()
	for _, n := range nodes {
		cn, err := cl.Dial(n)
		if err != nil {
			return fmt.Sprintf("node %d refuses connections after it served a write: %v; %.600s", n, err, cl.CrashReport(n))
		}
		// barrier: the node has applied everything that precedes this acknowledged write
		if _, err := cn.DoS(15*time.Second, "SET", "__ready:barrier", "1"); err != nil {
			cn.Close()
			return fmt.Sprintf("node %d: barrier write failed: %v", n, err)
		}
		get := func(args ...string) (respx.Value, string) {
			v, err := cn.DoS(10*time.Second, args...)
			if err != nil {
				return v, fmt.Sprintf("node %d: %v failed: %v", n, args, err)
			}
			return v, ""
		}
		keys := make([]string, 0, len(lg.strs))
		for k := range lg.strs {
			keys = append(keys, k)
		}
		sort.Strings(keys)
		for _, k := range keys {
			w := lg.strs[k]
			v, bad := get("GET", k)
			if bad != "" {
				cn.Close()
				return bad
			}
			want := string(w.cmd[2])
			if v.Null {
				if w.acked {
					cn.Close()
					return fmt.Sprintf("acknowledged write %s is lost: GET through node %d returns nil", w.cmd.String(), n)
				}
				continue
			}
			if string(v.Str) != want {
				cn.Close()
				return fmt.Sprintf("key %q reads %s through node %d, the only write to it was %s", k, v.String(), n, w.cmd.String())
			}
		}
		if lg.incrTry > 0 {
			v, bad := get("GET", "ctr")
			if bad != "" {
				cn.Close()
				return bad
			}
			got := 0
			if !v.Null {
				got, _ = strconv.Atoi(string(v.Str))
			}
			if got < lg.incrAck || got > lg.incrTry {
				cn.Close()
				return fmt.Sprintf("counter reads %d through node %d: %d INCRs were acknowledged, %d attempted (lost or duplicated application)", got, n, lg.incrAck, lg.incrTry)
			}
		}
		if len(lg.list) > 0 {
			v, bad := get("LRANGE", "lst", "0", "-1")
			if bad != "" {
				cn.Close()
				return bad
			}
			pos := map[string]int{}
			for i, e := range v.Arr {
				if _, dup := pos[string(e.Str)]; dup {
					cn.Close()
					return fmt.Sprintf("list element %q appears twice through node %d (an entry was applied twice)", e.Str, n)
				}
				pos[string(e.Str)] = i
			}
			known := map[string]bool{}
			for _, ws := range lg.list {
				last := -1
				for _, w := range ws {
					id := string(w.cmd[2])
					known[id] = true
					p, ok := pos[id]
					if !ok {
						if w.acked {
							cn.Close()
							return fmt.Sprintf("acknowledged write %s is lost: the list read through node %d does not contain it", w.cmd.String(), n)
						}
						continue
					}
					if p < last {
						cn.Close()
						return fmt.Sprintf("list elements of one writer are out of order through node %d: %q before an earlier push", n, id)
					}
					last = p
				}
			}
			for id := range pos {
				if !known[id] {
					cn.Close()
					return fmt.Sprintf("list element %q read through node %d was never pushed", id, n)
				}
			}
		}
		for f, w := range lg.hash {
			v, bad := get("HGET", "h", f)
			if bad != "" {
				cn.Close()
				return bad
			}
			if v.Null && w.acked {
				cn.Close()
				return fmt.Sprintf("acknowledged write %s is lost: HGET through node %d returns nil", w.cmd.String(), n)
			}
			if !v.Null && string(v.Str) != string(w.cmd[3]) {
				cn.Close()
				return fmt.Sprintf("hash field %q reads %s through node %d, written %s", f, v.String(), n, w.cmd.String())
			}
		}
		for k, at := range lg.persistAcked {
			// PERSIST was acknowledged: the key has no deadline on any replica; check it once the old
			// deadline (6 s after the SET) has certainly passed
			if time.Since(at) < 7*time.Second {
				continue
			}
			v, bad := get("GET", k)
			if bad != "" {
				cn.Close()
				return bad
			}
			if v.Null {
				cn.Close()
				return fmt.Sprintf("key %q was made persistent (PERSIST acknowledged) but has expired when read through node %d", k, n)
			}
		}
		for m, w := range lg.set {
			v, bad := get("SISMEMBER", "s", m)
			if bad != "" {
				cn.Close()
				return bad
			}
			if v.Int == 0 && w.acked {
				cn.Close()
				return fmt.Sprintf("acknowledged write %s is lost: SISMEMBER through node %d returns 0", w.cmd.String(), n)
			}
		}
		cn.Close()
	}
	return ""
}

func TestCrashRestart(t *testing.T) {
	kit.Check(t, kit.Spec[Case]{Sub: "crash", Quick: 3, Thorough: 12, Gen: genCase, Exec: execCase, NoShrink: !kit.Thorough()})
}

// genMajorityCase: the scenario behind "the WAL is written before entries are published or
// acknowledged": two nodes (a majority) die at the same point of Ready handling while under load, a
// moment after reaching it (so that whatever they handed to the transport gets out), then the third
// node is killed too; the two come back first and must serve alone before the third returns. Anything
// that was acknowledged on the strength of their replies must have been durable on them.
func genMajorityCase(t *rapid.T) Case {
	a := 1 + rapid.IntRange(0, 2).Draw(t, "a")
	c := Case{CrashPoint: rapid.SampledFrom([]string{"after-append", "after-send", "after-publish", "before-wal-save", "after-wal-save", "before-advance"}).Draw(t, "point"),
		CrashNth: 1, CrashNodes: []int{a, 1 + a%3}, KillRest: true,
		ArmAtMs: rapid.SampledFrom([]int{10, 25, 50, 80}).Draw(t, "armat"), LingerMs: rapid.SampledFrom([]int{5, 10, 20}).Draw(t, "linger")}
	p := Phase{PerWriter: 60, Kinds: "all", Kill: c.CrashNodes, Restart: rapid.Permutation(c.CrashNodes).Draw(t, "restart")}
	nw := rapid.IntRange(3, 5).Draw(t, "writers")
	for w := 0; w < nw; w++ {
		p.Writers = append(p.Writers, 1+rapid.IntRange(0, 2).Draw(t, "wnode"))
	}
	c.Phases = []Phase{p}
	return c
}

// genSnapshotLoad: a low snapshot threshold under many concurrent writers (commit batches carry
// several commands, snapshots are taken every few entries), then every node is killed once the load is
// over and restarted: each node comes back from its newest snapshot plus the log behind it, so a
// snapshot that does not contain exactly the entries up to its index loses or duplicates writes.
func genSnapshotLoad(t *rapid.T) Case {
	c := Case{SnapCount: rapid.SampledFrom([]int{3, 5, 8}).Draw(t, "snapcount")}
	c.CatchUp = c.SnapCount
	np := rapid.IntRange(1, 2).Draw(t, "phases")
	for i := 0; i < np; i++ {
		p := Phase{PerWriter: rapid.SampledFrom([]int{20, 40}).Draw(t, "per"), Kinds: "all", Kill: []int{1, 2, 3}, Restart: rapid.Permutation([]int{1, 2, 3}).Draw(t, "restart")}
		if rapid.Bool().Draw(t, "slow") {
			p.Slow = rapid.IntRange(1, 3).Draw(t, "nslow")
		}
		nw := rapid.IntRange(8, 16).Draw(t, "writers")
		for w := 0; w < nw; w++ {
			p.Writers = append(p.Writers, 1+rapid.IntRange(0, 2).Draw(t, "wnode"))
		}
		c.Phases = append(c.Phases, p)
	}
	return c
}

func TestSnapshotUnderLoad(t *testing.T) {
	kit.Check(t, kit.Spec[Case]{Sub: "crash", Quick: 1, Thorough: 12, Gen: genSnapshotLoad, Exec: execCase, NoShrink: !kit.Thorough()})
}

// tearTail zeroes the tail of the newest WAL segment from a sector boundary inside one of its last
// records to the end of the written data. Returns "" when a record was torn.
func tearTail(walDir string) string {
	names, _ := filepath.Glob(filepath.Join(walDir, "*.wal"))
	if len(names) == 0 {
		return "no wal segment"
	}
	sort.Strings(names)
	f := names[len(names)-1]
	b, err := os.ReadFile(f)
	if err != nil {
		return err.Error()
	}
	// walk the frames: 8-byte little-endian length field (low 56 bits = record bytes, bit 63 set => bits 56-58 = padding)
	type rec struct{ s, e int }
	var recs []rec
	off := 0
	for off+8 <= len(b) {
		l := int64(0)
		for i := 7; i >= 0; i-- {
			l = l<<8 | int64(b[off+i])
		}
		if l == 0 {
			break
		}
		n := int(uint64(l) & 0x00ffffffffffffff)
		pad := 0
		if l < 0 {
			pad = int((uint64(l) >> 56) & 0x7)
		}
		end := off + 8 + n + pad
		if n <= 0 || end > len(b) {
			break
		}
		recs = append(recs, rec{off, end})
		off = end
	}
	if len(recs) < 4 {
		return "too few records"
	}
	endOfData := recs[len(recs)-1].e
	for i := len(recs) - 1; i >= len(recs)-6 && i > 2; i-- {
		bnd := (recs[i].s/512 + 1) * 512
		if bnd < recs[i].e && bnd > recs[i].s+8 {
			for j := bnd; j < endOfData; j++ {
				b[j] = 0
			}
			if err := os.WriteFile(f, b, 0o600); err != nil {
				return err.Error()
			}
			return ""
		}
	}
	return "no record spans a sector boundary"
}

// genTornCase: quiet kill of everything, one node's log gets a torn final record, everything restarts.
func genTornCase(t *rapid.T) Case {
	c := Case{TornTail: 1 + rapid.IntRange(0, 2).Draw(t, "node")}
	p := Phase{PerWriter: rapid.SampledFrom([]int{15, 40}).Draw(t, "per"), Kinds: "all", Kill: []int{1, 2, 3}, Restart: rapid.Permutation([]int{1, 2, 3}).Draw(t, "restart")}
	nw := rapid.IntRange(2, 6).Draw(t, "writers")
	for w := 0; w < nw; w++ {
		p.Writers = append(p.Writers, 1+rapid.IntRange(0, 2).Draw(t, "wnode"))
	}
	c.Phases = []Phase{p}
	return c
}

func TestTornLogTail(t *testing.T) {
	q := 0
	if kit.Shard()%2 == 0 {
		q = 1
	}
	kit.Check(t, kit.Spec[Case]{Sub: "crash", Quick: q, Thorough: 6, Gen: genTornCase, Exec: execCase, NoShrink: !kit.Thorough()})
}

// genLonePeerCase: node T is down from the start, F carries a crash point, the load runs against L and
// F; after F died L is killed too, F and T come back first and must serve on their own. Whatever L
// acknowledged to a client rested on F's reply alone, so it must be in F's log.
func genLonePeerCase(t *rapid.T) Case {
	perm := rapid.Permutation([]int{1, 2, 3}).Draw(t, "roles")
	f, down, other := perm[0], perm[1], perm[2]
	c := Case{CrashPoint: rapid.SampledFrom([]string{"ready-start", "before-wal-save", "after-wal-save", "after-append", "after-send", "after-publish", "before-advance"}).Draw(t, "point"),
		CrashNth: rapid.SampledFrom([]int{1, 1, 2, 3, 5}).Draw(t, "nth"), CrashNodes: []int{f}, KillRest: true, DownFirst: down,
		ArmAtMs: rapid.SampledFrom([]int{10, 25, 50, 80}).Draw(t, "armat"), LingerMs: rapid.SampledFrom([]int{5, 10, 20}).Draw(t, "linger"),
		CrashRole: rapid.SampledFrom([]string{"follower", "follower", "leader"}).Draw(t, "role")}
	p := Phase{PerWriter: 60, Kinds: "all", Kill: []int{f}, Restart: []int{f, down}}
	if rapid.Bool().Draw(t, "downfirst") {
		p.Restart = []int{down, f}
	}
	nw := rapid.IntRange(3, 6).Draw(t, "writers")
	for w := 0; w < nw; w++ {
		p.Writers = append(p.Writers, []int{other, other, f}[rapid.IntRange(0, 2).Draw(t, "wnode")])
	}
	c.Phases = []Phase{p}
	return c
}

func TestLonePeerLosesTail(t *testing.T) {
	kit.Check(t, kit.Spec[Case]{Sub: "crash", Quick: 2, Thorough: 12, Gen: genLonePeerCase, Exec: execCase, NoShrink: !kit.Thorough()})
}

func TestMajorityLosesTail(t *testing.T) {
	kit.Check(t, kit.Spec[Case]{Sub: "crash", Quick: 2, Thorough: 25, Gen: genMajorityCase, Exec: execCase, NoShrink: !kit.Thorough()})
}

// TestCrashPoints: deterministic crash points inside Ready handling and snapshotting (hook H4).
func TestCrashPoints(t *testing.T) {
	kit.Check(t, kit.Spec[Case]{Sub: "crash", Quick: 2, Thorough: 20, Gen: genPointCase, Exec: execCase, NoShrink: !kit.Thorough()})
}

// witnesses of the recorded snapshot findings are plain cases with a snapshot threshold
func TestReplay(t *testing.T) {
	kit.Replay[Case](t, map[string]func(kit.RawCase) kit.Outcome{"crash": kit.ReplaySub(execCase), "snap": kit.ReplaySub(execSnap), "big": kit.ReplaySub(execBig)})
}
