package c08

import (
	"bytes"
	"crypto/sha1"
	"fmt"
	"testing"
	"time"

	"pgregory.net/rapid"

	"verifharness/kit"
	"verifharness/respx"
	"verifharness/srv"
)

// BigCase: one acknowledged write whose value is large (the parser admits bulk strings of hundreds of
// megabytes; a log entry then is larger than a WAL segment), among small ones; every node is killed and
// restarted; every node must return the value byte for byte.
type BigCase struct {
	MiB   int `json:"mib"`
	Small int `json:"small"`
}

func execBig(c BigCase) kit.Outcome {
	cl, err := srv.StartCluster(srv.ClusterOptions{Size: 3})
	if err != nil {
		return kit.Outcome{Inconclusive: true, Labels: []string{"infrastructure: " + err.Error()}}
	}
	defer cl.Stop()
	o := kit.Outcome{NonTrivial: c.MiB >= 1, Labels: []string{fmt.Sprintf("big-value-MiB:%d", c.MiB)}}
	cn, err := cl.Dial(1)
	if err != nil {
		return kit.Outcome{Inconclusive: true}
	}
	for i := 0; i < c.Small; i++ {
		if _, err := cn.DoS(8*time.Second, "SET", fmt.Sprintf("small%d", i), "v"); err != nil {
			cn.Close()
			return kit.Outcome{Inconclusive: true, Labels: []string{"small write not acknowledged"}}
		}
	}
	big := bytes.Repeat([]byte("0123456789abcdef"), c.MiB*65536)
	for i := 0; i < len(big); i += 4099 {
		big[i] = byte(i)
	}
	sum := sha1.Sum(big)
	v, err := cn.Do(90*time.Second, []byte("SET"), []byte("big"), big)
	if err != nil || v.Kind != respx.Simple {
		cn.Close()
		// not acknowledged: nothing is promised
		o.Inconclusive = true
		o.Labels = append(o.Labels, "big write not acknowledged")
		return o
	}
	if _, err := cn.DoS(8*time.Second, "SET", "after", "v"); err != nil {
		cn.Close()
		return kit.Outcome{Inconclusive: true}
	}
	cn.Close()
	time.Sleep(300 * time.Millisecond)
	for n := 1; n <= 3; n++ {
		cl.Kill(n)
	}
	for n := 1; n <= 3; n++ {
		if err := cl.StartNode(n); err != nil {
			return kit.Outcome{Inconclusive: true}
		}
	}
	if err := cl.WaitServing(90*time.Second, []int{1, 2, 3}); err != nil {
		for n := 1; n <= 3; n++ {
			if !cl.Alive(n) {
				o.Fail = fmt.Sprintf("after an acknowledged write of %d MiB and a restart of every node, node %d does not come back: %.500s", c.MiB, n, cl.CrashReport(n))
				return o
			}
		}
		o.Inconclusive = true
		o.Labels = append(o.Labels, "cluster-not-serving-after-restart")
		return o
	}
	for n := 1; n <= 3; n++ {
		rc, err := cl.Dial(n)
		if err != nil {
			return kit.Outcome{Inconclusive: true}
		}
		g, err := rc.DoS(60*time.Second, "GET", "big")
		rc.Close()
		if err != nil {
			o.Inconclusive = true
			return o
		}
		if g.Null || len(g.Str) != len(big) || sha1.Sum(g.Str) != sum {
			o.Fail = fmt.Sprintf("acknowledged write SET big <%d MiB> is lost: after a restart of every node GET through node %d returns %d bytes (null: %v)", c.MiB, n, len(g.Str), g.Null)
			return o
		}
	}
	return o
}

func TestBigValue(t *testing.T) {
	q := 0
	if kit.Shard() == 1 {
		q = 1 // one such case per quick run
	}
	kit.Check(t, kit.Spec[BigCase]{Sub: "big", Quick: q, Thorough: 1, NoShrink: true,
		Gen: func(t *rapid.T) BigCase {
			return BigCase{MiB: rapid.SampledFrom([]int{33, 33, 8, 70}).Draw(t, "mib"), Small: rapid.IntRange(3, 20).Draw(t, "small")}
		},
		Exec: execBig})
}
