package c08

import (
	"fmt"
	"sort"
	"strconv"
	"strings"
	"testing"

	"pgregory.net/rapid"

	"verifharness/c01"
	"verifharness/c09"
	"verifharness/c10"
	"verifharness/c11"
	"verifharness/c12"
	"verifharness/c18"
	"verifharness/gen"
	"verifharness/inproc"
	"verifharness/kit"
	"verifharness/respx"
)

// Snapshot round trip (in-process). What a restarted node, or a follower that is caught up by the
// leader, knows about everything before the snapshot index is exactly what GetSnapshot wrote and
// LoadSnapshot read back, so "acknowledged writes survive snapshotting" needs, for every keyspace a
// command program can build:
//   (1) GetSnapshot succeeds (a failing snapshot takes the node down: raftexample panics on it);
//   (2) a fresh keyspace loaded from the bytes is observably equal to the original one: same keys,
//       same types, same contents (binary-safe, empty values, ties, infinities), same deadlines,
//       and the restored structures are internally sound;
//   (3) it stays equal: the same further commands get the same replies on both (what the restored
//       node does with the log entries that follow the snapshot).
// The oracle is differential - original against restored, both RedisGO - so other properties' defects
// cancel out; programs come from the generators of C01, C09-C12 and C18 plus hostile values.

type SnapCase struct {
	Build []kit.Cmd `json:"build"`
	Tail  []kit.Cmd `json:"tail"`
	// Stale: what the keyspace that receives the snapshot held before (a follower that fell behind and is
	// caught up by the leader's snapshot is not empty); nothing of it may survive the load
	Stale []kit.Cmd `json:"stale,omitempty"`
}

func skipAlways(cmd kit.Cmd) bool {
	if len(cmd) == 0 {
		return true
	}
	switch strings.ToLower(string(cmd[0])) {
	case "blpop", "brpop", "blmove", "subscribe", "publish", "select", "rconf", "member":
		return true
	}
	return false
}

// skipTail: commands whose reply legitimately differs between two equal keyspaces
func skipTail(cmd kit.Cmd) bool {
	if skipAlways(cmd) {
		return true
	}
	switch strings.ToLower(string(cmd[0])) {
	case "spop", "srandmember", "hrandfield":
		return true
	case "xadd":
		for _, a := range cmd[1:] {
			if string(a) == "*" || strings.HasSuffix(string(a), "-*") {
				return true
			}
		}
	}
	return false
}

func genHostileBuild(t *rapid.T) []kit.Cmd {
	vals := []string{"", " ", "a b", "\r\n", "\x00", "\x80", "\xff\xfe", "\"q\"", "\\u0041", "{\"j\":1}", "ü", "\xed\xa0\x80", "x\x00y"}
	v := func() string { return rapid.SampledFrom(vals).Draw(t, "hv") }
	k := func() string { return gen.Pick(t, "hk", "k", "k 1", "", "K", "k\r\n", "\xffk", "z", "x") }
	sc := func() string { return gen.Pick(t, "hs", "1", "1", "2", "-1", "inf", "-inf", "+inf", "1e308", "-0", "0.1", "3.0000000000000004", "1e-320") }
	var out []kit.Cmd
	for i, n := 0, rapid.IntRange(2, 14).Draw(t, "n"); i < n; i++ {
		switch rapid.IntRange(0, 8).Draw(t, "hop") {
		case 0:
			out = append(out, kit.MkCmd("SET", k(), v()))
		case 1:
			out = append(out, kit.MkCmd("RPUSH", k(), v(), v(), v()))
		case 2:
			out = append(out, kit.MkCmd("SADD", k(), v(), v()))
		case 3:
			out = append(out, kit.MkCmd("HSET", k(), v(), v(), v(), v()))
		case 4:
			out = append(out, kit.MkCmd("ZADD", k(), sc(), v(), sc(), v(), sc(), v()))
		case 5:
			out = append(out, kit.MkCmd("XADD", k(), fmt.Sprintf("%d-%d", i+1, i), v(), v(), v(), v()))
		case 6:
			out = append(out, kit.MkCmd("EXPIRE", k(), gen.Pick(t, "ttl", "1000", "5000", "100000")))
		case 7:
			out = append(out, kit.MkCmd("XADD", k(), "MAXLEN", "1", fmt.Sprintf("%d-0", 100+i), v(), v()))
		default:
			out = append(out, kit.MkCmd("DEL", k()))
		}
	}
	return out
}

func genSnapCase(t *rapid.T) SnapCase {
	var c SnapCase
	part := func(label string) []kit.Cmd {
		switch gen.Pick(t, label, "strings", "lists", "hashes", "sets", "zsets", "streams", "hostile", "hostile") {
		case "strings":
			return c01.GenProgram(t).Ops
		case "lists":
			return c09.GenProgram(t).Ops
		case "hashes":
			return c10.GenProgram(t).Ops
		case "sets":
			return c11.GenProgram(t).Ops
		case "zsets":
			return c12.GenProgram(t).Ops
		case "streams":
			return c18.GenProgram(t).Ops
		}
		return genHostileBuild(t)
	}
	for i, n := 0, rapid.IntRange(1, 3).Draw(t, "parts"); i < n; i++ {
		for _, op := range part("family") {
			if !skipAlways(op) {
				c.Build = append(c.Build, op)
			}
		}
	}
	for _, op := range part("tailfamily") {
		if !skipTail(op) {
			c.Tail = append(c.Tail, op)
		}
	}
	if rapid.Bool().Draw(t, "stale") {
		for _, op := range part("stalefamily") {
			if !skipAlways(op) {
				c.Stale = append(c.Stale, op)
			}
		}
		// the same keys with other deadlines, other types, other contents
		for i, n := 0, rapid.IntRange(0, 4).Draw(t, "staleexp"); i < n; i++ {
			k := gen.Pick(t, "sk", "vol", "k", "s1", "h1", "z1", "x1", "l1", "Foo", "foo", "a")
			if rapid.Bool().Draw(t, "sw") {
				c.Stale = append(c.Stale, kit.MkCmd("SET", k, "stale"))
			}
			c.Stale = append(c.Stale, kit.MkCmd("EXPIRE", k, gen.Pick(t, "sttl", "3", "100", "7000")))
		}
		if len(c.Stale) > 60 {
			c.Stale = c.Stale[:60]
		}
	}
	if len(c.Build) > 120 {
		c.Build = c.Build[:120]
	}
	if len(c.Tail) > 40 {
		c.Tail = c.Tail[:40]
	}
	return c
}

type keyObs struct {
	typ, content string
	ttl          int64
}

func doS(db *inproc.DB, args ...string) (respx.Value, string) {
	cmd := make([][]byte, len(args))
	for i, a := range args {
		cmd[i] = []byte(a)
	}
	r := db.Do(cmd)
	if r.Panic != "" {
		return respx.Value{}, fmt.Sprintf("%q panicked: %.300s", args, r.Panic)
	}
	if r.DecErr != nil {
		return respx.Value{}, fmt.Sprintf("%q: malformed reply %q", args, r.Raw)
	}
	return r.Val, ""
}

func canonReply(name string, v respx.Value) string {
	step := map[string]int{"smembers": 1, "sunion": 1, "sinter": 1, "sdiff": 1, "hkeys": 1, "hvals": 1, "keys": 1, "hgetall": 2}[strings.ToLower(name)]
	if step > 0 && v.Kind == respx.Array && !v.Null {
		var items []string
		for i := 0; i+step <= len(v.Arr); i += step {
			s := v.Arr[i].String()
			if step == 2 {
				s += "=>" + v.Arr[i+1].String()
			}
			items = append(items, s)
		}
		sort.Strings(items)
		return "unordered[" + strings.Join(items, " ") + "]"
	}
	return v.String()
}

// observe reads the whole keyspace through commands.
func observe(db *inproc.DB) (map[string]keyObs, string) {
	v, bad := doS(db, "KEYS", "*")
	if bad != "" {
		return nil, bad
	}
	out := map[string]keyObs{}
	for _, e := range v.Arr {
		k := string(e.Str)
		t, bad := doS(db, "TYPE", k)
		if bad != "" {
			return nil, bad
		}
		var read []string
		switch string(t.Str) {
		case "string":
			read = []string{"GET", k}
		case "list":
			read = []string{"LRANGE", k, "0", "-1"}
		case "set":
			read = []string{"SMEMBERS", k}
		case "hash":
			read = []string{"HGETALL", k}
		case "zset":
			read = []string{"ZRANGE", k, "0", "-1", "WITHSCORES"}
		case "stream":
			read = []string{"XRANGE", k, "-", "+"}
		default:
			read = []string{"EXISTS", k}
		}
		r, bad := doS(db, read...)
		if bad != "" {
			return nil, bad
		}
		ttl, bad := doS(db, "TTL", k)
		if bad != "" {
			return nil, bad
		}
		out[k] = keyObs{typ: t.String(), content: canonReply(read[0], r), ttl: ttl.Int}
	}
	return out, ""
}

func diffObs(a, b map[string]keyObs) string {
	var ks []string
	for k := range a {
		ks = append(ks, k)
	}
	for k := range b {
		if _, ok := a[k]; !ok {
			ks = append(ks, k)
		}
	}
	sort.Strings(ks)
	for _, k := range ks {
		x, okx := a[k]
		y, oky := b[k]
		switch {
		case !oky:
			return fmt.Sprintf("key %q (%s %.200s) is missing after the restore", k, x.typ, x.content)
		case !okx:
			return fmt.Sprintf("key %q (%s %.200s) exists only after the restore", k, y.typ, y.content)
		case x.typ != y.typ || x.content != y.content:
			return fmt.Sprintf("key %q: before %s %.300s, after the restore %s %.300s", k, x.typ, x.content, y.typ, y.content)
		case (x.ttl < 0 || y.ttl < 0) && x.ttl != y.ttl, x.ttl-y.ttl > 1, y.ttl-x.ttl > 1:
			return fmt.Sprintf("key %q: TTL %d before, %d after the restore", k, x.ttl, y.ttl)
		}
	}
	return ""
}

func execSnap(c SnapCase) kit.Outcome {
	orig := inproc.New(16, 1)
	for _, cmd := range c.Build {
		if r := orig.Do(cmd.Bytes()); r.Panic != "" {
			return kit.Outcome{Inconclusive: true, Labels: []string{"build-command-panicked (C04's subject)"}}
		}
	}
	o := kit.Outcome{}
	before, bad := observe(orig)
	if bad != "" {
		return kit.Outcome{Inconclusive: true, Labels: []string{"observation-failed-before-the-snapshot"}}
	}
	types := map[string]bool{}
	volatile := 0
	for _, ob := range before {
		types[ob.typ] = true
		if ob.ttl >= 0 {
			volatile++
		}
	}
	o.NonTrivial = len(before) >= 2 && len(types) >= 2
	if volatile > 0 {
		o.Labels = append(o.Labels, "with-deadlines")
	}
	o.Labels = append(o.Labels, "types:"+strconv.Itoa(len(types)))
	var data []byte
	var err error
	func() {
		defer func() {
			if p := recover(); p != nil {
				err = fmt.Errorf("panic: %v", p)
			}
		}()
		data, err = orig.M.CurrentDB.GetSnapshot()
	}()
	if err != nil {
		o.Fail = fmt.Sprintf("GetSnapshot fails on a keyspace built by commands (the node would go down at its next snapshot): %v", err)
		return o
	}
	rest := inproc.New(16, 1)
	for _, cmd := range c.Stale {
		if r := rest.Do(cmd.Bytes()); r.Panic != "" {
			return kit.Outcome{Inconclusive: true, Labels: []string{"build-command-panicked (C04's subject)"}}
		}
	}
	if len(c.Stale) > 0 {
		o.Labels = append(o.Labels, "loaded-over-a-non-empty-keyspace")
	}
	func() {
		defer func() {
			if p := recover(); p != nil {
				err = fmt.Errorf("panic: %v", p)
			}
		}()
		err = rest.M.CurrentDB.LoadSnapshot(data)
	}()
	if err != nil {
		o.Fail = fmt.Sprintf("LoadSnapshot refuses what GetSnapshot wrote: %v", err)
		return o
	}
	after, bad := observe(rest)
	if bad != "" {
		o.Fail = "after the restore: " + bad
		return o
	}
	if d := diffObs(before, after); d != "" {
		o.Fail = "snapshot round trip: " + d
		return o
	}
	if err := rest.CheckAll(); err != nil {
		o.Fail = "structures restored from the snapshot are unsound: " + err.Error()
		return o
	}
	// the entries that follow the snapshot in the log
	for i, cmd := range c.Tail {
		ra, rb := orig.Do(cmd.Bytes()), rest.Do(cmd.Bytes())
		if ra.Panic != "" || rb.Panic != "" {
			if (ra.Panic == "") != (rb.Panic == "") {
				o.Fail = fmt.Sprintf("tail command %d %s panics only on one side (restored: %v): %.300s%.300s", i, cmd.String(), rb.Panic != "", ra.Panic, rb.Panic)
				return o
			}
			break
		}
		if ra.DecErr != nil || rb.DecErr != nil {
			break
		}
		if x, y := canonReply(string(cmd[0]), ra.Val), canonReply(string(cmd[0]), rb.Val); x != y {
			o.Fail = fmt.Sprintf("tail command %d %s: the original keyspace replies %.300s, the restored one %.300s", i, cmd.String(), x, y)
			return o
		}
	}
	if len(c.Tail) > 0 {
		a2, bad1 := observe(orig)
		b2, bad2 := observe(rest)
		if bad1 == "" && bad2 == "" {
			if d := diffObs(a2, b2); d != "" {
				o.Fail = "after the same further commands on both: " + d
				return o
			}
		}
		if err := rest.CheckAll(); err != nil {
			o.Fail = "restored structures after further commands: " + err.Error()
		}
	}
	return o
}

func TestSnapshotRoundTrip(t *testing.T) {
	kit.Check(t, kit.Spec[SnapCase]{Sub: "snap", Quick: 400, Thorough: 12000, Gen: genSnapCase, Exec: execSnap})
}
