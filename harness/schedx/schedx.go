//go:build verif

// Package schedx: schedules owned by the harness (used by C13, C05 and C06). See the comment on Case.
package schedx

import (
	"fmt"
	"sort"
	"strings"
	"sync"
	"runtime"
	"strconv"
	"sync/atomic"
	"time"

	"github.com/innovationb1ue/RedisGO/memdb"
	"pgregory.net/rapid"

	"verifharness/gen"
	"verifharness/inproc"
	"verifharness/kit"
	"verifharness/respx"
)

// ---------------------------------------------------------------- oracle 4: harness-owned schedules
//
// The histories above leave the interleaving to the Go scheduler (with hand-overs at lock events); a
// window that is a few instructions wide between two lock sections of one command is hit rarely. Here
// the harness owns the schedule: command A runs in its own goroutine and is SUSPENDED just before its
// k-th stripe-lock event (hook H2 is called before every Lock/UnLock/RLock/RUnLock); while it is
// suspended another command runs to completion (or, when it needs a lock that A holds, until A is
// resumed 10 ms later); then A goes on, possibly to a second suspension. Every place at which A takes
// or gives up a lock is reachable this way, deterministically, for every k.
//
// Oracle (serial equivalence): A, B (and C) are single-key commands or MSET/RENAME/LMOVE/SMOVE, which the
// property makes atomic; so the replies and the final keyspace must be those of SOME order of the same
// commands run one after the other (on a fresh server with the same prologue) that respects real time.
// The serial runs use the implementation itself, single-threaded (its sequential semantics are the
// subject of C01/C09-C12); nothing random or clock-dependent is generated.
// A run that does not finish within 15 s is a deadlock (lock-order inversion is reached the same way:
// A is held while it owns one stripe and wants another).

type Pause struct {
	At  int     `json:"at"` // A is suspended before its At-th lock event (1-based)
	Run kit.Cmd `json:"run"`
}

type Case struct {
	ShardNum int       `json:"shard_num"`
	Pre      []kit.Cmd `json:"pre"`
	Expired  []string  `json:"expired,omitempty"` // keys that get a 1 ms deadline which has passed before A starts
	A        kit.Cmd   `json:"a"`
	Pauses   []Pause   `json:"pauses"`
	// Fine: the suspended command's operations on the keyspace and deadline maps (hook H9: before every
	// Get/Set/Delete of a key) count as events too, so that it can be suspended inside its lock sections
	// and between a look at a map and the lock that follows. A reader that does not take the key lock
	// then sees the suspended command's work half done.
	Fine bool `json:"fine,omitempty"`
}

var schedKeys = []string{"a", "b", "c", "l1", "l2", "s1", "s2", "h1", "z1", "x1"}

// genSchedCmd draws one command. near (the keys of the suspended command, for the commands that run meanwhile)
// is where three draws in four take their keys from, when a key of the wanted kind is among them: two
// commands that have no key in common say little about each other.
func genSchedCmd(t *rapid.T, tag string, first bool, near []string) kit.Cmd {
	pick := func(l string, all ...string) string {
		var cand []string
		for _, k := range all {
			for _, n := range near {
				if n == k {
					cand = append(cand, k)
				}
			}
		}
		if len(cand) > 0 && rapid.IntRange(0, 3).Draw(t, l+"-near") > 0 {
			return gen.Pick(t, l, cand...)
		}
		return gen.Pick(t, l, all...)
	}
	str := func(l string) string { return pick(l, "a", "b", "c") }
	lst := func(l string) string { return pick(l, "l1", "l2") }
	set := func(l string) string { return pick(l, "s1", "s2") }
	anyk := func(l string) string { return pick(l, schedKeys...) }
	side := func(l string) string { return gen.Pick(t, l, "LEFT", "RIGHT") }
	w := []int{6, 5, 5, 4, 9, 8, 4}
	if !first {
		w = []int{7, 3, 3, 3, 0, 10, 5}
		if schedDeadlines {
			w = []int{3, 1, 1, 2, 0, 5, 12} // the suspended command deals with a deadline: so does this one, mostly
		}
	}
	if schedFast && first {
		w = []int{3, 2, 2, 2, 0, 17, 5} // mostly single-key commands; no pop that waits (it costs 100 ms and more)
	}
	if first && profile.AWeights != nil {
		w = profile.AWeights
	}
	switch gen.Weighted(t, "kind", w) {
	case 6:
		// commands that set, keep, replace or drop a deadline, and the ones that remove or read the key
		switch rapid.IntRange(0, 8).Draw(t, "dl") {
		case 0:
			return kit.MkCmd("SETEX", str("k"), "500000", tag)
		case 1:
			return kit.MkCmd("SET", str("k"), tag, "KEEPTTL")
		case 2:
			return kit.MkCmd("SET", str("k"), tag, "EX", "500000")
		case 3:
			return kit.MkCmd("EXPIRE", anyk("k"), "300000")
		case 4:
			return kit.MkCmd("EXPIRE", anyk("k"), "300000", gen.Pick(t, "eopt", "NX", "XX", "GT", "LT"))
		case 5:
			return kit.MkCmd("PERSIST", anyk("k"))
		case 6:
			return kit.MkCmd("DEL", anyk("k"))
		case 7:
			return kit.MkCmd("DEL", anyk("k"), anyk("k2"))
		default:
			return kit.MkCmd("GET", str("k"))
		}
	case 0:
		src := anyk("rsrc")
		dst := gen.Pick(t, "rdst", schedKeys...)
		if rapid.IntRange(0, 2).Draw(t, "sametype") > 0 {
			// mostly within one type, so that the command succeeds and what it moved stays observable
			switch {
			case strings.HasPrefix(src, "l"):
				dst = gen.Pick(t, "rdst2", "l1", "l2")
			case strings.HasPrefix(src, "s"):
				dst = gen.Pick(t, "rdst2", "s1", "s2")
			case src != "h1":
				dst = gen.Pick(t, "rdst2", "a", "b", "c")
			}
		}
		return kit.MkCmd("RENAME", src, dst)
	case 1:
		return kit.MkCmd("LMOVE", lst("src"), lst("dst"), side("d1"), side("d2"))
	case 2:
		return kit.MkCmd("SMOVE", set("src"), set("dst"), gen.Pick(t, "m", "x", "y"))
	case 3:
		args := []string{"MSET"}
		n := rapid.IntRange(2, 3).Draw(t, "pairs")
		for i := 0; i < n; i++ {
			args = append(args, str(fmt.Sprintf("mk%d", i)), fmt.Sprintf("%s.%d", tag, i))
		}
		return kit.MkCmd(args...)
	case 4:
		// a pop that waits: it polls (first look after 100 ms), gives the lock up between polls
		return kit.MkCmd(gen.Pick(t, "bp", "BLPOP", "BRPOP"), lst("bk"), "1")
	}
	switch rapid.IntRange(0, 49).Draw(t, "single") {
	case 47, 48:
		// one command with very many elements (whatever an implementation does per batch of them)
		args := []string{gen.Pick(t, "bigpush", "RPUSH", "LPUSH"), lst("k")}
		n := rapid.SampledFrom([]int{65, 70, 130, 300}).Draw(t, "bign")
		for i := 0; i < n; i++ {
			args = append(args, fmt.Sprintf("%s.%d", tag, i))
		}
		return kit.MkCmd(args...)
	case 49:
		args := []string{"SADD", set("k")}
		for i := 0; i < 70; i++ {
			args = append(args, fmt.Sprintf("%s.%d", tag, i))
		}
		return kit.MkCmd(args...)
	case 40:
		return kit.MkCmd("DEL", anyk("k"), anyk("k2"))
	case 41:
		return kit.MkCmd("EXISTS", anyk("k"), anyk("k2"))
	case 42:
		return kit.MkCmd("SETEX", str("k"), "500000", tag)
	case 43:
		return kit.MkCmd("SET", str("k"), tag, "KEEPTTL")
	case 44:
		return kit.MkCmd("SET", str("k"), tag, "EX", "500000")
	case 45:
		return kit.MkCmd("EXPIRE", anyk("k"), "300000", gen.Pick(t, "eopt", "NX", "XX", "GT", "LT"))
	case 46:
		return kit.MkCmd("DEL", anyk("k"), anyk("k2"), anyk("k3"))
	case 35:
		return kit.MkCmd("HMGET", "h1", "f", "g")
	case 36:
		return kit.MkCmd("RPUSHX", lst("k"), tag)
	case 37:
		return kit.MkCmd("GETRANGE", str("k"), "0", "-1")
	case 38:
		return kit.MkCmd("SETRANGE", str("k"), "1", tag)
	case 39:
		return kit.MkCmd("HSETNX", "h1", gen.Pick(t, "f", "f", "g"), tag)
	case 28:
		return kit.MkCmd("ZADD", "z1", gen.Pick(t, "sc", "1", "2", "3"), gen.Pick(t, "zm", "m", "n"))
	case 29:
		return kit.MkCmd("ZREM", "z1", gen.Pick(t, "zm", "m", "n"))
	case 30:
		return kit.MkCmd("ZRANGE", "z1", "0", "-1", "WITHSCORES")
	case 31:
		return kit.MkCmd("ZRANK", "z1", gen.Pick(t, "zm", "m", "n"))
	case 32:
		return kit.MkCmd("XADD", "x1", gen.Pick(t, "xid", "1-1", "2-1", "2-2", "3-0"), "f", tag)
	case 33:
		return kit.MkCmd("XRANGE", "x1", "-", "+")
	case 34:
		return kit.MkCmd("HGET", "h1", gen.Pick(t, "f", "f", "g"))
	case 0:
		return kit.MkCmd("SET", str("k"), tag)
	case 1:
		return kit.MkCmd("GET", str("k"))
	case 2:
		return kit.MkCmd("SETNX", str("k"), tag)
	case 3:
		return kit.MkCmd("APPEND", str("k"), tag)
	case 4:
		return kit.MkCmd("INCR", str("k"))
	case 5:
		return kit.MkCmd("DEL", anyk("k"))
	case 6:
		return kit.MkCmd("EXISTS", anyk("k"))
	case 7:
		return kit.MkCmd("TYPE", anyk("k"))
	case 8:
		return kit.MkCmd("LPUSH", lst("k"), tag)
	case 9:
		return kit.MkCmd("RPUSH", lst("k"), tag)
	case 10:
		return kit.MkCmd("LPOP", lst("k"))
	case 11:
		return kit.MkCmd("RPOP", lst("k"))
	case 12:
		return kit.MkCmd("LRANGE", lst("k"), "0", "-1")
	case 13:
		return kit.MkCmd("LLEN", lst("k"))
	case 14:
		return kit.MkCmd("LPUSHX", lst("k"), tag)
	case 15:
		return kit.MkCmd("SADD", set("k"), gen.Pick(t, "m", "x", "y", "z"))
	case 16:
		return kit.MkCmd("SREM", set("k"), gen.Pick(t, "m", "x", "y", "z"))
	case 17:
		return kit.MkCmd("SISMEMBER", set("k"), gen.Pick(t, "m", "x", "y", "z"))
	case 18:
		return kit.MkCmd("SCARD", set("k"))
	case 19:
		return kit.MkCmd("SMEMBERS", set("k"))
	case 20:
		return kit.MkCmd("HSET", "h1", gen.Pick(t, "f", "f", "g"), tag)
	case 21:
		return kit.MkCmd("HDEL", "h1", gen.Pick(t, "f", "f", "g"))
	case 22:
		return kit.MkCmd("HGETALL", "h1")
	case 23:
		return kit.MkCmd("PERSIST", anyk("k"))
	case 24:
		return kit.MkCmd("EXPIRE", anyk("k"), "300000")
	case 25:
		return kit.MkCmd("STRLEN", str("k"))
	case 26:
		return kit.MkCmd("LTRIM", lst("k"), "1", "-1")
	default:
		return kit.MkCmd("LSET", lst("k"), "0", tag)
	}
}

// schedFast: the generator of the fast sub-check leaves out what makes a case slow (pops that wait, keys
// that must first run past their deadline) and draws mostly single-key commands as the suspended one.
var schedFast bool

// Profile selects what is drawn. The zero value is the general (slow) mix of C13.
type Profile struct {
	Fast      bool  // no pops that wait, no keys that must first run past their deadline
	AWeights  []int // weights of the seven kinds for the suspended command (nil: default)
	Expired   int   // n > 0: one case in n has keys past their deadline (default 4; ignored when Fast)
	Deadlines bool  // the commands run meanwhile are drawn from the deadline kind, mostly, in every case
}

var profile Profile

// Gen returns the generator for a profile (generators are used by one goroutine per process).
func Gen(p Profile) func(t *rapid.T) Case {
	return func(t *rapid.T) Case {
		profile = p
		schedFast = p.Fast
		defer func() { schedFast = false; profile = Profile{} }()
		return genSched(t)
	}
}

func goid() int64 {
	var buf [64]byte
	n := runtime.Stack(buf[:], false)
	s := strings.TrimPrefix(string(buf[:n]), "goroutine ")
	if i := strings.IndexByte(s, ' '); i > 0 {
		id, _ := strconv.ParseInt(s[:i], 10, 64)
		return id
	}
	return -1
}

// schedDeadlines: set while the commands that run meanwhile are drawn, when the suspended command sets, keeps or
// drops a deadline or removes its key, or when there are keys past their deadline.
var schedDeadlines bool

func genSched(t *rapid.T) Case {
	c := Case{ShardNum: rapid.SampledFrom([]int{1, 2, 16}).Draw(t, "shards")}
	// prologue: small values, lists of 0..2 elements (a list that loses its last element ceases to exist:
	// one-element lists are where a stale pointer shows)
	for _, k := range []string{"a", "b", "c"} {
		if rapid.IntRange(0, 2).Draw(t, "has-"+k) > 0 {
			c.Pre = append(c.Pre, kit.MkCmd("SET", k, gen.Pick(t, "v-"+k, "7", "v"+k)))
		}
	}
	for _, k := range []string{"l1", "l2"} {
		n := rapid.SampledFrom([]int{0, 1, 1, 2, 3}).Draw(t, "len-"+k)
		for i := 0; i < n; i++ {
			c.Pre = append(c.Pre, kit.MkCmd("RPUSH", k, fmt.Sprintf("%s.%d", k, i)))
		}
	}
	for _, k := range []string{"s1", "s2"} {
		for _, m := range []string{"x", "y"} {
			if rapid.Bool().Draw(t, "in-"+k+m) {
				c.Pre = append(c.Pre, kit.MkCmd("SADD", k, m))
			}
		}
	}
	if rapid.Bool().Draw(t, "has-h1") {
		c.Pre = append(c.Pre, kit.MkCmd("HSET", "h1", "f", "1"))
	}
	if rapid.Bool().Draw(t, "has-z1") {
		c.Pre = append(c.Pre, kit.MkCmd("ZADD", "z1", "2", "m"))
	}
	if rapid.Bool().Draw(t, "has-x1") {
		c.Pre = append(c.Pre, kit.MkCmd("XADD", "x1", "1-1", "f", "0"))
	}
	// deadlines far away (the prologue's are 100000 s, the commands' 300000 and 500000 s: the final read tells
	// them apart and none of them comes near during a case)
	for _, k := range schedKeys {
		if rapid.IntRange(0, 3).Draw(t, "vol-"+k) == 0 {
			c.Pre = append(c.Pre, kit.MkCmd("EXPIRE", k, "100000"))
		}
	}
	expn := 4
	if profile.Expired > 0 {
		expn = profile.Expired
	}
	if !schedFast && rapid.IntRange(0, expn-1).Draw(t, "with-expired") == 0 {
		for _, k := range schedKeys {
			if rapid.IntRange(0, 2).Draw(t, "exp-"+k) == 0 {
				c.Expired = append(c.Expired, k)
			}
		}
	}
	c.A = genSchedCmd(t, "A", true, c.Expired) // (keys past their deadline preferred: CheckTTL then takes its lock)
	schedDeadlines = len(c.Expired) > 0 || profile.Deadlines
	switch strings.ToUpper(string(c.A[0])) {
	case "SETEX", "EXPIRE", "PERSIST", "DEL":
		schedDeadlines = true
	case "SET":
		schedDeadlines = len(c.A) > 3
	}
	defer func() { schedDeadlines = false }()
	var near []string
	for _, a := range c.A[1:] {
		for _, k := range schedKeys {
			if string(a) == k {
				near = append(near, k)
			}
		}
	}
	if schedDeadlines && rapid.Bool().Draw(t, "volatile-near") {
		for _, k := range near {
			c.Pre = append(c.Pre, kit.MkCmd("EXPIRE", k, "100000"))
		}
	}
	c.Fine = rapid.Bool().Draw(t, "fine")
	np := rapid.SampledFrom([]int{1, 1, 2}).Draw(t, "pauses")
	at := 0
	for i := 0; i < np; i++ {
		if c.Fine {
			at += rapid.IntRange(1, 7).Draw(t, "at-fine")
		} else {
			at += rapid.IntRange(1, 3).Draw(t, "at")
		}
		c.Pauses = append(c.Pauses, Pause{At: at, Run: genSchedCmd(t, fmt.Sprintf("B%d", i), false, near)})
	}
	return c
}

var schedMode int32
var schedHook atomic.Value // func(kind string, stripe int)

// Install wraps the lock hook that is in place (the package's own, if any): while a case of this package
// runs, lock events go to its scheduler; otherwise to the previous hook. Call it from an init function that
// runs after the one that sets the package's own hook (or from TestMain).
func Install() {
	prev := memdb.VerifLockHook
	memdb.VerifLockHook = func(kind string, stripe int) {
		if atomic.LoadInt32(&schedMode) == 1 {
			if h, _ := schedHook.Load().(func(string, int)); h != nil {
				h(kind, stripe)
			}
			return
		}
		if prev != nil {
			prev(kind, stripe)
		}
	}
	memdb.VerifMapHook = func(kind string) {
		if atomic.LoadInt32(&schedMode) == 1 && atomic.LoadInt32(&schedFine) == 1 {
			if h, _ := schedHook.Load().(func(string, int)); h != nil {
				h(kind, -1)
			}
		}
	}
}

var schedFine int32

type schedOp struct {
	cmd       kit.Cmd
	atoms     []kit.Cmd
	call, ret int64
	reply     string
}

func atomsOf(cmd kit.Cmd) []kit.Cmd {
	if n := strings.ToUpper(string(cmd[0])); (n == "DEL" || n == "EXISTS") && len(cmd) > 2 {
		var out []kit.Cmd
		for _, k := range cmd[1:] {
			out = append(out, kit.MkCmd(n, string(k)))
		}
		return out
	}
	return []kit.Cmd{cmd}
}

// interleavings lists every sequence of (op, atom) that keeps the atoms of one op in order and keeps an op
// that had returned before another was called entirely in front of it.
func interleavings(ops []*schedOp) [][][2]int {
	var out [][][2]int
	next := make([]int, len(ops))
	var cur [][2]int
	total := 0
	for _, op := range ops {
		total += len(op.atoms)
	}
	var rec func()
	rec = func() {
		if len(cur) == total {
			first, last := make([]int, len(ops)), make([]int, len(ops))
			for i := range first {
				first[i] = -1
			}
			for p, st := range cur {
				if first[st[0]] < 0 {
					first[st[0]] = p
				}
				last[st[0]] = p
			}
			for i := range ops {
				for j := range ops {
					if ops[i].ret < ops[j].call && last[i] > first[j] {
						return
					}
				}
			}
			out = append(out, append([][2]int(nil), cur...))
			return
		}
		for i := range ops {
			if next[i] < len(ops[i].atoms) {
				cur = append(cur, [2]int{i, next[i]})
				next[i]++
				rec()
				next[i]--
				cur = cur[:len(cur)-1]
			}
		}
	}
	rec()
	return out
}

func canonSched(cmd kit.Cmd, v respx.Value) string {
	switch strings.ToUpper(string(cmd[0])) {
	case "SMEMBERS", "KEYS":
		var xs []string
		for _, e := range v.Arr {
			xs = append(xs, flat(e))
		}
		sort.Strings(xs)
		return "set" + fmt.Sprint(xs)
	case "HGETALL":
		var xs []string
		for i := 0; i+1 < len(v.Arr); i += 2 {
			xs = append(xs, flat(v.Arr[i])+"="+flat(v.Arr[i+1]))
		}
		sort.Strings(xs)
		return "hash" + fmt.Sprint(xs)
	}
	return flat(v)
}

// flat renders a reply with simple strings and bulk strings alike (TYPE answers "none" as a bulk string
// for a key past its deadline and as a simple string for a key that is not there: the same answer to any
// client; which of the two string types carries it is not what this oracle is about).
func flat(v respx.Value) string {
	switch {
	case v.Kind == respx.Simple, v.Kind == respx.Bulk && !v.Null:
		return strconv.Quote(string(v.Str))
	case v.Kind == respx.Array && !v.Null:
		parts := make([]string, len(v.Arr))
		for i, e := range v.Arr {
			parts[i] = flat(e)
		}
		return "[" + strings.Join(parts, " ") + "]"
	}
	return v.String()
}

// schedPrepare builds n identical servers. Keys listed in Expired get a deadline of one second that has
// passed when the function returns; deadlines are whole seconds and the timer that removes the key for
// good fires a full second after EXPIRE was issued, so EXPIRE is issued late in a second: for the rest of
// the following second the keys are past their deadline but still stored (commands meet them in CheckTTL).
// The second result is the instant at which those timers fire (zero: none).
func schedPrepare(c Case, n int) ([]*inproc.DB, time.Time, string) {
	dbs := make([]*inproc.DB, n)
	for i := range dbs {
		dbs[i] = inproc.New(c.ShardNum, 1)
		for _, cmd := range c.Pre {
			if r := dbs[i].Do(cmd.Bytes()); r.Panic != "" || r.DecErr != nil || r.Val.Kind == '-' {
				return nil, time.Time{}, fmt.Sprintf("prologue %s: %s %s", cmd.String(), r.Val.String(), r.Panic)
			}
		}
	}
	if len(c.Expired) == 0 {
		return dbs, time.Time{}, ""
	}
	for time.Now().Nanosecond() < 850e6 {
		time.Sleep(5 * time.Millisecond)
	}
	t := time.Now()
	for _, db := range dbs {
		for _, k := range c.Expired {
			db.Do(kit.MkCmd("EXPIRE", k, "1").Bytes())
		}
	}
	if time.Now().Unix() != t.Unix() {
		// (overloaded machine) the second ended while the deadlines were being set: the servers do not agree
		// on which keys are past their deadline; nothing can be concluded from this case
		return nil, time.Time{}, "infrastructure: setting the one-second deadlines on all servers took longer than the rest of the second"
	}
	time.Sleep(time.Until(t.Truncate(time.Second).Add(time.Second + 15*time.Millisecond)))
	return dbs, t.Add(time.Second), ""
}

// schedDump reads the whole keyspace through commands (after all deadlines that matter have passed or are far away).
func schedDump(db *inproc.DB) (string, string) {
	var sb strings.Builder
	do := func(args ...string) respx.Value {
		cmd := kit.MkCmd(args...)
		r := db.Do(cmd.Bytes())
		if r.Panic != "" {
			return respx.Value{Kind: '-', Str: []byte("panic " + r.Panic)}
		}
		return r.Val
	}
	for _, k := range schedKeys {
		ty := do("TYPE", k)
		fmt.Fprintf(&sb, "%s:%s", k, flat(ty))
		switch string(ty.Str) {
		case "string":
			sb.WriteString(flat(do("GET", k)))
		case "list":
			sb.WriteString(flat(do("LRANGE", k, "0", "-1")) + do("LLEN", k).String())
		case "set":
			sb.WriteString(canonSched(kit.MkCmd("SMEMBERS"), do("SMEMBERS", k)) + do("SCARD", k).String())
		case "hash":
			sb.WriteString(canonSched(kit.MkCmd("HGETALL"), do("HGETALL", k)))
		case "zset":
			sb.WriteString(flat(do("ZRANGE", k, "0", "-1", "WITHSCORES")))
		case "stream":
			sb.WriteString(flat(do("XRANGE", k, "-", "+")))
		}
		ttl := do("TTL", k)
		switch {
		case ttl.Kind == ':' && ttl.Int > 1000:
			fmt.Fprintf(&sb, " ttl~%d00000s", (ttl.Int+50000)/100000)
		case ttl.Kind == ':' && ttl.Int >= 0:
			sb.WriteString(" ttl")
		default:
			sb.WriteString(" " + ttl.String())
		}
		sb.WriteString(" exists" + do("EXISTS", k).String() + "; ")
	}
	sb.WriteString(canonSched(kit.MkCmd("KEYS"), do("KEYS", "*")))
	if err := db.CheckAll(); err != nil {
		return sb.String(), err.Error()
	}
	return sb.String(), ""
}

func Exec(c Case) kit.Outcome {
	o := kit.Outcome{}
	nserial := 1 // number of serial orders = T! / prod(atoms_i!)
	{
		t := 0
		cmds := []kit.Cmd{c.A}
		for _, p := range c.Pauses {
			cmds = append(cmds, p.Run)
		}
		for _, cmd := range cmds {
			for k := 1; k <= len(atomsOf(cmd)); k++ {
				t++
				nserial = nserial * t / k
			}
		}
	}
	lazy := len(c.Expired) == 0 // identical servers can be built when needed unless they have to pass a deadline together
	// Keys past their deadline: a command may or may not apply lazy expiry by itself (LLEN does not), which
	// the property allows within the deadline's second as long as nothing that was seen missing is seen again.
	// So "the key is still stored" and "some command has removed it" are both legitimate at every point, and
	// the concurrent run may differ from a serial one just in when the removal happened. The serial runs are
	// therefore repeated with the touched expired keys removed (by a command that applies lazy expiry and has
	// no other effect) before the p-th atom, for every p. With one touched key this is exhaustive; with
	// several (they could go at different moments) or too many servers to prepare, a mismatch is inconclusive.
	var touched []string
	total := 0
	{
		seen := map[string]bool{}
		cmds := []kit.Cmd{c.A}
		for _, p := range c.Pauses {
			cmds = append(cmds, p.Run)
		}
		for _, cmd := range cmds {
			total += len(atomsOf(cmd))
			for _, a := range cmd[1:] {
				for _, k := range c.Expired {
					if string(a) == k && !seen[k] {
						seen[k] = true
						touched = append(touched, k)
					}
				}
			}
		}
	}
	purges := []int{-1}
	partial := false
	if len(touched) > 0 {
		if nserial*(total+2) <= 40 {
			for p := 0; p <= total; p++ {
				purges = append(purges, p)
			}
		} else {
			partial = true
		}
	}
	nprep := 1 + nserial*len(purges)
	if lazy {
		nprep = 1
	}
	dbs, timersAt, bad := schedPrepare(c, nprep)
	if bad != "" {
		o.Inconclusive = true
		return o
	}
	db := dbs[0]
	ops := make([]*schedOp, 1+len(c.Pauses))
	ops[0] = &schedOp{cmd: c.A, atoms: atomsOf(c.A)}
	for i, p := range c.Pauses {
		ops[i+1] = &schedOp{cmd: p.Run, atoms: atomsOf(p.Run)}
	}
	var clock int64
	var wg sync.WaitGroup
	var panicked atomic.Value
	run := func(op *schedOp, done chan struct{}) {
		defer wg.Done()
		op.call = atomic.AddInt64(&clock, 1)
		r := db.Do(op.cmd.Bytes())
		op.ret = atomic.AddInt64(&clock, 1)
		if r.Panic != "" || r.DecErr != nil {
			panicked.Store(fmt.Sprintf("%s: panic/malformed reply: %.300s %q", op.cmd.String(), r.Panic, r.Raw))
		}
		op.reply = canonSched(op.cmd, r.Val)
		if done != nil {
			close(done)
		}
	}
	var owner int64
	events, reached, blocked := 0, 0, 0
	schedHook.Store(func(kind string, stripe int) {
		if goid() != atomic.LoadInt64(&owner) {
			return
		}
		events++
		for i, p := range c.Pauses {
			if p.At == events {
				reached++
				done := make(chan struct{})
				wg.Add(1)
				go run(ops[i+1], done)
				select {
				case <-done:
				case <-time.After(3 * time.Millisecond):
					blocked++ // it waits for a lock A holds (or it is a pop that waits): A goes on, they finish side by side
				}
			}
		}
	})
	if c.Fine {
		atomic.StoreInt32(&schedFine, 1)
	}
	defer atomic.StoreInt32(&schedFine, 0)
	atomic.StoreInt32(&schedMode, 1)
	defer atomic.StoreInt32(&schedMode, 0)
	wg.Add(1)
	go func() {
		atomic.StoreInt64(&owner, goid())
		run(ops[0], nil)
	}()
	fin := make(chan struct{})
	go func() { wg.Wait(); close(fin) }()
	select {
	case <-fin:
	case <-time.After(15 * time.Second):
		o.Fail = fmt.Sprintf("deadlock: %s suspended before its lock events %v while the other commands ran did not finish within 15 s", c.A.String(), pauseAts(c))
		return o
	}
	atomic.StoreInt64(&owner, -2)
	// pauses that A never reached (it has fewer lock events): run those commands afterwards, in order
	for i, p := range c.Pauses {
		if p.At > events {
			wg.Add(1)
			run(ops[i+1], nil)
		}
	}
	atomic.StoreInt32(&schedMode, 0)
	if b, _ := panicked.Load().(string); b != "" {
		o.Fail = b
		return o
	}
	got, broken := schedDump(db)
	o.NonTrivial = reached > 0
	if len(c.Expired) > 0 {
		o.Labels = append(o.Labels, "keys-past-their-deadline-but-still-stored")
	}
	if c.Fine {
		o.Labels = append(o.Labels, "map-operations-count-as-events")
	}
	o.Labels = append(o.Labels, "A:" + strings.ToUpper(string(c.A[0])), fmt.Sprintf("A-lock-events:%d", min(events, 12)), fmt.Sprintf("suspensions-reached:%d", reached))
	if blocked > 0 {
		o.Labels = append(o.Labels, "other-command-had-to-wait-for-A")
	}
	if broken != "" {
		o.Fail = "structural self-check after the schedule: " + broken
		return o
	}
	// serial runs: every order of the commands that respects real time. A DEL or EXISTS over several keys
	// is not claimed atomic as a whole: it counts as one atom per key, in the order of its arguments, its
	// reply being the sum (every key by itself is still removed or counted at one instant).
	var tried []string
	ok := false
	seqs := interleavings(ops)
	used := 0
	type variant struct {
		seq   [][2]int
		purge int
	}
	var variants []variant
	for _, seq := range seqs {
		for _, p := range purges {
			variants = append(variants, variant{seq, p})
		}
	}
	for _, vr := range variants {
		seq := vr.seq
		var sdb *inproc.DB
		if lazy {
			one, _, bad := schedPrepare(c, 1)
			if bad != "" {
				break
			}
			sdb = one[0]
		} else {
			used++
			if used >= len(dbs) {
				break
			}
			sdb = dbs[used]
		}
		sums := make([]int64, len(ops))
		reps := make([]string, len(ops))
		var desc []string
		purge := func(pos int) {
			if vr.purge == pos {
				for _, k := range touched {
					sdb.Do(kit.MkCmd("TYPE", k).Bytes())
				}
				desc = append(desc, fmt.Sprintf("(keys past their deadline removed: %v)", touched))
			}
		}
		for pos, st := range seq {
			purge(pos)
			at := ops[st[0]].atoms[st[1]]
			r := sdb.Do(at.Bytes())
			rep := canonSched(at, r.Val)
			desc = append(desc, fmt.Sprintf("%s -> %s", at.String(), rep))
			if len(ops[st[0]].atoms) > 1 {
				sums[st[0]] += r.Val.Int
				rep = fmt.Sprintf(":%d", sums[st[0]])
			}
			reps[st[0]] = rep
		}
		purge(len(seq))
		same := true
		for i := range ops {
			if reps[i] != ops[i].reply {
				same = false
			}
		}
		sd, _ := schedDump(sdb)
		if same && sd == got {
			ok = true
			break
		}
		tried = append(tried, strings.Join(desc, " ; ")+" ; final "+sd)
	}
	if !ok && !timersAt.IsZero() && time.Now().After(timersAt.Add(-30*time.Millisecond)) {
		// the runs were to happen while the keys are past their deadline but still stored; they took longer
		// (a pop that waited): the timers have removed the keys in the middle of it, nothing is concluded
		o.Inconclusive = true
		return o
	}
	if !ok && (partial || len(touched) > 1) {
		o.Inconclusive = true
		o.Labels = append(o.Labels, "mismatch-with-several-keys-past-their-deadline(not-decided)")
		return o
	}
	if !ok {
		var obs []string
		for _, op := range ops {
			obs = append(obs, fmt.Sprintf("%s -> %s [%d,%d]", op.cmd.String(), op.reply, op.call, op.ret))
		}
		o.Fail = fmt.Sprintf("%s was suspended before its lock events %v (it has %d) while the other commands ran; the replies and the final keyspace are those of no serial order. observed: %s ; final %s. serial orders: %s",
			c.A.String(), pauseAts(c), events, strings.Join(obs, " ; "), got, strings.Join(tried, " || "))
	}
	return o
}

func pauseAts(c Case) []int {
	var xs []int
	for _, p := range c.Pauses {
		xs = append(xs, p.At)
	}
	return xs
}

func permute(xs []int, f func([]int)) {
	var rec func(int)
	rec = func(k int) {
		if k == len(xs) {
			f(append([]int(nil), xs...))
			return
		}
		for i := k; i < len(xs); i++ {
			xs[k], xs[i] = xs[i], xs[k]
			rec(k + 1)
			xs[k], xs[i] = xs[i], xs[k]
		}
	}
	rec(0)
}
