package c02

import (
	"bytes"
	"context"
	"encoding/json"
	"fmt"
	"io"
	"os"
	"path/filepath"
	"strconv"
	"strings"
	"testing"
	"time"

	"github.com/innovationb1ue/RedisGO/resp"
	"pgregory.net/rapid"

	"verifharness/kit"
	"verifharness/respx"
)

// ------------------------------------------------------------------------------------------------
// Layer 4 (thorough tier): coverage-guided fuzzing of the request parser with arbitrary bytes.
// The oracle lives inside the target:
//   - termination: the parser's channel ends with EOF within a bound, whatever the bytes are;
//   - fragmentation independence (metamorphic): the same bytes fed whole and fed in pieces produce the
//     same sequence of results (commands byte for byte, other values and errors by kind);
//   - exactness against the independent codec: as long as the strict decoder sees plain commands
//     (arrays of >= 1 non-null bulk strings) at the head of the stream, the parser delivers exactly
//     those, in order. What follows the first value that is not a plain command is not compared (the
//     statement speaks about requests; C02's malformed-input layer handles what must not happen there).
// Inputs that announce a bulk string above 1 MiB are skipped (the parser allocates what a header
// announces, up to the protocol maximum; 16 workers doing that is a memory problem of the harness).
// ------------------------------------------------------------------------------------------------

type FuzzCase struct {
	Data kit.B `json:"data"`
	Cut  int   `json:"cut"`
}

type pres struct {
	kind string // "cmd" | "other" | "err" | "eof"
	args [][]byte
}

func runParser(data []byte, cuts []int) ([]pres, string) {
	ctx, cancel := context.WithCancel(context.Background())
	defer cancel()
	ch := resp.ParseStream(ctx, &chunkReader{data: data, cuts: cuts})
	var out []pres
	deadline := time.After(20 * time.Second)
	for {
		select {
		case r, ok := <-ch:
			if !ok {
				return out, ""
			}
			switch {
			case r.Err == io.EOF:
				out = append(out, pres{kind: "eof"})
			case r.Err != nil:
				out = append(out, pres{kind: "err"})
			default:
				if arr, isArr := r.Data.(*resp.ArrayData); isArr {
					plain := true
					for _, e := range arr.ToCommand() {
						if e == nil {
							plain = false
						}
					}
					if plain {
						out = append(out, pres{kind: "cmd", args: arr.ToCommand()})
						continue
					}
				}
				out = append(out, pres{kind: "other"})
			}
			if len(out) > 100000 {
				return out, "the parser produced more than 100000 results"
			}
		case <-deadline:
			return out, fmt.Sprintf("the parser neither finished nor produced a result for 20 s (after %d results)", len(out))
		}
	}
}

func fuzzCuts(cut, n int) []int {
	if n < 2 {
		return nil
	}
	var cuts []int
	step := 1 + cut%13
	if cut%3 == 0 {
		step = 1
	}
	for p := 1 + (cut>>4)%step; p < n; p += step {
		cuts = append(cuts, p)
		if cut%5 == 0 { // irregular pieces
			step = 1 + (step*7+cut)%17
		}
	}
	return cuts
}

// announcesHugeBulk: some "$<n>" with n above 1 MiB appears at the start of a line.
func announcesHugeBulk(data []byte) bool {
	for i := 0; i < len(data); i++ {
		if data[i] != '$' {
			continue
		}
		j := i + 1
		for j < len(data) && j-i < 22 && data[j] >= '0' && data[j] <= '9' {
			j++
		}
		if j-i-1 >= 7 {
			if n, err := strconv.ParseUint(string(data[i+1:j]), 10, 64); err != nil || n > 1<<20 {
				return true
			}
		}
	}
	return false
}

func checkFuzzInput(c FuzzCase) (fail string, nontrivial bool, skipped bool) {
	data := []byte(c.Data)
	if len(data) > 1<<16 || announcesHugeBulk(data) {
		return "", false, true
	}
	whole, msg := runParser(data, nil)
	if msg != "" {
		return "bytes fed whole: " + msg, false, false
	}
	if len(whole) == 0 || whole[len(whole)-1].kind != "eof" {
		return fmt.Sprintf("bytes fed whole: the parser's channel closed without reporting EOF (%d results)", len(whole)), false, false
	}
	pieces, msg := runParser(data, fuzzCuts(c.Cut, len(data)))
	if msg != "" {
		return "bytes fed in pieces: " + msg, false, false
	}
	if len(whole) != len(pieces) {
		return fmt.Sprintf("fragmentation changes the result: %d results when fed whole, %d when fed in pieces (cut seed %d)", len(whole), len(pieces), c.Cut), false, false
	}
	for i := range whole {
		a, b := whole[i], pieces[i]
		if a.kind != b.kind || len(a.args) != len(b.args) {
			return fmt.Sprintf("fragmentation changes result %d: %s with %d arguments whole, %s with %d arguments in pieces", i, a.kind, len(a.args), b.kind, len(b.args)), false, false
		}
		for j := range a.args {
			if !bytes.Equal(a.args[j], b.args[j]) {
				return fmt.Sprintf("fragmentation changes argument %d of command %d: %.60q whole, %.60q in pieces", j, i, a.args[j], b.args[j]), false, false
			}
		}
	}
	// the head of the stream that the strict decoder reads as plain commands
	off, ncmd := 0, 0
	for off < len(data) {
		v, n, err := respx.Decode(data[off:])
		if err != nil || v.Kind != respx.Array || v.Null || len(v.Arr) == 0 {
			break
		}
		plain := true
		for _, e := range v.Arr {
			if e.Kind != respx.Bulk || e.Null {
				plain = false
			}
		}
		if !plain {
			break
		}
		if ncmd >= len(whole) || whole[ncmd].kind != "cmd" {
			k := "nothing"
			if ncmd < len(whole) {
				k = whole[ncmd].kind
			}
			return fmt.Sprintf("request %d (bytes %d..%d) is a well-formed command of %d arguments; the parser delivered %s instead", ncmd, off, off+n, len(v.Arr), k), false, false
		}
		got := whole[ncmd].args
		if len(got) != len(v.Arr) {
			return fmt.Sprintf("request %d: %d arguments on the wire, %d decoded", ncmd, len(v.Arr), len(got)), false, false
		}
		for j := range got {
			if !bytes.Equal(got[j], v.Arr[j].Str) {
				return fmt.Sprintf("request %d argument %d: %.60q on the wire, %.60q decoded", ncmd, j, v.Arr[j].Str, got[j]), false, false
			}
		}
		off += n
		ncmd++
	}
	return "", ncmd >= 1 && len(whole) > ncmd+1, false
}

func FuzzParser(f *testing.F) {
	for _, s := range []string{
		"*1\r\n$4\r\nPING\r\n",
		"*3\r\n$3\r\nSET\r\n$1\r\nk\r\n$5\r\na\r\nb\n\r\n*2\r\n$3\r\nGET\r\n$1\r\nk\r\n",
		"*2\r\n$4\r\nECHO\r\n$0\r\n\r\n",
		"*1\r\n$4\r\nPI", "\n", "$-2\r\n", "$9223372036854775807\r\n", "*-1\r\n*0\r\n", "*2\r\n$-1\r\n:12\r\n",
		"+OK\r\n-ERR x\r\n:1\r\n", "*1\r\n$3\r\nabcd\r\n", "*2\r\n$1\r\na\r\n", "PING\r\n", "*1\n$4\nPING\n",
		"*1\r\n$4\r\nPING\r\n*x\r\n*1\r\n$4\r\nPING\r\n",
	} {
		f.Add([]byte(s), uint16(0))
		f.Add([]byte(s), uint16(7))
	}
	f.Fuzz(func(t *testing.T, data []byte, cut uint16) {
		fail, _, _ := checkFuzzInput(FuzzCase{Data: kit.B(data), Cut: int(cut)})
		if fail != "" {
			// the driver turns the crasher file into a replay; keep the case next to it as well
			if dir := os.Getenv("VERIF_FUZZ_OUT"); dir != "" {
				js, _ := json.Marshal(map[string]any{"property": "C02", "sub": "fuzz", "case": FuzzCase{Data: kit.B(data), Cut: int(cut)}, "msg": fail})
				_ = os.WriteFile(filepath.Join(dir, fmt.Sprintf("fuzz-%d.json", time.Now().UnixNano())), js, 0o644)
			}
			t.Fatalf("%s", fail)
		}
	})
}

func execFuzzCase(c FuzzCase) kit.Outcome {
	fail, nt, skipped := checkFuzzInput(c)
	o := kit.Outcome{Fail: fail, NonTrivial: nt}
	if skipped {
		o.Labels = append(o.Labels, "skipped:huge-bulk-or-long")
	}
	return o
}

// TestFuzzSeeds runs the fuzz oracle over rapid-generated byte streams (valid pipelines with random
// splices, truncations and byte flips): the always-on, seed-reproducible part of layer 4.
func TestFuzzSeeds(t *testing.T) {
	kit.Check(t, kit.Spec[FuzzCase]{Sub: "fuzz", Quick: 1500, Thorough: 40000, Gen: genFuzzCase, Exec: execFuzzCase, TrackCase: true})
}

var hostile = []string{"\n", "\r", "\r\n", "$-2\r\n", "$-1\r\n", "*-1\r\n", "*0\r\n", "$0\r\n\r\n", "*1\r\n", "$5\r\n", ":1\r\n", "+OK\r\n",
	"*9223372036854775807\r\n", "$00000001\r\nx\r\n", "*1\r\n$4\r\nPING\r\n", "\x00", "$1\r\n\r\r\n"}

func genFuzzCase(t *rapid.T) FuzzCase {
	stream, _ := encode(genCmds(t, 4))
	if len(stream) > 4000 {
		stream = stream[:4000]
	}
	nm := rapid.IntRange(0, 3).Draw(t, "mutations")
	for i := 0; i < nm && len(stream) > 0; i++ {
		pos := rapid.IntRange(0, len(stream)-1).Draw(t, "pos")
		switch rapid.IntRange(0, 4).Draw(t, "mutation") {
		case 0:
			stream[pos] = rapid.Byte().Draw(t, "byte")
		case 1:
			end := pos + rapid.IntRange(1, 6).Draw(t, "dellen")
			if end > len(stream) {
				end = len(stream)
			}
			stream = append(stream[:pos:pos], stream[end:]...)
		case 2:
			ins := rapid.SampledFrom(hostile).Draw(t, "hostile")
			stream = append(stream[:pos:pos], append([]byte(ins), stream[pos:]...)...)
		case 3:
			stream = stream[:pos]
		default:
			stream = append(stream, stream[pos:]...)
		}
	}
	return FuzzCase{Data: kit.B(stream), Cut: rapid.IntRange(0, 65535).Draw(t, "cut")}
}

var _ = strings.Repeat
