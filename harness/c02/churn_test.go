package c02

import (
	"fmt"
	"net"
	"runtime"
	"sync"
	"testing"
	"time"

	"pgregory.net/rapid"

	"verifharness/kit"
	"verifharness/respx"
	"verifharness/srv"
)

// ------------------------------------------------------------------------------------------------
// Layer 5: connections that come and go. Many connections are opened and dropped at once - closed
// before a byte is sent, reset (SO_LINGER 0), closed in the middle of a request, or half-closed after a
// complete request - while a witness connection keeps writing and reading back a tagged value. Nothing of that may disturb the
// witness, and the server must stay up ("malformed input never ... disturbs other connections").
// ------------------------------------------------------------------------------------------------

type ChurnCase struct {
	Workers int    `json:"workers"` // goroutines opening connections
	Each    int    `json:"each"`    // connections per goroutine
	Mode    string `json:"mode"`    // close | reset | midrequest | halfclose | mixed
	Pinned  bool   `json:"pinned"`  // the server's threads share one CPU
}

// The churn server runs with all its threads on one CPU (taskset): the kernel then preempts its
// goroutines' threads at arbitrary instructions, which is what a loaded machine does to it anyway.
func ensureChurnServer(pinned bool) error {
	if server != nil && server.Alive() && serverPinned == pinned {
		if c, err := server.Dial(); err == nil {
			_, err = c.DoS(2*time.Second, "PING")
			c.Close()
			if err == nil {
				return nil
			}
		}
	}
	if server != nil {
		server.Stop()
	}
	o := srv.Options{}
	if pinned {
		o.Wrap = fmt.Sprintf("taskset -c %d", (kit.Shard()*3+1)%runtime.NumCPU())
	}
	s, err := srv.Start(o)
	server, serverPinned = s, pinned
	return err
}

var serverPinned bool

func execChurn(c ChurnCase) kit.Outcome {
	if err := ensureChurnServer(c.Pinned); err != nil {
		return kit.Outcome{Fail: "infrastructure: " + err.Error()}
	}
	o := kit.Outcome{NonTrivial: c.Workers*c.Each >= 50, Labels: []string{"churn:" + c.Mode, fmt.Sprintf("churn-server-pinned:%v", c.Pinned)}}
	w, err := server.Dial()
	if err != nil {
		return kit.Outcome{Fail: "infrastructure: " + err.Error()}
	}
	defer w.Close()
	stop := make(chan struct{})
	var wg sync.WaitGroup
	addr := server.Addr()
	for g := 0; g < c.Workers; g++ {
		wg.Add(1)
		go func(g int) {
			defer wg.Done()
			for i := 0; i < c.Each; i++ {
				select {
				case <-stop:
					return
				default:
				}
				cn, err := net.DialTimeout("tcp", addr, 2*time.Second)
				if err != nil {
					time.Sleep(5 * time.Millisecond)
					continue
				}
				mode := c.Mode
				if mode == "mixed" {
					mode = []string{"close", "reset", "midrequest", "halfclose"}[(g+i)%4]
				}
				switch mode {
				case "reset":
					if tc, ok := cn.(*net.TCPConn); ok {
						_ = tc.SetLinger(0)
					}
				case "midrequest":
					_, _ = cn.Write([]byte("*2\r\n$4\r\nECHO\r\n$10\r\nabc"))
				case "halfclose":
					_, _ = cn.Write([]byte("*1\r\n$4\r\nPING\r\n"))
					if tc, ok := cn.(*net.TCPConn); ok {
						_ = tc.CloseWrite()
					}
				}
				_ = cn.Close()
			}
		}(g)
	}
	done := make(chan struct{})
	go func() { wg.Wait(); close(done) }()
	n := 0
	for {
		tag := fmt.Sprintf("witness-%d", n)
		v, err := w.DoS(5*time.Second, "SET", "churn:witness", tag)
		if err == nil && v.Kind == respx.Simple {
			v, err = w.DoS(5*time.Second, "GET", "churn:witness")
		}
		if err != nil || v.Kind != respx.Bulk || string(v.Str) != tag {
			close(stop)
			<-done
			if !server.Alive() || server.WaitExit(500*time.Millisecond) {
				o.Fail = fmt.Sprintf("the server died while %d x %d connections came and went (%s): %.400s", c.Workers, c.Each, c.Mode, server.CrashReport())
			} else {
				o.Fail = fmt.Sprintf("the witness connection was disturbed while other connections came and went (%s): SET/GET %s -> %s, %v", c.Mode, tag, v.String(), err)
			}
			return o
		}
		n++
		select {
		case <-done:
			// one more round trip after the storm, and the process must still be there
			time.Sleep(50 * time.Millisecond)
			if v, err := w.DoS(5*time.Second, "PING"); err != nil || !server.Alive() {
				o.Fail = fmt.Sprintf("after %d x %d connections came and went (%s) the server does not answer: %v %s; %.400s", c.Workers, c.Each, c.Mode, err, v.String(), server.CrashReport())
			}
			return o
		default:
		}
	}
}

func TestConnectionChurn(t *testing.T) {
	defer stopServer()
	kit.Check(t, kit.Spec[ChurnCase]{Sub: "churn", Quick: 6, Thorough: 120,
		Gen: func(t *rapid.T) ChurnCase {
			return ChurnCase{Workers: rapid.SampledFrom([]int{4, 16, 48}).Draw(t, "workers"), Each: rapid.SampledFrom([]int{20, 60, 150}).Draw(t, "each"),
				Mode:   rapid.SampledFrom([]string{"close", "reset", "midrequest", "halfclose", "mixed", "mixed"}).Draw(t, "mode"),
				Pinned: rapid.IntRange(0, 3).Draw(t, "pinned") > 0}
		},
		Exec: execChurn})
}
