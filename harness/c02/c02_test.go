// Package c02 checks C02: RESP request decoding is exact, binary-safe and fragmentation-independent;
// malformed input never crashes the server, disturbs other connections or gets executed.
package c02

import (
	"bytes"
	"context"
	"fmt"
	"io"
	"net"
	"sort"
	"strings"
	"testing"
	"time"

	"github.com/innovationb1ue/RedisGO/resp"
	"pgregory.net/rapid"

	"verifharness/inproc"
	"verifharness/kit"
	"verifharness/respx"
	"verifharness/srv"
)

func TestMain(m *testing.M) { kit.Main(m, "C02") }

// Arg is U repeated N times (keeps 70000-byte arguments small in replay files).
type Arg struct {
	U kit.B `json:"u"`
	N int   `json:"n"`
}

func (a Arg) Bytes() []byte { return bytes.Repeat([]byte(a.U), a.N) }

type Chunking struct {
	Kind string `json:"kind"` // all | bytes | fixed | atCR | cuts
	Size int    `json:"size,omitempty"`
	Cuts []int  `json:"cuts,omitempty"` // sorted offsets for kind=cuts (taken modulo the stream length)
}

type Case struct {
	Cmds  [][]Arg  `json:"cmds"`
	Chunk Chunking `json:"chunk"`
}

var units = []string{"", "a", "\r", "\n", "\r\n", "$5\r\n", "*1\r\n", "\x00", "\x80", "\xff", "+OK\r\n", "x\r\ny", " ", "0", "-1"}

func genArg(t *rapid.T) Arg {
	u := rapid.SampledFrom(units).Draw(t, "unit")
	if rapid.IntRange(0, 4).Draw(t, "rawunit") == 0 {
		u = string(rapid.SliceOfN(rapid.Byte(), 1, 6).Draw(t, "raw"))
	}
	if u == "" {
		return Arg{U: "", N: 0}
	}
	target := rapid.SampledFrom([]int{0, 1, 2, 3, 10, 100, 4094, 4095, 4096, 4097, 4098, 8191, 8192, 8193}).Draw(t, "len")
	if rapid.IntRange(0, 24).Draw(t, "huge") == 0 {
		// around 64 KiB and its multiples (whatever an implementation reads a large argument in)
		target = rapid.SampledFrom([]int{65534, 65535, 65536, 65537, 70000, 131071, 131072, 131073, 200000, 262144}).Draw(t, "hugelen")
		if len(u) > 1 && rapid.Bool().Draw(t, "exact") {
			u = u[:1] // a one-byte unit hits the length exactly
		}
	}
	n := target / len(u)
	if target > 0 && n == 0 {
		n = 1
	}
	return Arg{U: kit.B(u), N: n}
}

func genCmds(t *rapid.T, maxCmds int) [][]Arg {
	n := rapid.IntRange(1, maxCmds).Draw(t, "ncmds")
	cmds := make([][]Arg, n)
	for i := range cmds {
		k := rapid.IntRange(1, 8).Draw(t, "nargs")
		for j := 0; j < k; j++ {
			cmds[i] = append(cmds[i], genArg(t))
		}
	}
	return cmds
}

func genChunking(t *rapid.T) Chunking {
	switch rapid.IntRange(0, 5).Draw(t, "ck") {
	case 0:
		return Chunking{Kind: "all"}
	case 1:
		return Chunking{Kind: "bytes"}
	case 2:
		return Chunking{Kind: "fixed", Size: rapid.SampledFrom([]int{1, 2, 3, 5, 7, 64, 4095, 4096, 4097}).Draw(t, "size")}
	case 3:
		return Chunking{Kind: "atCR"}
	}
	return Chunking{Kind: "cuts", Cuts: rapid.SliceOfN(rapid.IntRange(0, 1<<20), 1, 12).Draw(t, "cuts")}
}

func encode(cmds [][]Arg) ([]byte, [][][]byte) {
	var stream []byte
	var want [][][]byte
	for _, c := range cmds {
		args := make([][]byte, len(c))
		for i, a := range c {
			args[i] = a.Bytes()
		}
		want = append(want, args)
		stream = append(stream, respx.EncodeCommand(args)...)
	}
	return stream, want
}

// cutPoints turns a chunking into sorted cut offsets inside (0,len).
func cutPoints(ch Chunking, stream []byte) []int {
	n := len(stream)
	var cuts []int
	switch ch.Kind {
	case "bytes":
		if n > 30000 { // keep huge streams tractable: every byte of the first and last 10000
			for i := 1; i < 10000; i++ {
				cuts = append(cuts, i)
			}
			for i := n - 10000; i < n; i++ {
				cuts = append(cuts, i)
			}
		} else {
			for i := 1; i < n; i++ {
				cuts = append(cuts, i)
			}
		}
	case "fixed":
		for i := ch.Size; i < n; i += ch.Size {
			cuts = append(cuts, i)
		}
	case "atCR":
		for i := 0; i < n; i++ {
			if stream[i] == '\r' {
				cuts = append(cuts, i, i+1)
			}
		}
	case "cuts":
		for _, c := range ch.Cuts {
			if n > 1 {
				cuts = append(cuts, 1+c%(n-1))
			}
		}
	}
	sort.Ints(cuts)
	out := cuts[:0]
	last := 0
	for _, c := range cuts {
		if c > last && c < n {
			out = append(out, c)
			last = c
		}
	}
	return out
}

type chunkReader struct {
	data []byte
	cuts []int
	pos  int
}

func (r *chunkReader) Read(p []byte) (int, error) {
	if r.pos >= len(r.data) {
		return 0, io.EOF
	}
	end := len(r.data)
	for len(r.cuts) > 0 && r.cuts[0] <= r.pos {
		r.cuts = r.cuts[1:]
	}
	if len(r.cuts) > 0 {
		end = r.cuts[0]
	}
	n := copy(p, r.data[r.pos:end])
	r.pos += n
	return n, nil
}

func classify(c Case, stream []byte, cuts []int) (nontrivial bool, labels []string) {
	hasCRLFArg, hasBigArg := false, false
	for _, cmd := range c.Cmds {
		for _, a := range cmd {
			if strings.ContainsAny(string(a.U), "\r\n") && a.N > 0 {
				hasCRLFArg = true
			}
			if len(a.U)*a.N >= 4095 {
				hasBigArg = true
			}
		}
	}
	labels = append(labels, "chunking:"+c.Chunk.Kind)
	if hasCRLFArg {
		labels = append(labels, "arg-with-CR-or-LF")
	}
	if hasBigArg {
		labels = append(labels, "arg>=4095")
	}
	return len(cuts) > 0 && (hasCRLFArg || hasBigArg), labels
}

func init() { inproc.Setup() }

// execRoundTrip: layer 1 - the parser alone, fed through a reader with generated chunk boundaries.
func execRoundTrip(c Case) kit.Outcome {
	stream, want := encode(c.Cmds)
	cuts := cutPoints(c.Chunk, stream)
	nt, labels := classify(c, stream, cuts)
	o := kit.Outcome{NonTrivial: nt, Labels: labels}
	ctx, cancel := context.WithCancel(context.Background())
	defer cancel()
	ch := resp.ParseStream(ctx, &chunkReader{data: stream, cuts: append([]int{}, cuts...)})
	next := func() (*resp.ParsedRes, bool) {
		select {
		case r, ok := <-ch:
			if !ok {
				return nil, false
			}
			return r, true
		case <-time.After(10 * time.Second):
			return nil, false
		}
	}
	for i, w := range want {
		r, ok := next()
		if !ok {
			o.Fail = fmt.Sprintf("command %d of %d never arrived from the parser (channel closed or no value for 10 s)", i, len(want))
			return o
		}
		if r.Err != nil {
			o.Fail = fmt.Sprintf("command %d: parser reported %v for a well-formed stream", i, r.Err)
			return o
		}
		arr, isArr := r.Data.(*resp.ArrayData)
		if !isArr {
			o.Fail = fmt.Sprintf("command %d: parser delivered %T, not an array", i, r.Data)
			return o
		}
		got := arr.ToCommand()
		if len(got) != len(w) {
			o.Fail = fmt.Sprintf("command %d: %d arguments decoded, %d were encoded", i, len(got), len(w))
			return o
		}
		for j := range w {
			if !bytes.Equal(got[j], w[j]) {
				o.Fail = fmt.Sprintf("command %d argument %d: decoded %d bytes %.60q, encoded %d bytes %.60q", i, j, len(got[j]), got[j], len(w[j]), w[j])
				return o
			}
		}
	}
	r, ok := next()
	if !ok || r.Err != io.EOF {
		o.Fail = fmt.Sprintf("after the last command the parser must report EOF, got %+v (ok=%v)", r, ok)
	}
	return o
}

func TestRoundTrip(t *testing.T) {
	kit.Check(t, kit.Spec[Case]{Sub: "roundtrip", Quick: 1500, Thorough: 40000,
		Gen:  func(t *rapid.T) Case { return Case{Cmds: genCmds(t, 12), Chunk: genChunking(t)} },
		Exec: execRoundTrip, TrackCase: true})
}

// ---------------------------------------------------------------- layer 2: TCP, end to end

var server *srv.Server

func ensureServer() error {
	if server != nil && server.Alive() {
		// health check: a server that is about to exit must not be handed to the next case
		if c, err := server.Dial(); err == nil {
			_, err = c.DoS(2*time.Second, "PING")
			c.Close()
			if err == nil {
				return nil
			}
		}
	}
	if server != nil {
		server.Stop()
	}
	s, err := srv.Start(srv.Options{})
	server = s
	return err
}

func stopServer() {
	if server != nil {
		server.Stop()
		server = nil
	}
}

func writeChunked(c net.Conn, stream []byte, cuts []int, pause bool) error {
	prev := 0
	for _, cut := range append(append([]int{}, cuts...), len(stream)) {
		if cut <= prev {
			continue
		}
		_ = c.SetWriteDeadline(time.Now().Add(10 * time.Second))
		if _, err := c.Write(stream[prev:cut]); err != nil {
			return err
		}
		prev = cut
		if pause && len(cuts) < 200 {
			time.Sleep(200 * time.Microsecond)
		}
	}
	return nil
}

type TCPCase struct {
	Nonce  int      `json:"nonce"`
	Echo   []Arg    `json:"echo"`   // PING <arg> for each
	Pushes [][]Arg  `json:"pushes"` // RPUSH key <args...> each to its own key, then LRANGE
	Chunk  Chunking `json:"chunk"`
}

var caseSeq int

func execTCP(c TCPCase) kit.Outcome {
	if err := ensureServer(); err != nil {
		return kit.Outcome{Fail: "infrastructure: " + err.Error()}
	}
	caseSeq++
	prefix := fmt.Sprintf("c02:%d:%d:", caseSeq, c.Nonce)
	var cmds [][][]byte
	type expect struct {
		kind string
		arg  []byte
		list [][]byte
	}
	var exp []expect
	for _, a := range c.Echo {
		b := a.Bytes()
		cmds = append(cmds, [][]byte{[]byte("PING"), b})
		exp = append(exp, expect{kind: "echo", arg: b})
	}
	for i, p := range c.Pushes {
		key := []byte(fmt.Sprintf("%sl%d", prefix, i))
		args := [][]byte{[]byte("RPUSH"), key}
		var elems [][]byte
		for _, a := range p {
			elems = append(elems, a.Bytes())
		}
		args = append(args, elems...)
		cmds = append(cmds, args)
		exp = append(exp, expect{kind: "int"})
		cmds = append(cmds, [][]byte{[]byte("LRANGE"), key, []byte("0"), []byte("-1")})
		exp = append(exp, expect{kind: "list", list: elems})
		cmds = append(cmds, [][]byte{[]byte("DEL"), key})
		exp = append(exp, expect{kind: "int"})
	}
	var stream []byte
	for _, cm := range cmds {
		stream = append(stream, respx.EncodeCommand(cm)...)
	}
	cuts := cutPoints(c.Chunk, stream)
	o := kit.Outcome{NonTrivial: len(cuts) > 0 && len(cmds) > 1, Labels: []string{"tcp-chunking:" + c.Chunk.Kind}}
	conn, err := server.Dial()
	if err != nil {
		return kit.Outcome{Fail: "infrastructure: " + err.Error()}
	}
	defer conn.Close()
	werr := make(chan error, 1)
	go func() { werr <- writeChunked(conn.C, stream, cuts, true) }()
	for i, e := range exp {
		v, err := conn.Read(10 * time.Second)
		if err != nil {
			if !server.Alive() {
				o.Fail = fmt.Sprintf("server died: %s", server.CrashReport())
				stopServer()
				return o
			}
			o.Fail = fmt.Sprintf("reply %d of %d (%s): %v", i, len(exp), e.kind, err)
			return o
		}
		switch e.kind {
		case "echo":
			if v.Kind != respx.Bulk || v.Null || !bytes.Equal(v.Str, e.arg) {
				o.Fail = fmt.Sprintf("reply %d: PING echoed %.60s, sent %d bytes %.60q", i, v.String(), len(e.arg), e.arg)
				return o
			}
		case "int":
			if v.Kind != respx.Integer {
				o.Fail = fmt.Sprintf("reply %d: expected an integer, got %.80s", i, v.String())
				return o
			}
		case "list":
			if v.Kind != respx.Array || len(v.Arr) != len(e.list) {
				o.Fail = fmt.Sprintf("reply %d: LRANGE returned %.80s, %d elements were pushed", i, v.String(), len(e.list))
				return o
			}
			for j := range e.list {
				if !bytes.Equal(v.Arr[j].Str, e.list[j]) {
					o.Fail = fmt.Sprintf("reply %d: element %d is %d bytes %.60q, pushed %d bytes %.60q", i, j, len(v.Arr[j].Str), v.Arr[j].Str, len(e.list[j]), e.list[j])
					return o
				}
			}
		}
	}
	if err := <-werr; err != nil {
		o.Fail = "write failed: " + err.Error()
		return o
	}
	// exactly N replies: nothing further may arrive
	if v, err := conn.Read(30 * time.Millisecond); err == nil {
		o.Fail = fmt.Sprintf("an extra reply arrived after the %d expected ones: %.80s", len(exp), v.String())
	}
	return o
}

func TestTCP(t *testing.T) {
	defer stopServer()
	kit.Check(t, kit.Spec[TCPCase]{Sub: "tcp", Quick: 150, Thorough: 3000,
		Gen: func(t *rapid.T) TCPCase {
			c := TCPCase{Nonce: rapid.IntRange(0, 1<<30).Draw(t, "nonce"), Chunk: genChunking(t)}
			ne := rapid.IntRange(0, 4).Draw(t, "nechoes")
			for i := 0; i < ne; i++ {
				c.Echo = append(c.Echo, genArg(t))
			}
			np := rapid.IntRange(1, 3).Draw(t, "npushes")
			for i := 0; i < np; i++ {
				k := rapid.IntRange(1, 5).Draw(t, "nelems")
				var p []Arg
				for j := 0; j < k; j++ {
					p = append(p, genArg(t))
				}
				c.Pushes = append(c.Pushes, p)
			}
			return c
		},
		Exec: execTCP})
}

// ---------------------------------------------------------------- layer 3: malformed input

type MalCase struct {
	Nonce    int    `json:"nonce"`
	Prefix   int    `json:"prefix"` // number of valid SETs before
	Suffix   int    `json:"suffix"` // number of valid SETs after
	Mutation string `json:"mutation"`
	Param    int    `json:"param"`
	Raw      kit.B  `json:"raw,omitempty"` // for mutation "raw": arbitrary bytes instead of a mutated unit
	Chunk    Chunking `json:"chunk"`
}

var mutations = []string{"bareLF-header", "bareLF-bulk", "noCR", "shortLen", "longLen", "lenNotNumber", "lenEmpty", "lenNegative", "lenHuge",
	"arrLenNotNumber", "arrLenNegative", "arrLenHuge", "truncate", "typeByte", "inlineGarbage", "nonCommandValues", "raw", "lonelyLF",
	"embeddedShort", "embeddedShort", "embeddedLong", "lenWrap", "arrLenWrap"}

func mutate(m string, param int, raw string, unit []byte) []byte {
	// unit is "*3\r\n$3\r\nSET\r\n$<n>\r\n<key>\r\n$1\r\nx\r\n"
	s := string(unit)
	switch m {
	case "bareLF-header":
		return []byte(strings.Replace(s, "*3\r\n", "*3\n", 1))
	case "bareLF-bulk":
		return []byte(strings.Replace(s, "$3\r\nSET\r\n", "$3\nSET\r\n", 1))
	case "noCR":
		return []byte(strings.Replace(s, "SET\r\n", "SET\n\n", 1))
	case "shortLen":
		return []byte(strings.Replace(s, "$3\r\nSET", "$2\r\nSET", 1))
	case "longLen":
		return []byte(strings.Replace(s, "$3\r\nSET", "$4\r\nSET", 1))
	case "lenNotNumber":
		return []byte(strings.Replace(s, "$3\r\nSET", "$x3\r\nSET", 1))
	case "lenEmpty":
		return []byte(strings.Replace(s, "$3\r\nSET", "$\r\nSET", 1))
	case "lenNegative":
		return []byte(strings.Replace(s, "$3\r\nSET", "$-2\r\nSET", 1))
	case "lenHuge":
		h := []string{"2147483648", "4611686018427387904", "9223372036854775807", "18446744073709551616", "9223372036854775806"}[param%5]
		return []byte(strings.Replace(s, "$3\r\nSET", "$"+h+"\r\nSET", 1))
	case "lenWrap":
		// the announced length is the right one plus a multiple of 2^64 (or 2^32): a digit loop without an
		// overflow check reads it as the right one
		h := []string{"18446744073709551619", "36893488147419103235", "4294967299", "184467440737095516163"}[param%4]
		return []byte(strings.Replace(s, "$3\r\nSET", "$"+h+"\r\nSET", 1))
	case "arrLenWrap":
		h := []string{"18446744073709551619", "36893488147419103235", "4294967299"}[param%3]
		return []byte(strings.Replace(s, "*3\r\n", "*"+h+"\r\n", 1))
	case "arrLenNotNumber":
		return []byte(strings.Replace(s, "*3\r\n", "*three\r\n", 1))
	case "arrLenNegative":
		return []byte(strings.Replace(s, "*3\r\n", "*-3\r\n", 1))
	case "arrLenHuge":
		h := []string{"2147483648", "9223372036854775807", "18446744073709551616"}[param%3]
		return []byte(strings.Replace(s, "*3\r\n", "*"+h+"\r\n", 1))
	case "truncate":
		n := 1 + param%(len(unit)-1)
		return unit[:n]
	case "typeByte":
		b := append([]byte{}, unit...)
		b[0] = "!#%&(),.;<=>?@^_`{|}~"[param%21]
		return b
	case "inlineGarbage":
		return []byte("GET / HTTP/1.1\r\nHost: x\r\n\r\n")
	case "nonCommandValues":
		return []byte([]string{"+OK\r\n", ":1\r\n", "$-1\r\n", "*0\r\n", "*-1\r\n", "*1\r\n*1\r\n$1\r\nx\r\n", "-ERR x\r\n", "$3\r\nfoo\r\n"}[param%8])
	case "lonelyLF":
		return []byte("\n")
	case "embeddedShort", "embeddedLong":
		// a SET whose value is itself the wire form of another command, with the value's length
		// mis-announced: a server that answers the protocol error and keeps parsing the same
		// connection re-synchronises inside the value and executes the embedded command
		key := unit[bytes.Index(unit, []byte("evil"))-len(tagOf(unit)):]
		key = key[:bytes.IndexByte(key, '\r')]
		inner := respx.EncodeCommand([][]byte{[]byte("SET"), append(append([]byte{}, key...), []byte("-pwned")...), []byte("1")})
		val := append([]byte("x\r\n"), inner...)
		announced := 1 + param%3 // shorter than the payload
		if m == "embeddedLong" {
			announced = len(val) - 2 - param%5 // cuts the payload just before its end
			if announced < 1 {
				announced = 1
			}
		}
		var b bytes.Buffer
		fmt.Fprintf(&b, "*3\r\n$3\r\nSET\r\n$%d\r\n%s\r\n$%d\r\n", len(key), key, announced)
		b.Write(val)
		b.WriteString("\r\n")
		return b.Bytes()
	}
	return []byte(raw)
}

// tagOf returns the "m<seq>:<nonce>:" prefix of the key inside a SET unit.
func tagOf(unit []byte) []byte {
	i := bytes.Index(unit, []byte("evil"))
	j := i
	for j > 0 && unit[j-1] != '\n' {
		j--
	}
	return unit[j:i]
}

func execMalformed(c MalCase) kit.Outcome {
	if err := ensureServer(); err != nil {
		return kit.Outcome{Fail: "infrastructure: " + err.Error()}
	}
	caseSeq++
	tag := fmt.Sprintf("m%d:%d:", caseSeq, c.Nonce)
	var stream []byte
	want := map[string]string{} // keys that must / may exist with exactly this value
	must := map[string]bool{}
	for i := 0; i < c.Prefix; i++ {
		k, v := fmt.Sprintf("%sp%d", tag, i), fmt.Sprintf("v%d", i)
		stream = append(stream, respx.EncodeCommand([][]byte{[]byte("SET"), []byte(k), []byte(v)})...)
		want[k], must[k] = v, true
	}
	evil := tag + "evil"
	unit := respx.EncodeCommand([][]byte{[]byte("SET"), []byte(evil), []byte("x")})
	bad := mutate(c.Mutation, c.Param, string(c.Raw), unit)
	stream = append(stream, bad...)
	for i := 0; i < c.Suffix; i++ {
		k, v := fmt.Sprintf("%ss%d", tag, i), fmt.Sprintf("w%d", i)
		stream = append(stream, respx.EncodeCommand([][]byte{[]byte("SET"), []byte(k), []byte(v)})...)
		want[k] = v
	}
	// The strict decoder decides what is well-formed: commands it decodes completely before the first
	// framing error (or before the stream ends inside a value) are well-formed and MUST have been
	// executed as decoded; everything from the error on must not be executed in any altered form.
	off := 0
	framingErr := false
	strict := true
	for off < len(stream) {
		v, n, err := respx.Decode(stream[off:])
		if err != nil {
			framingErr = err != respx.ErrIncomplete
			break
		}
		// a command is an array of >= 1 bulk strings; any other well-formed value (simple string,
		// integer, nil, empty or nested array) is not a command: the server may ignore it or end the
		// connection there, so commands after it are allowed but no longer required to take effect
		isCmd := v.Kind == respx.Array && !v.Null && len(v.Arr) >= 1
		for _, e := range v.Arr {
			if e.Kind != respx.Bulk || e.Null {
				isCmd = false
			}
		}
		if !isCmd {
			strict = false
		}
		if isCmd && len(v.Arr) == 3 && strings.EqualFold(string(v.Arr[0].Str), "SET") {
			k := string(v.Arr[1].Str)
			want[k] = string(v.Arr[2].Str)
			if strict {
				must[k] = true
			}
		}
		off += n
	}
	o := kit.Outcome{NonTrivial: c.Prefix >= 1 && c.Suffix >= 1, Labels: []string{"mutation:" + c.Mutation}}
	if framingErr {
		o.Labels = append(o.Labels, "framing-error-confirmed-by-strict-decoder")
	} else {
		o.Labels = append(o.Labels, "stream-still-well-formed-or-incomplete")
	}
	other, err := server.Dial() // a second connection opened before the input
	if err != nil {
		return kit.Outcome{Fail: "infrastructure: " + err.Error()}
	}
	defer other.Close()
	conn, err := server.Dial()
	if err != nil {
		return kit.Outcome{Fail: "infrastructure: " + err.Error()}
	}
	defer conn.Close()
	_ = writeChunked(conn.C, stream, cutPoints(c.Chunk, stream), false) // the server may close early: write errors are fine
	if tc, ok := conn.C.(*net.TCPConn); ok {
		_ = tc.CloseWrite()
	}
	// (c) the offending connection ends: the server closes it (after an error reply or silently)
	closed := false
	deadline := time.Now().Add(5 * time.Second)
	buf := make([]byte, 65536)
	for time.Now().Before(deadline) {
		_ = conn.C.SetReadDeadline(time.Now().Add(500 * time.Millisecond))
		_, err := conn.C.Read(buf)
		if err != nil {
			if ne, ok := err.(net.Error); ok && ne.Timeout() {
				continue
			}
			closed = true
			break
		}
	}
	fail := func(format string, a ...any) kit.Outcome {
		msg := fmt.Sprintf(format, a...)
		// any anomaly may be the first symptom of a dying process: give it a moment and say so
		if server.WaitExit(700 * time.Millisecond) {
			msg = fmt.Sprintf("server process died: %.600s", server.CrashReport())
			stopServer()
		}
		o.Fail = fmt.Sprintf("mutation %s: ", c.Mutation) + msg + fmt.Sprintf(" | malformed unit %.80q", bad)
		return o
	}
	// (a) alive
	if server.WaitExit(50 * time.Millisecond) {
		return fail("server process died")
	}
	if !closed {
		return fail("the connection was neither closed nor ended by the server within 5 s after the client finished sending")
	}
	// (b) other connections keep working
	if v, err := other.DoS(2*time.Second, "PING"); err != nil || string(v.Str) != "PONG" {
		return fail("a connection opened before the input no longer works: %v %s", err, v.String())
	}
	fresh, err := server.Dial()
	if err != nil {
		return fail("a fresh connection is refused: %v", err)
	}
	defer fresh.Close()
	// (d) effects
	for k := range must {
		v, err := fresh.DoS(2*time.Second, "GET", k)
		if err != nil {
			return fail("GET on a fresh connection: %v", err)
		}
		if v.Null || string(v.Str) != want[k] {
			return fail("well-formed command SET %q %q (before the malformed part) was not executed as sent: GET returns %s", k, want[k], v.String())
		}
	}
	v, err := fresh.DoS(5*time.Second, "KEYS", tag+"*")
	if err != nil {
		return fail("KEYS on a fresh connection: %v", err)
	}
	for _, e := range v.Arr {
		k := string(e.Str)
		wv, known := want[k]
		if !known {
			return fail("key %q exists although no well-formed command created it (something was executed from the malformed part)", k)
		}
		g, err := fresh.DoS(2*time.Second, "GET", k)
		if err != nil || string(g.Str) != wv {
			return fail("key %q holds %s, the only well-formed command for it sets %q (executed in altered form)", k, g.String(), wv)
		}
	}
	// clean up
	for k := range want {
		_, _ = fresh.DoS(2*time.Second, "DEL", k)
	}
	return o
}

func TestMalformed(t *testing.T) {
	defer stopServer()
	kit.Check(t, kit.Spec[MalCase]{Sub: "malformed", Quick: 400, Thorough: 8000,
		Gen: func(t *rapid.T) MalCase {
			c := MalCase{Nonce: rapid.IntRange(0, 1<<30).Draw(t, "nonce"), Prefix: rapid.IntRange(0, 3).Draw(t, "prefix"),
				Suffix: rapid.IntRange(0, 3).Draw(t, "suffix"), Mutation: rapid.SampledFrom(mutations).Draw(t, "mutation"),
				Param: rapid.IntRange(0, 1000).Draw(t, "param"), Chunk: genChunking(t)}
			if c.Mutation == "raw" {
				c.Raw = kit.B(rapid.SliceOfN(rapid.SampledFrom([]byte("*$+-:\r\n0123456789SETx\x00\xff ")), 1, 40).Draw(t, "rawbytes"))
			}
			return c
		},
		Exec: execMalformed})
}

func TestReplay(t *testing.T) {
	defer stopServer()
	kit.Replay[Case](t, map[string]func(kit.RawCase) kit.Outcome{
		"roundtrip": kit.ReplaySub(execRoundTrip),
		"tcp":       kit.ReplaySub(execTCP),
		"malformed": kit.ReplaySub(execMalformed),
		"fuzz":      kit.ReplaySub(execFuzzCase),
		"churn":     kit.ReplaySub(execChurn),
	})
}
