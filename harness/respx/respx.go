// Package respx is an independent RESP2 codec ("the conforming client"). It shares no code with
// /repo/resp. The decoder is strict: anything that is not exactly RESP2 is a framing error.
package respx

import (
	"bufio"
	"bytes"
	"errors"
	"fmt"
	"io"
	"strconv"
)

type Kind byte

const (
	Simple  Kind = '+'
	Error   Kind = '-'
	Integer Kind = ':'
	Bulk    Kind = '$'
	Array   Kind = '*'
)

// Value is one decoded RESP value.
type Value struct {
	Kind Kind
	Str  []byte  // Simple, Error, Bulk payload
	Int  int64   // Integer
	Arr  []Value // Array
	Null bool    // nil bulk / nil array
}

func (v Value) String() string {
	switch v.Kind {
	case Simple:
		return "+" + strconv.Quote(string(v.Str))
	case Error:
		return "-" + strconv.Quote(string(v.Str))
	case Integer:
		return ":" + strconv.FormatInt(v.Int, 10)
	case Bulk:
		if v.Null {
			return "$nil"
		}
		return "$" + strconv.Quote(string(v.Str))
	case Array:
		if v.Null {
			return "*nil"
		}
		var b bytes.Buffer
		b.WriteString("[")
		for i, e := range v.Arr {
			if i > 0 {
				b.WriteString(" ")
			}
			b.WriteString(e.String())
		}
		b.WriteString("]")
		return b.String()
	}
	return "?"
}

// EncodeCommand encodes an argument vector as an array of bulk strings.
func EncodeCommand(args [][]byte) []byte {
	var b bytes.Buffer
	fmt.Fprintf(&b, "*%d\r\n", len(args))
	for _, a := range args {
		fmt.Fprintf(&b, "$%d\r\n", len(a))
		b.Write(a)
		b.WriteString("\r\n")
	}
	return b.Bytes()
}

// FramingError reports a protocol violation at a byte offset.
type FramingError struct {
	Off int
	Msg string
}

func (e *FramingError) Error() string { return fmt.Sprintf("framing error at byte %d: %s", e.Off, e.Msg) }

// ErrIncomplete means the buffer ends inside a value (more bytes needed).
var ErrIncomplete = errors.New("incomplete RESP value")

// Decode decodes one value from the start of buf; returns the value and the bytes consumed.
func Decode(buf []byte) (Value, int, error) {
	return decodeAt(buf, 0, 0)
}

func readLine(buf []byte, off int) ([]byte, int, error) {
	// a line ends at the first CR LF; a bare LF or a CR not followed by LF inside a line is an error
	for i := off; i < len(buf); i++ {
		if buf[i] == '\n' {
			return nil, 0, &FramingError{i, "bare LF inside a line"}
		}
		if buf[i] == '\r' {
			if i+1 >= len(buf) {
				return nil, 0, ErrIncomplete
			}
			if buf[i+1] != '\n' {
				return nil, 0, &FramingError{i, "CR not followed by LF"}
			}
			return buf[off:i], i + 2, nil
		}
	}
	return nil, 0, ErrIncomplete
}

func parseInt(b []byte, off int) (int64, error) {
	if len(b) == 0 {
		return 0, &FramingError{off, "empty integer"}
	}
	i := 0
	if b[0] == '-' {
		i = 1
	}
	if i == len(b) {
		return 0, &FramingError{off, "bad integer"}
	}
	for j := i; j < len(b); j++ {
		if b[j] < '0' || b[j] > '9' {
			return 0, &FramingError{off, "bad integer " + strconv.Quote(string(b))}
		}
	}
	n, err := strconv.ParseInt(string(b), 10, 64)
	if err != nil {
		return 0, &FramingError{off, "integer out of range"}
	}
	return n, nil
}

func decodeAt(buf []byte, off int, depth int) (Value, int, error) {
	if depth > 16 {
		return Value{}, 0, &FramingError{off, "nesting too deep"}
	}
	if off >= len(buf) {
		return Value{}, 0, ErrIncomplete
	}
	k := Kind(buf[off])
	switch k {
	case Simple, Error:
		line, next, err := readLine(buf, off+1)
		if err != nil {
			return Value{}, 0, err
		}
		return Value{Kind: k, Str: append([]byte(nil), line...)}, next, nil
	case Integer:
		line, next, err := readLine(buf, off+1)
		if err != nil {
			return Value{}, 0, err
		}
		n, err := parseInt(line, off+1)
		if err != nil {
			return Value{}, 0, err
		}
		return Value{Kind: k, Int: n}, next, nil
	case Bulk:
		line, next, err := readLine(buf, off+1)
		if err != nil {
			return Value{}, 0, err
		}
		n, err := parseInt(line, off+1)
		if err != nil {
			return Value{}, 0, err
		}
		if n == -1 {
			return Value{Kind: k, Null: true}, next, nil
		}
		if n < 0 {
			return Value{}, 0, &FramingError{off, "negative bulk length"}
		}
		if n > 512*1024*1024 {
			return Value{}, 0, &FramingError{off, "bulk length beyond the protocol maximum (512 MB)"}
		}
		if int64(len(buf)-next) < n+2 {
			return Value{}, 0, ErrIncomplete
		}
		end := next + int(n)
		if buf[end] != '\r' || buf[end+1] != '\n' {
			return Value{}, 0, &FramingError{end, "bulk payload not followed by CRLF"}
		}
		return Value{Kind: k, Str: append([]byte{}, buf[next:end]...)}, end + 2, nil
	case Array:
		line, next, err := readLine(buf, off+1)
		if err != nil {
			return Value{}, 0, err
		}
		n, err := parseInt(line, off+1)
		if err != nil {
			return Value{}, 0, err
		}
		if n == -1 {
			return Value{Kind: k, Null: true}, next, nil
		}
		if n < 0 {
			return Value{}, 0, &FramingError{off, "negative array length"}
		}
		v := Value{Kind: k, Arr: make([]Value, 0, min64(n, 1024))}
		for i := int64(0); i < n; i++ {
			e, nn, err := decodeAt(buf, next, depth+1)
			if err != nil {
				return Value{}, 0, err
			}
			v.Arr = append(v.Arr, e)
			next = nn
		}
		return v, next, nil
	}
	return Value{}, 0, &FramingError{off, fmt.Sprintf("bad type byte %q", buf[off])}
}

func min64(a, b int64) int64 {
	if a < b {
		return a
	}
	return b
}

// DecodeExactlyOne requires buf to be exactly one complete value with nothing left over.
func DecodeExactlyOne(buf []byte) (Value, error) {
	v, n, err := Decode(buf)
	if err != nil {
		return Value{}, err
	}
	if n != len(buf) {
		return Value{}, &FramingError{n, fmt.Sprintf("%d trailing bytes after a complete value", len(buf)-n)}
	}
	return v, nil
}

// Reader decodes a stream incrementally (for TCP clients).
type Reader struct {
	r   *bufio.Reader
	buf []byte
}

func NewReader(r io.Reader) *Reader { return &Reader{r: bufio.NewReaderSize(r, 65536)} }

// Read returns the next value; it blocks until a whole value is available, the stream ends
// (io.EOF / io.ErrUnexpectedEOF if inside a value) or a framing error is seen.
func (rd *Reader) Read() (Value, error) {
	for {
		if len(rd.buf) > 0 {
			v, n, err := Decode(rd.buf)
			if err == nil {
				rd.buf = rd.buf[n:]
				return v, nil
			}
			if err != ErrIncomplete {
				return Value{}, err
			}
		}
		tmp := make([]byte, 65536)
		n, err := rd.r.Read(tmp)
		if n > 0 {
			rd.buf = append(rd.buf, tmp[:n]...)
			continue
		}
		if err != nil {
			if err == io.EOF && len(rd.buf) > 0 {
				return Value{}, io.ErrUnexpectedEOF
			}
			return Value{}, err
		}
	}
}

// Buffered returns bytes received but not yet decoded.
func (rd *Reader) Buffered() []byte { return rd.buf }
