package srv

import (
	"encoding/json"
	"fmt"
	"os"
	"os/exec"
	"path/filepath"
	"strings"
	"syscall"
	"time"

	"verifharness/kit"
)

// Node is one cluster member process.
type Node struct {
	ID       int
	Port     int // client (RESP) port
	RaftPort int
	Dir      string
	srv      *Server
	env      []string
	join     bool
}

// Cluster is a set of node processes started from the binary built from the working tree.
type Cluster struct {
	Nodes []*Node
	Dir   string
	Env   []string // extra environment for every node (hooks: VERIF_SNAPCOUNT, ...)
	peers []string // raft URLs by node id-1 (what every node is told about the others)
	// Net is the layer of link forwarders between the nodes' Raft transports (nil unless ClusterOptions.Links).
	Net *LinkNet
}

// ClusterOptions configure StartCluster.
type ClusterOptions struct {
	Size int
	Env  []string
	// PeerURL, if set, returns the URL node `from` must use to reach node `to` (link proxies);
	// the default is the real raft listener of `to`.
	PeerURL func(from, to int, real string) string
	// Links: every node reaches every other node through a forwarder of its own (Cluster.Net), so links
	// can be cut, black-holed and delayed.
	Links bool
	// NodeEnv, if set, returns extra environment for node id (in addition to Env).
	NodeEnv func(id int, dir string) []string
}

// StartCluster boots Size nodes and waits until every node serves a write.
func StartCluster(o ClusterOptions) (*Cluster, error) {
	seqMu.Lock()
	seq++
	n := seq
	seqMu.Unlock()
	dir := filepath.Join(kit.WorkDir(), fmt.Sprintf("cluster-%d-%d", os.Getpid(), n))
	if err := os.MkdirAll(dir, 0o755); err != nil {
		return nil, err
	}
	c := &Cluster{Dir: dir, Env: o.Env}
	ports, err := FreePorts(2 * o.Size)
	if err != nil {
		return nil, err
	}
	for i := 1; i <= o.Size; i++ {
		p, rp := ports[2*(i-1)], ports[2*(i-1)+1]
		nd := &Node{ID: i, Port: p, RaftPort: rp, Dir: filepath.Join(dir, fmt.Sprintf("n%d", i))}
		if o.NodeEnv != nil {
			nd.env = o.NodeEnv(i, nd.Dir)
		}
		c.Nodes = append(c.Nodes, nd)
		c.peers = append(c.peers, fmt.Sprintf("http://127.0.0.1:%d", rp))
	}
	if o.Links {
		c.Net = NewLinkNet()
	}
	for _, nd := range c.Nodes {
		urls := make([]string, len(c.Nodes))
		for j := range c.Nodes {
			urls[j] = c.peers[j]
			if o.PeerURL != nil && j+1 != nd.ID {
				urls[j] = o.PeerURL(nd.ID, j+1, c.peers[j])
			}
			if c.Net != nil && j+1 != nd.ID {
				u, err := c.Net.Add(nd.ID, j+1, fmt.Sprintf("127.0.0.1:%d", c.Nodes[j].RaftPort))
				if err != nil {
					c.Stop()
					return nil, err
				}
				urls[j] = u
			}
		}
		if err := c.writeConfig(nd, urls, false); err != nil {
			c.Stop()
			return nil, err
		}
		if err := c.StartNode(nd.ID); err != nil {
			c.Stop()
			return nil, err
		}
	}
	if err := c.WaitServing(30*time.Second, nil); err != nil {
		logs := c.Logs(800)
		c.Stop()
		return nil, fmt.Errorf("%v\n%s", err, logs)
	}
	return c, nil
}

func (c *Cluster) writeConfig(nd *Node, peerURLs []string, join bool) error {
	if err := os.MkdirAll(nd.Dir, 0o755); err != nil {
		return err
	}
	conf := fmt.Sprintf("host 127.0.0.1\nport %d\nlogdir %s\nloglevel panic\nshardnum 16\n", nd.Port, strings.ToLower(nd.Dir))
	if err := os.WriteFile(filepath.Join(nd.Dir, "redis.conf"), []byte(conf), 0o644); err != nil {
		return err
	}
	cc := map[string]any{"IsCluster": true, "PeerAddrs": strings.Join(peerURLs, ","), "RaftAddr": c.peers[nd.ID-1],
		"PeerIDs": "", "NodeID": nd.ID, "KVPort": nd.Port, "JoinCluster": join}
	b, _ := json.Marshal(cc)
	return os.WriteFile(filepath.Join(nd.Dir, "cluster_config.json"), b, 0o644)
}

// StartNode (re)starts node id in its directory (an existing WAL makes it a restart).
func (c *Cluster) StartNode(id int) error {
	nd := c.Nodes[id-1]
	if nd.srv != nil && nd.srv.Alive() {
		return nil
	}
	logPath := filepath.Join(nd.Dir, "stderr.log")
	lf, err := os.OpenFile(logPath, os.O_CREATE|os.O_WRONLY|os.O_APPEND, 0o644)
	if err != nil {
		return err
	}
	cmd := exec.Command("/bin/sh", "-c", fmt.Sprintf("ulimit -v 6000000; exec %q -config redis.conf -IsCluster -ClusterConfigPath cluster_config.json", Bin()))
	cmd.Dir = nd.Dir
	cmd.Stdout = lf
	cmd.Stderr = lf
	cmd.Env = append(append(os.Environ(), c.Env...), nd.env...)
	cmd.SysProcAttr = &syscall.SysProcAttr{Setpgid: true}
	if err := cmd.Start(); err != nil {
		lf.Close()
		return err
	}
	lf.Close()
	s := &Server{Port: nd.Port, Dir: nd.Dir, cmd: cmd, done: make(chan struct{}), logPath: logPath}
	go func() {
		s.waitErr = cmd.Wait()
		close(s.done)
	}()
	nd.srv = s
	return nil
}

// SetNodeEnv sets extra environment for the next start of node id (crash points etc.).
func (c *Cluster) SetNodeEnv(id int, env []string) { c.Nodes[id-1].env = env }

// Kill sends SIGKILL to node id and waits for it to be gone. The directory is kept.
func (c *Cluster) Kill(id int) {
	nd := c.Nodes[id-1]
	if nd.srv == nil {
		return
	}
	if nd.srv.cmd.Process != nil {
		_ = syscall.Kill(-nd.srv.cmd.Process.Pid, syscall.SIGKILL)
		_ = nd.srv.cmd.Process.Kill()
	}
	nd.srv.WaitExit(5 * time.Second)
}

// Signal sends a signal (SIGSTOP / SIGCONT) to node id.
func (c *Cluster) Signal(id int, sig syscall.Signal) {
	nd := c.Nodes[id-1]
	if nd.srv != nil && nd.srv.cmd.Process != nil {
		_ = syscall.Kill(nd.srv.cmd.Process.Pid, sig)
	}
}

func (c *Cluster) Alive(id int) bool {
	nd := c.Nodes[id-1]
	return nd.srv != nil && nd.srv.Alive()
}

func (c *Cluster) Addr(id int) string { return fmt.Sprintf("127.0.0.1:%d", c.Nodes[id-1].Port) }

func (c *Cluster) Dial(id int) (*Conn, error) { return Dial(c.Addr(id)) }

// CrashReport returns the panic/fatal text of node id, if it died with one.
func (c *Cluster) CrashReport(id int) string {
	nd := c.Nodes[id-1]
	if nd.srv == nil {
		return ""
	}
	return nd.srv.CrashReport()
}

// Logs returns the log tails of all nodes.
func (c *Cluster) Logs(n int) string {
	var sb strings.Builder
	for _, nd := range c.Nodes {
		if nd.srv != nil {
			fmt.Fprintf(&sb, "--- node %d (alive=%v) ---\n%s\n", nd.ID, nd.srv.Alive(), nd.srv.LogTail(n))
		}
	}
	return sb.String()
}

// WaitServing waits until every listed node (default: all that are alive) acknowledges a write.
func (c *Cluster) WaitServing(d time.Duration, ids []int) error {
	if ids == nil {
		for _, nd := range c.Nodes {
			if nd.srv != nil && nd.srv.Alive() {
				ids = append(ids, nd.ID)
			}
		}
	}
	deadline := time.Now().Add(d)
	for _, id := range ids {
		ok := false
		for time.Now().Before(deadline) {
			if !c.Alive(id) {
				rep := c.CrashReport(id)
				if rep == "" && c.Nodes[id-1].srv != nil {
					rep = "last output: " + c.Nodes[id-1].srv.LogTail(500)
				}
				return fmt.Errorf("node %d is not running: %.500s", id, rep)
			}
			cn, err := c.Dial(id)
			if err != nil {
				time.Sleep(100 * time.Millisecond)
				continue
			}
			v, err := cn.DoS(3*time.Second, "SET", fmt.Sprintf("__ready:%d", id), "1")
			cn.Close()
			if err == nil && string(v.Str) == "OK" {
				ok = true
				break
			}
			time.Sleep(100 * time.Millisecond)
		}
		if !ok {
			return fmt.Errorf("node %d did not acknowledge a write within %v", id, d)
		}
	}
	return nil
}

// Stop kills every node and removes the cluster directory.
func (c *Cluster) Stop() {
	for _, nd := range c.Nodes {
		c.Kill(nd.ID)
	}
	if c.Net != nil {
		c.Net.Close()
	}
	if keep := os.Getenv("VERIF_KEEP_CLUSTER"); keep != "" { // debugging aid: keep the node directories
		_ = os.RemoveAll(keep)
		if os.Rename(c.Dir, keep) == nil {
			return
		}
	}
	_ = os.RemoveAll(c.Dir)
}

// Leader returns the node that, by its own log, is the current Raft leader (0 if none can be named):
// the alive node whose last role line is "became leader at term N", with the highest N.
func (c *Cluster) Leader() int {
	best, bestTerm := 0, -1
	for _, nd := range c.Nodes {
		if nd.srv == nil || !nd.srv.Alive() {
			continue
		}
		b, err := os.ReadFile(nd.srv.logPath)
		if err != nil {
			continue
		}
		s := string(b)
		i := strings.LastIndex(s, " became leader at term ")
		if i < 0 {
			continue
		}
		if j := strings.LastIndex(s, " became follower at term "); j > i {
			continue
		}
		if j := strings.LastIndex(s, " became candidate at term "); j > i {
			continue
		}
		var term int
		fmt.Sscanf(s[i+len(" became leader at term "):], "%d", &term)
		if term > bestTerm {
			best, bestTerm = nd.ID, term
		}
	}
	return best
}

// AddNode prepares and starts one more node process (id = number of nodes so far + 1) that joins the
// running cluster (JoinCluster = true, told about every existing peer and itself). It returns the id
// and the raft URL to announce with "rconf add <id> <url>".
func (c *Cluster) AddNode() (int, string, error) {
	ports, err := FreePorts(2)
	if err != nil {
		return 0, "", err
	}
	id := len(c.Nodes) + 1
	nd := &Node{ID: id, Port: ports[0], RaftPort: ports[1], Dir: filepath.Join(c.Dir, fmt.Sprintf("n%d", id)), join: true}
	c.Nodes = append(c.Nodes, nd)
	c.peers = append(c.peers, fmt.Sprintf("http://127.0.0.1:%d", ports[1]))
	if err := c.writeConfig(nd, append([]string{}, c.peers...), true); err != nil {
		return 0, "", err
	}
	if err := c.StartNode(id); err != nil {
		return 0, "", err
	}
	return id, c.peers[id-1], nil
}
