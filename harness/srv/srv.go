// Package srv is the process fixture: it runs the server binary built from /repo's working tree
// (VERIF_SERVER_BIN), owns ports and scratch directories, and provides a small RESP client.
package srv

import (
	"bytes"
	"errors"
	"fmt"
	"net"
	"os"
	"os/exec"
	"path/filepath"
	"strconv"
	"strings"
	"sync"
	"syscall"
	"time"

	"verifharness/kit"
	"verifharness/respx"
)

// Server is one running standalone server process.
type Server struct {
	Port    int
	Dir     string
	cmd     *exec.Cmd
	done    chan struct{}
	waitErr error
	logPath string
	mu      sync.Mutex
}

// Options for a standalone server.
type Options struct {
	ShardNum  int // 0 = 16
	Databases int // 0 = 16
	MemLimitK int // ulimit -v in KiB; 0 = 4000000
	// Wrap is put in front of the server command (e.g. "taskset -c 3": all threads of the server share
	// one CPU, so the kernel preempts them at arbitrary points); Env is added to its environment.
	Wrap string
	Env  []string
}

func Bin() string {
	b := os.Getenv("VERIF_SERVER_BIN")
	if b == "" {
		b = filepath.Join(kit.Root(), ".build", "redisgo")
	}
	return b
}

// FreePort returns one free port (see FreePorts).
func FreePort() (int, error) {
	ps, err := FreePorts(1)
	if err != nil {
		return 0, err
	}
	return ps[0], nil
}

// FreePorts returns n distinct free ports. Ports come from a block outside the kernel's ephemeral
// range that is private to this process (chosen from shard number and pid), so that a port stays
// available for a node that is killed and restarted later: nothing else binds it in between (an
// ephemeral port could be handed to any other connection or process in the gap).
var portMu sync.Mutex
var portNext int

func FreePorts(n int) ([]int, error) {
	portMu.Lock()
	defer portMu.Unlock()
	base := 11000 + (kit.Shard()%16)*1000 + (os.Getpid()%10)*100
	if v, err := strconv.Atoi(os.Getenv("VERIF_PORT_OFFSET")); err == nil { // development aid: several runs side by side
		base += v
	}
	var ports []int
	for tries := 0; len(ports) < n && tries < 300; tries++ {
		p := base + portNext%100
		portNext++
		l, err := net.Listen("tcp", fmt.Sprintf("127.0.0.1:%d", p))
		if err != nil {
			continue
		}
		l.Close()
		ports = append(ports, p)
	}
	if len(ports) < n {
		return nil, errors.New("no free ports in this process's block")
	}
	return ports, nil
}

var seq int
var seqMu sync.Mutex

// Start launches a server and waits until it accepts connections.
func Start(o Options) (*Server, error) {
	if o.ShardNum == 0 {
		o.ShardNum = 16
	}
	if o.Databases == 0 {
		o.Databases = 16
	}
	if o.MemLimitK == 0 {
		o.MemLimitK = 4000000
	}
	seqMu.Lock()
	seq++
	n := seq
	seqMu.Unlock()
	var lastErr error
	for attempt := 0; attempt < 5; attempt++ {
		port, err := FreePort()
		if err != nil {
			return nil, err
		}
		dir := filepath.Join(kit.WorkDir(), fmt.Sprintf("srv-%d-%d-%d", os.Getpid(), n, attempt))
		if err := os.MkdirAll(dir, 0o755); err != nil {
			return nil, err
		}
		conf := fmt.Sprintf("host 127.0.0.1\nport %d\nlogdir %s\nloglevel panic\nshardnum %d\ndatabases %d\n", port, strings.ToLower(dir), o.ShardNum, o.Databases)
		// the config parser lower-cases logdir: keep the directory name lower-case
		confPath := filepath.Join(dir, "redis.conf")
		if err := os.WriteFile(confPath, []byte(conf), 0o644); err != nil {
			return nil, err
		}
		logPath := filepath.Join(dir, "stderr.log")
		_ = os.Rename(logPath, logPath+".prev") // the output of the previous run of this node, if any
		lf, err := os.Create(logPath)
		if err != nil {
			return nil, err
		}
		cmd := exec.Command("/bin/sh", "-c", fmt.Sprintf("ulimit -v %d; exec %s %q -config %q", o.MemLimitK, o.Wrap, Bin(), confPath))
		cmd.Dir = dir
		cmd.Env = append(os.Environ(), o.Env...)
		cmd.Stdout = lf
		cmd.Stderr = lf
		cmd.SysProcAttr = &syscall.SysProcAttr{Setpgid: true}
		if err := cmd.Start(); err != nil {
			lf.Close()
			return nil, err
		}
		lf.Close()
		s := &Server{Port: port, Dir: dir, cmd: cmd, done: make(chan struct{}), logPath: logPath}
		go func() {
			s.waitErr = cmd.Wait()
			close(s.done)
		}()
		ok := false
		deadline := time.Now().Add(10 * time.Second)
		for time.Now().Before(deadline) {
			if !s.Alive() {
				break
			}
			c, err := net.DialTimeout("tcp", s.Addr(), 200*time.Millisecond)
			if err == nil {
				c.Close()
				ok = true
				break
			}
			time.Sleep(20 * time.Millisecond)
		}
		if ok {
			return s, nil
		}
		lastErr = fmt.Errorf("server did not come up on port %d: %s", port, s.LogTail(600))
		s.Stop()
	}
	return nil, lastErr
}

func (s *Server) Addr() string { return fmt.Sprintf("127.0.0.1:%d", s.Port) }

// Alive reports whether the process is still running.
func (s *Server) Alive() bool {
	select {
	case <-s.done:
		return false
	default:
		return true
	}
}

// WaitExit waits up to d for the process to exit.
func (s *Server) WaitExit(d time.Duration) bool {
	select {
	case <-s.done:
		return true
	case <-time.After(d):
		return false
	}
}

// LogTail returns the last n bytes the process wrote to stdout/stderr.
func (s *Server) LogTail(n int) string {
	b, err := os.ReadFile(s.logPath)
	if err != nil {
		return ""
	}
	if len(b) > n {
		b = b[len(b)-n:]
	}
	return string(b)
}

// CrashReport returns the panic / fatal error text of a dead server ("" if none found).
func (s *Server) CrashReport() string {
	b, _ := os.ReadFile(s.logPath)
	for _, marker := range []string{"panic: ", "fatal error: "} {
		if i := bytes.Index(b, []byte(marker)); i >= 0 {
			e := i + 1500
			if e > len(b) {
				e = len(b)
			}
			return string(b[i:e])
		}
	}
	// no runtime crash: the last plain-text lines of the output (log.Fatal messages end up here)
	var keep []string
	for _, ln := range strings.Split(string(b), "\n") {
		ascii := ln != ""
		for i := 0; i < len(ln); i++ {
			if ln[i] >= 0x80 {
				ascii = false
				break
			}
		}
		if ascii && (strings.Contains(ln, "raftexample:") || strings.Contains(ln, "atal")) {
			keep = append(keep, ln)
		}
	}
	if len(keep) > 5 {
		keep = keep[len(keep)-5:]
	}
	return strings.Join(keep, "\n")
}

// Stop kills the process (SIGKILL) and removes its directory.
func (s *Server) Stop() {
	if s.cmd != nil && s.cmd.Process != nil {
		_ = syscall.Kill(-s.cmd.Process.Pid, syscall.SIGKILL)
		_ = s.cmd.Process.Kill()
	}
	select {
	case <-s.done:
	case <-time.After(5 * time.Second):
	}
	_ = os.RemoveAll(s.Dir)
}

// ---------------------------------------------------------------- client

// Conn is a RESP client connection.
type Conn struct {
	C  net.Conn
	R  *respx.Reader
	mu sync.Mutex
}

func Dial(addr string) (*Conn, error) {
	c, err := net.DialTimeout("tcp", addr, 2*time.Second)
	if err != nil {
		return nil, err
	}
	if tc, ok := c.(*net.TCPConn); ok {
		_ = tc.SetNoDelay(true)
	}
	return &Conn{C: c, R: respx.NewReader(c)}, nil
}

func (s *Server) Dial() (*Conn, error) { return Dial(s.Addr()) }

func (c *Conn) Close() { _ = c.C.Close() }

// ErrTimeout: no (complete) reply within the deadline.
var ErrTimeout = errors.New("timeout waiting for a reply")

// Read reads one reply with a deadline.
func (c *Conn) Read(d time.Duration) (respx.Value, error) {
	_ = c.C.SetReadDeadline(time.Now().Add(d))
	v, err := c.R.Read()
	if err != nil {
		var ne net.Error
		if errors.As(err, &ne) && ne.Timeout() {
			return v, ErrTimeout
		}
	}
	return v, err
}

// Write sends raw bytes.
func (c *Conn) Write(b []byte, d time.Duration) error {
	_ = c.C.SetWriteDeadline(time.Now().Add(d))
	_, err := c.C.Write(b)
	return err
}

// Do sends one command and reads one reply.
func (c *Conn) Do(d time.Duration, args ...[]byte) (respx.Value, error) {
	if err := c.Write(respx.EncodeCommand(args), d); err != nil {
		return respx.Value{}, err
	}
	return c.Read(d)
}

// DoS is Do with string arguments.
func (c *Conn) DoS(d time.Duration, args ...string) (respx.Value, error) {
	b := make([][]byte, len(args))
	for i, a := range args {
		b[i] = []byte(a)
	}
	return c.Do(d, b...)
}
