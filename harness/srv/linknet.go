package srv

import (
	"fmt"
	"io"
	"net"
	"sync"
	"sync/atomic"
	"time"
)

// LinkNet is a layer of TCP forwarders between the Raft transports of a cluster's nodes: node `from`
// is told to reach node `to` through the forwarder (from, to), so the harness owns every link and can
// cut it (connections are reset, new ones refused), black-hole it (connections stay open, bytes go
// nowhere: the peers only notice through their own time-outs) or slow it down.
//
// rafthttp carries the messages to -> from over a stream that `from` dialled, and from -> to over
// pipeline requests on connections `from` dialled as well, so a forwarder carries traffic in both
// directions; a partition between two nodes is made by setting both forwarders (a,b) and (b,a).
type LinkNet struct {
	mu    sync.Mutex
	links map[[2]int]*link
}

const (
	LinkPass  = 0
	LinkCut   = 1 // reset established connections, refuse new ones
	LinkBlack = 2 // keep connections open, deliver nothing (healing closes them so that the peers re-dial)
)

type link struct {
	from, to int
	ln       net.Listener
	target   string
	mode     atomic.Int32
	delayUs  atomic.Int64
	mu       sync.Mutex
	conns    map[net.Conn]bool // value: tainted (bytes were swallowed)
	bytes    atomic.Int64
	closed   atomic.Bool
}

func NewLinkNet() *LinkNet { return &LinkNet{links: map[[2]int]*link{}} }

// Add creates the forwarder (from, to) in front of target ("127.0.0.1:port") and returns its URL.
func (n *LinkNet) Add(from, to int, target string) (string, error) {
	ln, err := net.Listen("tcp", "127.0.0.1:0")
	if err != nil {
		return "", err
	}
	l := &link{from: from, to: to, ln: ln, target: target, conns: map[net.Conn]bool{}}
	n.mu.Lock()
	n.links[[2]int{from, to}] = l
	n.mu.Unlock()
	go l.serve()
	return "http://" + ln.Addr().String(), nil
}

func (l *link) track(c net.Conn) {
	l.mu.Lock()
	l.conns[c] = false
	l.mu.Unlock()
}

func (l *link) untrack(c net.Conn) {
	l.mu.Lock()
	delete(l.conns, c)
	l.mu.Unlock()
	c.Close()
}

func (l *link) serve() {
	for {
		c, err := l.ln.Accept()
		if err != nil {
			return
		}
		switch l.mode.Load() {
		case LinkCut:
			if tc, ok := c.(*net.TCPConn); ok {
				_ = tc.SetLinger(0)
			}
			c.Close()
			continue
		case LinkBlack:
			l.mu.Lock()
			l.conns[c] = true
			l.mu.Unlock()
			go func() { // swallow whatever arrives
				buf := make([]byte, 4096)
				for {
					if _, err := c.Read(buf); err != nil {
						l.untrack(c)
						return
					}
				}
			}()
			continue
		}
		d, err := net.DialTimeout("tcp", l.target, time.Second)
		if err != nil {
			c.Close()
			continue
		}
		l.track(c)
		l.track(d)
		go l.pipe(c, d)
		go l.pipe(d, c)
	}
}

func (l *link) pipe(src, dst net.Conn) {
	defer l.untrack(src)
	defer l.untrack(dst)
	buf := make([]byte, 32*1024)
	for {
		k, err := src.Read(buf)
		if k > 0 {
			if us := l.delayUs.Load(); us > 0 {
				time.Sleep(time.Duration(us) * time.Microsecond)
			}
			switch l.mode.Load() {
			case LinkCut:
				return
			case LinkBlack:
				l.mu.Lock()
				if _, ok := l.conns[src]; ok {
					l.conns[src] = true
				}
				if _, ok := l.conns[dst]; ok {
					l.conns[dst] = true
				}
				l.mu.Unlock()
			default:
				l.mu.Lock()
				tainted := l.conns[src] || l.conns[dst]
				l.mu.Unlock()
				if tainted { // part of the stream was swallowed: the rest would be garbage
					return
				}
				l.bytes.Add(int64(k))
				if _, werr := dst.Write(buf[:k]); werr != nil {
					return
				}
			}
		}
		if err != nil {
			if err != io.EOF {
				return
			}
			return
		}
	}
}

func (l *link) set(mode int32) {
	old := l.mode.Swap(mode)
	l.mu.Lock()
	defer l.mu.Unlock()
	for c, tainted := range l.conns {
		switch {
		case mode == LinkCut:
			if tc, ok := c.(*net.TCPConn); ok {
				_ = tc.SetLinger(0)
			}
			c.Close()
		case mode == LinkPass && old == LinkBlack && tainted:
			c.Close()
		}
	}
}

func (n *LinkNet) get(from, to int) *link {
	n.mu.Lock()
	defer n.mu.Unlock()
	return n.links[[2]int{from, to}]
}

// SetLink sets the mode of the forwarder (from, to) only.
func (n *LinkNet) SetLink(from, to int, mode int32) {
	if l := n.get(from, to); l != nil {
		l.set(mode)
	}
}

// SetPair sets both forwarders between a and b.
func (n *LinkNet) SetPair(a, b int, mode int32) {
	n.SetLink(a, b, mode)
	n.SetLink(b, a, mode)
}

// Isolate separates node id from every other node.
func (n *LinkNet) Isolate(id int, mode int32) {
	n.mu.Lock()
	var ls []*link
	for k, l := range n.links {
		if k[0] == id || k[1] == id {
			ls = append(ls, l)
		}
	}
	n.mu.Unlock()
	for _, l := range ls {
		l.set(mode)
	}
}

// Split separates the nodes in side from all the others (links inside each side are left alone).
func (n *LinkNet) Split(side []int, mode int32) {
	in := map[int]bool{}
	for _, i := range side {
		in[i] = true
	}
	n.mu.Lock()
	var ls []*link
	for k, l := range n.links {
		if in[k[0]] != in[k[1]] {
			ls = append(ls, l)
		}
	}
	n.mu.Unlock()
	for _, l := range ls {
		l.set(mode)
	}
}

// HealAll puts every forwarder back to pass-through and removes delays.
func (n *LinkNet) HealAll() {
	n.mu.Lock()
	var ls []*link
	for _, l := range n.links {
		ls = append(ls, l)
	}
	n.mu.Unlock()
	for _, l := range ls {
		l.delayUs.Store(0)
		l.set(LinkPass)
	}
}

// SetDelay delays every chunk forwarded on (from, to) and (to, from) by d.
func (n *LinkNet) SetDelay(a, b int, d time.Duration) {
	for _, k := range [][2]int{{a, b}, {b, a}} {
		if l := n.get(k[0], k[1]); l != nil {
			l.delayUs.Store(d.Microseconds())
		}
	}
}

// Bytes returns the number of bytes forwarded so far on (from, to).
func (n *LinkNet) Bytes(from, to int) int64 {
	if l := n.get(from, to); l != nil {
		return l.bytes.Load()
	}
	return 0
}

// Close stops every forwarder.
func (n *LinkNet) Close() {
	n.mu.Lock()
	defer n.mu.Unlock()
	for _, l := range n.links {
		l.ln.Close()
		l.mu.Lock()
		for c := range l.conns {
			c.Close()
		}
		l.mu.Unlock()
	}
	n.links = map[[2]int]*link{}
}

func (n *LinkNet) String() string {
	n.mu.Lock()
	defer n.mu.Unlock()
	s := ""
	for k, l := range n.links {
		s += fmt.Sprintf("%d->%d:mode=%d,bytes=%d ", k[0], k[1], l.mode.Load(), l.bytes.Load())
	}
	return s
}
