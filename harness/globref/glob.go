// Package c17 checks C17: KEYS glob matching follows the documented grammar.
package globref

// Reference matcher written from the documented grammar (util.PattenMatch's doc comment and the
// Redis KEYS documentation): ? = one byte, * = any run of bytes (also empty), [...] = byte set with
// a-b ranges and leading ^ negation, \x = literal x.  Three-valued classification of a pattern.

type Class = class

type class int

const (
	Specified   class = iota // the grammar defines the result
	Broken                   // unclosed '[' or dangling '\': matches nothing
	Unspecified              // uses a construct the documentation does not define
	// Reversed: the only undefined construct is a range written high-low ([c-a]). Implementations swap the
	// bounds (Redis), read it as empty, or reject the pattern; under each of these a byte outside both
	// bounds is not matched through that range, so "does not match" is still decidable (Match3).
	Reversed
)

type tokKind int

const (
	tLit tokKind = iota
	tOne
	tAny
	tSet
)

type Tok = tok

type tok struct {
	kind tokKind
	lit  byte
	neg  bool
	set  [256]bool
	// maybe: bytes inside a reversed range (membership undefined)
	maybe    [256]bool
	hasMaybe bool
}

// Parse tokenizes a pattern.
func Parse(p string) (rtoks []tok, rcls class) {
	var toks []tok
	cls := Specified
	rev := false
	defer func() {
		if rcls == Specified && rev {
			rcls = Reversed
		}
	}()
	i := 0
	for i < len(p) {
		c := p[i]
		switch c {
		case '*':
			// consecutive stars are one star (keeps the reference's backtracking polynomial in them)
			if len(toks) == 0 || toks[len(toks)-1].kind != tAny {
				toks = append(toks, tok{kind: tAny})
			}
			i++
		case '?':
			toks = append(toks, tok{kind: tOne})
			i++
		case '\\':
			if i+1 >= len(p) {
				rev = false
				return nil, brokenOr(cls)
			}
			toks = append(toks, tok{kind: tLit, lit: p[i+1]})
			i += 2
		case '[':
			t := tok{kind: tSet}
			i++
			if i < len(p) && p[i] == '^' {
				t.neg = true
				i++
			}
			closed := false
			n := 0 // items seen
			for i < len(p) {
				if p[i] == ']' {
					if n == 0 {
						cls = Unspecified // empty class [] / [^]
					}
					closed = true
					i++
					break
				}
				// one item: literal, escape, or range
				var lo byte
				loEsc := false
				if p[i] == '\\' {
					if i+1 >= len(p) {
						return nil, brokenOr(cls)
					}
					lo = p[i+1]
					loEsc = true
					i += 2
				} else {
					lo = p[i]
					if lo == '-' || lo == '[' || lo == '^' {
						cls = Unspecified // '-' not between two ordinary bytes, nested '[', '^' not first
					}
					i++
				}
				n++
				if i < len(p) && p[i] == '-' {
					// range lo-hi, needs an ordinary hi
					if i+1 >= len(p) {
						return nil, brokenOr(cls) // unclosed anyway
					}
					hi := p[i+1]
					if hi == ']' || hi == '\\' || hi == '-' || hi == '[' || hi == '^' || loEsc {
						cls = Unspecified
						// consume just the '-' as an (unspecified) item and go on scanning for ']'
						i++
						continue
					}
					if hi < lo {
						rev = true // reversed range: membership of hi..lo is undefined
						t.hasMaybe = true
						for b := int(hi); b <= int(lo); b++ {
							t.maybe[b] = true
						}
					}
					for b := int(lo); b <= int(hi); b++ {
						t.set[b] = true
					}
					i += 2
					continue
				}
				t.set[lo] = true
			}
			if !closed {
				return nil, brokenOr(cls)
			}
			toks = append(toks, t)
		default:
			toks = append(toks, tok{kind: tLit, lit: c})
			i++
		}
	}
	return toks, cls
}

// brokenOr: a pattern is "broken" only if it is broken under every reading. Once an unspecified
// construct has been seen, where a class ends is itself ambiguous (Redis reads "[a-\\]" as the closed
// range a..\\, an escape-aware reader sees an unclosed class), so unspecified wins.
func brokenOr(cls class) class {
	if cls == Unspecified {
		return Unspecified
	}
	return Broken
}

// Match is the reference result for specified patterns (plain backtracking).
func Match(toks []tok, s string) bool {
	if len(toks) == 0 {
		return len(s) == 0
	}
	t := toks[0]
	switch t.kind {
	case tAny:
		for i := 0; i <= len(s); i++ {
			if Match(toks[1:], s[i:]) {
				return true
			}
		}
		return false
	case tOne:
		return len(s) > 0 && Match(toks[1:], s[1:])
	case tLit:
		return len(s) > 0 && s[0] == t.lit && Match(toks[1:], s[1:])
	case tSet:
		if len(s) == 0 {
			return false
		}
		in := t.set[s[0]]
		if t.neg {
			in = !in
		}
		return in && Match(toks[1:], s[1:])
	}
	return false
}

// Match3 is the three-valued reference for patterns of class Reversed: 0 = no reading matches,
// 1 = every reading that accepts the pattern matches, 2 = depends on the reading of a reversed range.
func Match3(toks []tok, s string) int {
	if len(toks) == 0 {
		if len(s) == 0 {
			return 1
		}
		return 0
	}
	t := toks[0]
	switch t.kind {
	case tAny:
		res := 0
		for i := 0; i <= len(s); i++ {
			switch Match3(toks[1:], s[i:]) {
			case 1:
				return 1
			case 2:
				res = 2
			}
		}
		return res
	case tOne:
		if len(s) == 0 {
			return 0
		}
		return Match3(toks[1:], s[1:])
	case tLit:
		if len(s) == 0 || s[0] != t.lit {
			return 0
		}
		return Match3(toks[1:], s[1:])
	case tSet:
		if len(s) == 0 {
			return 0
		}
		in := t.set[s[0]]
		unknown := !in && t.maybe[s[0]] // a definite item decides; otherwise the reversed range might
		if t.neg {
			in = !in
		}
		if unknown {
			if Match3(toks[1:], s[1:]) == 0 {
				return 0
			}
			return 2
		}
		if !in {
			return 0
		}
		return Match3(toks[1:], s[1:])
	}
	return 0
}

// Decide returns (defined, want) for an already parsed pattern.
func Decide(toks []tok, cls class, s string) (bool, bool) {
	switch cls {
	case Broken:
		return true, false
	case Unspecified:
		return false, false
	case Reversed:
		// only "no reading matches" is asserted (a reading that rejects the pattern matches nothing too)
		if Match3(toks, s) == 0 {
			return true, false
		}
		return false, false
	}
	return true, Match(toks, s)
}

// Expect returns (defined, want): defined=false means only termination/no-panic is required.
func Expect(p, s string) (bool, bool) {
	toks, cls := Parse(p)
	return Decide(toks, cls, s)
}
