//go:build verif

package c16

import (
	"bytes"
	"fmt"
	"os"
	"path/filepath"
	"sort"
	"strings"
	"syscall"
)

const sector = 512

// ---------------------------------------------------------------- durability tracking
//
// Storage model (the one the property states): writes reach the medium in units of 512-byte sectors;
// everything written to a file before an fsync/fdatasync of that file is durable once the call
// returns; of the sectors changed since the last sync ("dirty") any subset may have reached the
// medium at a crash.  A file is identified by its inode, so a rename keeps its durable content.
//
// Directory operations: a rename inside the WAL directory (cut: N.tmp -> <seq>-<index>.wal) is
// atomic and becomes durable at the following fsync of the directory; until then a crash image
// exists in two variants ("old": the file still has its .tmp name, "new": renamed).  SIMPLIFICATION,
// deliberately on the benign side: file *creation* is treated as durable immediately (the snapshot
// directory is never fsynced by snap.Snapshotter, and wal.Create is treated as one atomic,
// completed step - tracking starts when it has returned).

type fileObs struct {
	name string
	ino  uint64
	vol  []byte // content right now
	dur  []byte // content at the last sync of this inode
	has  bool   // dur is meaningful (the inode has been synced at least once, or existed at start)
}

type crashPoint struct {
	idx      int
	op       int
	desc     string
	wal      []fileObs         // every regular file of the WAL directory (incl. *.tmp)
	snaps    []fileObs         // every regular file of the snapshot directory
	durNames map[string]uint64 // WAL directory listing (name -> inode) as of the last directory fsync
	required int               // records that MUST be recovered (completed must-sync calls)
	issued   int               // records handed to the WAL so far (incl. the running operation)
	snapsOK  int               // number of snapshot files whose SaveSnap call had completed
}

type tracker struct {
	walDir, snapDir string
	dur             map[uint64][]byte
	durNames        map[string]uint64
	active          bool
	onPoint         func(desc string, wal, snaps []fileObs, durNames map[string]uint64)
	err             string
}

func inoOf(fi os.FileInfo) uint64 {
	if st, ok := fi.Sys().(*syscall.Stat_t); ok {
		return st.Ino
	}
	return 0
}

func readDirObs(dir string) ([]fileObs, error) {
	des, err := os.ReadDir(dir)
	if err != nil {
		return nil, err
	}
	var out []fileObs
	for _, de := range des {
		if de.IsDir() {
			continue
		}
		p := filepath.Join(dir, de.Name())
		f, err := os.Open(p)
		if err != nil {
			if os.IsNotExist(err) {
				continue // a *.tmp file of the WAL's allocation goroutine came or went
			}
			return nil, err
		}
		fi, err := f.Stat()
		if err != nil {
			f.Close()
			return nil, err
		}
		b := make([]byte, fi.Size())
		n, _ := f.ReadAt(b, 0)
		f.Close()
		out = append(out, fileObs{name: de.Name(), ino: inoOf(fi), vol: b[:n]})
	}
	sort.Slice(out, func(i, j int) bool { return out[i].name < out[j].name })
	return out, nil
}

// observe reads both directories and attaches the durable content known per inode.
func (tr *tracker) observe() (walFiles, snapFiles []fileObs) {
	walFiles, err := readDirObs(tr.walDir)
	if err != nil {
		tr.err = "observe: " + err.Error()
	}
	snapFiles, err = readDirObs(tr.snapDir)
	if err != nil {
		tr.err = "observe: " + err.Error()
	}
	live := map[uint64]bool{}
	for _, set := range [][]fileObs{walFiles, snapFiles} {
		for i := range set {
			live[set[i].ino] = true
			if d, ok := tr.dur[set[i].ino]; ok {
				set[i].dur, set[i].has = d, true
			}
		}
	}
	for ino := range tr.dur { // forget unlinked files (inode numbers get reused)
		if !live[ino] {
			delete(tr.dur, ino)
		}
	}
	return walFiles, snapFiles
}

func listing(files []fileObs) map[string]uint64 {
	m := make(map[string]uint64, len(files))
	for _, f := range files {
		m[f.name] = f.ino
	}
	return m
}

// start makes the current content the durable baseline (called right after wal.Create returned).
func (tr *tracker) start() {
	tr.dur = map[uint64][]byte{}
	w, s := tr.observe()
	for _, f := range append(w, s...) {
		tr.dur[f.ino] = f.vol
	}
	tr.durNames = listing(w)
	tr.active = true
}

// hook is fileutil.VerifSyncHook: called at the START of every Fsync/Fdatasync, i.e. after the data
// has been handed to the kernel with write(2) and before it is durable.  The state at this moment is
// a crash point; afterwards the file's current content becomes its durable content.
func (tr *tracker) hook(f *os.File) {
	if tr == nil || !tr.active {
		return
	}
	// only files of the live directories (crash images are checked with the tracker switched off, and
	// live somewhere else).  Note that the first segment keeps reporting the name it was opened under
	// (<wal>.tmp/..., wal.Create renames the directory afterwards): files are identified by inode.
	name := f.Name()
	if !strings.HasPrefix(name, filepath.Dir(tr.walDir)+string(filepath.Separator)) {
		return
	}
	fi, err := f.Stat()
	if err != nil {
		tr.err = "hook: stat: " + err.Error()
		return
	}
	w, s := tr.observe()
	rel := strings.TrimPrefix(name, filepath.Dir(tr.walDir)+"/")
	if fi.IsDir() {
		tr.onPoint("before fsync(dir "+rel+")", w, s, tr.durNames)
		if filepath.Clean(name) == filepath.Clean(tr.walDir) {
			tr.durNames = listing(w)
		}
		return
	}
	tr.onPoint("before fsync("+rel+")", w, s, tr.durNames)
	ino := inoOf(fi)
	found := false
	for _, set := range [][]fileObs{w, s} {
		for _, fo := range set {
			if fo.ino == ino {
				tr.dur[ino] = fo.vol
				found = true
			}
		}
	}
	if !found {
		tr.err = fmt.Sprintf("hook: synced file %s (inode %d) not found in the directories", name, ino)
	}
}

// ---------------------------------------------------------------- crash images

type dirtySector struct {
	snapFile bool
	file     int // index into crashPoint.wal / .snaps
	sec      int
}

func isWalName(n string) bool { return strings.HasSuffix(n, ".wal") }

// variants: "new" always; "old" additionally when a *.wal name of the current listing is not in the
// durable listing (a rename whose directory fsync has not happened).
func (p *crashPoint) hasOldVariant() bool {
	for _, f := range p.wal {
		if isWalName(f.name) {
			if ino, ok := p.durNames[f.name]; !ok || ino != f.ino {
				return true
			}
		}
	}
	return false
}

func sectorOf(b []byte, s int) []byte {
	lo := s * sector
	if lo >= len(b) {
		return nil
	}
	hi := lo + sector
	if hi > len(b) {
		hi = len(b)
	}
	return b[lo:hi]
}

func dirtyOf(f fileObs) []int {
	dur := f.dur
	if !f.has {
		dur = nil
	}
	n := len(dur)
	if len(f.vol) > n {
		n = len(f.vol)
	}
	var out []int
	for s := 0; s*sector < n; s++ {
		if !bytes.Equal(sectorOf(dur, s), sectorOf(f.vol, s)) {
			out = append(out, s)
		}
	}
	return out
}

// dirty lists the dirty sectors of the files a recovery looks at (*.wal, *.snap), in (file name,
// offset) order, WAL files first.
func (p *crashPoint) dirty() []dirtySector {
	var out []dirtySector
	for i, f := range p.wal {
		if !isWalName(f.name) {
			continue
		}
		for _, s := range dirtyOf(f) {
			out = append(out, dirtySector{false, i, s})
		}
	}
	for i, f := range p.snaps {
		if !strings.HasSuffix(f.name, ".snap") {
			continue
		}
		for _, s := range dirtyOf(f) {
			out = append(out, dirtySector{true, i, s})
		}
	}
	return out
}

func (p *crashPoint) describeDirty(ds []dirtySector, keep []bool) string {
	var sb strings.Builder
	for i, d := range ds {
		f := p.wal
		if d.snapFile {
			f = p.snaps
		}
		st := "LOST"
		if keep[i] {
			st = "kept"
		}
		fmt.Fprintf(&sb, " %s@%d:%s", f[d.file].name, d.sec*sector, st)
	}
	return sb.String()
}

// imageOf builds the content of one file in a crash image: durable content plus the kept dirty
// sectors.  Sectors beyond the durable length that are lost are absent: the file ends after the
// last kept sector (holes before it read as zeros).  With zeroExtend (model switch used while a
// known finding is excluded) lost sectors beyond the durable length read as zeros and the file
// keeps its current length.
func imageOf(f fileObs, kept map[int]bool, zeroExtend bool) []byte {
	dur := f.dur
	if !f.has {
		dur = nil
	}
	n := len(dur)
	if len(f.vol) < n {
		// the file shrank since its last sync (never observed with the WAL; kept for robustness):
		// a truncation that is not followed by a sync may or may not persist - keep the old length.
		n = len(dur)
	}
	for s := range kept {
		hi := (s + 1) * sector
		if hi > len(f.vol) {
			hi = len(f.vol)
		}
		if hi > n {
			n = hi
		}
	}
	if zeroExtend && len(f.vol) > n {
		n = len(f.vol)
	}
	img := make([]byte, n)
	copy(img, dur)
	for s := range kept {
		src := sectorOf(f.vol, s)
		copy(img[s*sector:], src)
		// a sector that shrank (file truncated inside it) cannot be expressed; ignore
	}
	return img
}

type image struct {
	wal   map[string][]byte
	snaps map[string][]byte
}

func (p *crashPoint) build(ds []dirtySector, keep []bool, old bool, zeroExtend bool) image {
	keptW := map[int]map[int]bool{}
	keptS := map[int]map[int]bool{}
	for i, d := range ds {
		if !keep[i] {
			continue
		}
		m := keptW
		if d.snapFile {
			m = keptS
		}
		if m[d.file] == nil {
			m[d.file] = map[int]bool{}
		}
		m[d.file][d.sec] = true
	}
	img := image{wal: map[string][]byte{}, snaps: map[string][]byte{}}
	oldNameOf := map[uint64]string{}
	for n, ino := range p.durNames {
		oldNameOf[ino] = n
	}
	for i, f := range p.wal {
		name := f.name
		if strings.HasSuffix(name, ".broken") {
			// the backup copy Repair leaves beside a segment it truncated: its creation is durable like any
			// other (a later recovery in the same directory finds it there)
			img.wal[name] = imageOf(f, keptW[i], zeroExtend)
			continue
		}
		if !isWalName(name) {
			continue // *.tmp files prepared by the allocation goroutine are not part of the log
		}
		if old {
			if ino, ok := p.durNames[name]; !ok || ino != f.ino {
				// the rename is not durable: the file keeps the name it had at the last directory fsync
				on, ok := oldNameOf[f.ino]
				if !ok {
					continue // created and renamed since the last directory fsync: absent
				}
				name = on
			}
		}
		img.wal[name] = imageOf(f, keptW[i], zeroExtend)
	}
	for i, f := range p.snaps {
		img.snaps[f.name] = imageOf(f, keptS[i], zeroExtend)
	}
	return img
}

func (im image) write(walDir, snapDir string) error {
	for _, d := range []string{walDir, snapDir} {
		if err := os.MkdirAll(d, 0o700); err != nil {
			return err
		}
	}
	for n, b := range im.wal {
		if err := os.WriteFile(filepath.Join(walDir, n), b, 0o600); err != nil {
			return err
		}
	}
	for n, b := range im.snaps {
		if err := os.WriteFile(filepath.Join(snapDir, n), b, 0o600); err != nil {
			return err
		}
	}
	return nil
}

// ---------------------------------------------------------------- subset selection

func bitmap(keep []bool) string {
	b := make([]byte, len(keep))
	for i, k := range keep {
		b[i] = '0'
		if k {
			b[i] = '1'
		}
	}
	return string(b)
}

func parseBitmap(s string, n int) ([]bool, bool) {
	if len(s) != n {
		return nil, false
	}
	k := make([]bool, n)
	for i := range k {
		k[i] = s[i] == '1'
	}
	return k, true
}

// subsets returns the kept-sector subsets to try for n dirty sectors: all 2^n when n <= 10 and
// 2^n <= limit, otherwise structured families (nothing, everything, prefix-only, suffix-only,
// all-but-one, single, alternating, seeded random at three densities), deduplicated, at most limit.
func subsets(n, limit int, r *xs) (out [][]bool, exhaustive bool) {
	if limit < 1 {
		limit = 1
	}
	if n <= 10 && 1<<uint(n) <= limit {
		for m := 0; m < 1<<uint(n); m++ {
			k := make([]bool, n)
			for i := 0; i < n; i++ {
				k[i] = m&(1<<uint(i)) != 0
			}
			out = append(out, k)
		}
		return out, true
	}
	seen := map[string]bool{}
	add := func(k []bool) {
		if len(out) >= limit {
			return
		}
		bm := bitmap(k)
		if seen[bm] {
			return
		}
		seen[bm] = true
		out = append(out, k)
	}
	mk := func(f func(i int) bool) []bool {
		k := make([]bool, n)
		for i := range k {
			k[i] = f(i)
		}
		return k
	}
	add(mk(func(int) bool { return false }))
	add(mk(func(int) bool { return true }))
	add(mk(func(i int) bool { return i%2 == 0 }))
	add(mk(func(i int) bool { return i%2 == 1 }))
	// interleave the families so that a small limit still sees each of them
	order := make([]int, 0, n)
	for i := 0; i < n; i++ {
		order = append(order, i)
	}
	for i := n - 1; i > 0; i-- { // seeded shuffle
		j := r.intn(i + 1)
		order[i], order[j] = order[j], order[i]
	}
	for _, j := range order {
		if len(out) >= limit {
			break
		}
		add(mk(func(i int) bool { return i != j }))          // all but one
		add(mk(func(i int) bool { return i >= j && j > 0 })) // suffix only
		add(mk(func(i int) bool { return i < j }))           // prefix only
		add(mk(func(i int) bool { return i == j }))          // single
		dens := []int{2, 5, 8}[r.intn(3)]                    // random
		add(mk(func(int) bool { return r.intn(10) < dens }))
	}
	for tries := 0; len(out) < limit && tries < 4*limit; tries++ {
		dens := []int{2, 5, 8}[r.intn(3)]
		add(mk(func(int) bool { return r.intn(10) < dens }))
	}
	return out, false
}

// mixed: some dirty sector is lost and a LATER dirty sector survived.
func mixed(keep []bool) bool {
	lost := false
	for _, k := range keep {
		if !k {
			lost = true
		} else if lost {
			return true
		}
	}
	return false
}
