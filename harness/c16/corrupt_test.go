//go:build verif

package c16

import (
	"bytes"
	"encoding/binary"
	"fmt"
	"os"
	"path/filepath"
	"sort"

	"go.etcd.io/etcd/client/pkg/v3/fileutil"
	"go.etcd.io/etcd/raft/v3/raftpb"
	"go.etcd.io/etcd/server/v3/etcdserver/api/snap"
	"go.etcd.io/etcd/server/v3/storage/wal"
	"go.etcd.io/etcd/server/v3/storage/wal/walpb"
)

// ---------------------------------------------------------------- physical layout (independent parser)

// frame is one physical record of a segment file: 8-byte little-endian length field (low 56 bits =
// record bytes, top byte = 0x80|pad when padded), the protobuf walpb.Record {1: type, 2: crc, 3: data},
// then pad bytes up to a multiple of 8.
type frame struct {
	off     int // offset of the length field
	recLen  int
	pad     int
	typeOff int // offset of the type value byte (-1 if not where expected)
	typ     byte
	crcOff  int // first byte of the crc varint
	crcLen  int
	dataOff int // first payload byte (-1 if none)
	dataLen int
	dlenOff int // first byte of the payload length varint
}

func uvarint(b []byte) (uint64, int) {
	v, n := binary.Uvarint(b)
	if n <= 0 {
		return 0, 0
	}
	return v, n
}

func parseFrames(b []byte) (frames []frame, end int) {
	off := 0
	for off+8 <= len(b) {
		l := binary.LittleEndian.Uint64(b[off:])
		if l == 0 {
			break
		}
		recLen := int(l & 0x00ffffffffffffff)
		pad := 0
		if l&(1<<63) != 0 {
			pad = int((l >> 56) & 7)
		}
		if off+8+recLen+pad > len(b) {
			break
		}
		f := frame{off: off, recLen: recLen, pad: pad, typeOff: -1, dataOff: -1, crcOff: -1, dlenOff: -1}
		p := b[off+8 : off+8+recLen]
		i := 0
		if i < len(p) && p[i] == 0x08 {
			f.typeOff = off + 8 + i + 1
			if i+1 < len(p) {
				f.typ = p[i+1]
			}
			_, n := uvarint(p[i+1:])
			i += 1 + n
		}
		if i < len(p) && p[i] == 0x10 {
			_, n := uvarint(p[i+1:])
			f.crcOff, f.crcLen = off+8+i+1, n
			i += 1 + n
		}
		if i < len(p) && p[i] == 0x1a {
			dl, n := uvarint(p[i+1:])
			f.dlenOff = off + 8 + i + 1
			i += 1 + n
			f.dataLen = int(dl)
			if dl > 0 {
				f.dataOff = off + 8 + i
			}
		}
		frames = append(frames, f)
		off += 8 + recLen + pad
	}
	return frames, off
}

type segInfo struct {
	name   string
	orig   []byte
	frames []frame
	end    int
}

// ---------------------------------------------------------------- corruption sweep

type corruption struct {
	seg   int
	off   int
	val   byte
	class string
}

// candidate replacement values for a byte; always different from the original.
func (r *run) newValue(orig byte) byte {
	for {
		var v byte
		switch r.rng.intn(6) {
		case 0:
			v = orig ^ (1 << uint(r.rng.intn(8))) // single bit flip
		case 1:
			v = orig ^ 0xff
		case 2:
			v = 0
		case 3:
			v = byte(r.rng.intn(8)) // small values: record types, varint lengths, pad counts
		case 4:
			v = orig + 1
		default:
			v = byte(r.rng.next() >> 32)
		}
		if v != orig {
			return v
		}
	}
}

func (r *run) corruptionSweep() {
	if r.c.Corrupt == 0 && r.c.CorruptAt == nil {
		return
	}
	names, err := fileutil.ReadDir(r.walDir, fileutil.WithExt(".wal"))
	if err != nil || len(names) == 0 {
		r.inconclusive = "corruption sweep: cannot list the final directory"
		return
	}
	var segs []segInfo
	total := 0
	for _, n := range names {
		b, err := os.ReadFile(filepath.Join(r.walDir, n))
		if err != nil {
			r.inconclusive = "corruption sweep: " + err.Error()
			return
		}
		fr, end := parseFrames(b)
		segs = append(segs, segInfo{name: n, orig: b, frames: fr, end: end})
		total += end
	}
	// readers start at the beginning and at the newest snapshot of the intact log
	starts := []walpb.Snapshot{{}}
	if ws := snapsAt(r.recs, len(r.recs)); len(ws) > 1 {
		l := ws[len(ws)-1]
		starts = append(starts, walpb.Snapshot{Index: l.Index, Term: l.Term})
	}
	var list []corruption
	exhaustive := r.c.Corrupt < 0 && total <= 64<<10
	if ca := r.c.CorruptAt; ca != nil {
		exhaustive = false
		for si, s := range segs {
			if s.name == ca.Segment && ca.Offset >= 0 && ca.Offset < len(s.orig) && byte(ca.Value) != s.orig[ca.Offset] {
				list = append(list, corruption{si, ca.Offset, byte(ca.Value), "pinned"})
			}
		}
		if len(list) == 0 {
			r.failf("corruption focus %+v does not fit the final directory", *ca)
			return
		}
	} else if exhaustive {
		for si, s := range segs {
			typeOffs := map[int]bool{}
			for _, f := range s.frames {
				typeOffs[f.typeOff] = true
			}
			for off := 0; off < s.end; off++ {
				if typeOffs[off] {
					for v := byte(0); v <= 6; v++ { // every other record type, 0 and an unknown type
						if v != s.orig[off] {
							list = append(list, corruption{si, off, v, "type"})
						}
					}
					list = append(list, corruption{si, off, s.orig[off] | 0x80, "type"})
					continue
				}
				list = append(list, corruption{si, off, r.newValue(s.orig[off]), "any"})
			}
		}
	} else {
		n := r.c.Corrupt
		if n < 0 {
			n = 4000
		}
		for len(list) < n {
			si := r.rng.intn(len(segs))
			s := segs[si]
			if len(s.frames) == 0 {
				continue
			}
			f := s.frames[r.rng.intn(len(s.frames))]
			var off int
			class := ""
			switch r.rng.intn(12) {
			case 0:
				off, class = f.off+r.rng.intn(7), "len-low"
			case 1:
				off, class = f.off+7, "len-msb-pad"
			case 2, 3:
				off, class = f.typeOff, "type"
			case 4:
				off, class = f.crcOff+r.rng.intn(max(f.crcLen, 1)), "crc"
			case 5:
				off, class = f.dlenOff, "data-len"
			case 6:
				off, class = f.dataOff, "data-first"
			case 7:
				off, class = f.dataOff+f.dataLen-1, "data-last"
				if f.dataOff < 0 {
					off = -1
				}
			case 8:
				if f.pad > 0 {
					off, class = f.off+8+f.recLen+r.rng.intn(f.pad), "padding"
				} else {
					off = -1
				}
			case 9:
				off, class = f.typeOff-1, "tag"
			default:
				off, class = r.rng.intn(s.end), "any"
			}
			if off < 0 || off >= s.end {
				continue
			}
			var v byte
			if class == "type" {
				v = byte(r.rng.intn(7))
				if v == s.orig[off] {
					continue
				}
			} else {
				v = r.newValue(s.orig[off])
			}
			list = append(list, corruption{si, off, v, class})
		}
	}
	if exhaustive {
		r.labels["corruption-sweep-exhaustive"] = true
	}
	meta := []byte(r.c.Meta)
	// one descriptor per segment: single bytes are patched with pwrite instead of rewriting files
	fds := make([]*os.File, len(segs))
	for i, s := range segs {
		f, err := os.OpenFile(filepath.Join(r.walDir, s.name), os.O_RDWR, 0)
		if err != nil {
			r.inconclusive = "corruption sweep: " + err.Error()
			return
		}
		defer f.Close()
		fds[i] = f
	}
	last := len(segs) - 1
	// a write-mode ReadAll zeroes everything behind the last record it accepted in the LAST segment
	// (and only there); undo that before the next reader runs
	restoreTail := func() error {
		if err := fds[last].Truncate(int64(len(segs[last].orig))); err != nil {
			return err
		}
		_, err := fds[last].WriteAt(segs[last].orig, 0)
		return err
	}
	for _, c := range list {
		if r.fail != "" {
			break
		}
		s := segs[c.seg]
		if r.skipTypeByte && isTypeOffset(s, c.off) {
			continue
		}
		if r.skipZeroLenHead && c.seg != last && c.off < 8 && len(s.orig) >= 8 {
			// (known finding F3) the patched length field of the segment's first record is all zero
			zero := c.val == 0
			for i := 0; i < 8; i++ {
				if i != c.off && s.orig[i] != 0 {
					zero = false
				}
			}
			if zero {
				r.st.corruptSkippedF3++
				continue
			}
		}
		r.st.corruptions++
		patch := func() error { _, err := fds[c.seg].WriteAt([]byte{c.val}, int64(c.off)); return err }
		if err := patch(); err != nil {
			r.inconclusive = "corruption sweep: " + err.Error()
			return
		}
		sawErr, sawStrict := false, false
		for _, start := range starts {
			for _, write := range []bool{false, true} {
				var g got
				var err error
				mode := "read"
				pan := safely(func() {
					if write {
						mode = "write"
						var w *wal.WAL
						w, err = wal.Open(lg, r.walDir, start)
						if err != nil {
							return
						}
						w.SetUnsafeNoFsync()
						// Close even when ReadAll panics (releases the file locks, stops the allocator)
						defer func() { safely(func() { w.Close() }) }()
						g.meta, g.hs, g.ents, err = w.ReadAll()
					} else {
						g, err = readAllRO(r.walDir, start)
					}
				})
				if pan != "" {
					r.st.corruptPanic++
					sawErr = true
				} else if err != nil {
					sawErr = true
				} else {
					// needSnap=false: a prefix that ends before the record snap(start) is still an
					// unmodified prefix.  (Read mode reports ErrSnapshotNotFound then; write mode loses
					// that error - ReadAll overwrites err with newFileEncoder's - which is a defect of
					// its own but not a violation of this property: no modified data is returned.)
					sf, _ := r.selectSeg(walNames(r.walDir), start)
					ks := matchPrefixes(r.recs, len(r.recs), start, sf, meta, g, false)
					if len(ks) == 0 && len(g.ents) == 0 && g.hs == (raftpb.HardState{}) && (len(g.meta) == 0 || bytes.Equal(g.meta, meta)) {
						// a prefix that ends inside the segment header (crc, metadata, repeated hard
						// state): nothing, or only the metadata, was read - the empty prefix
						ks = []int{sf.from}
						if sf.from == len(r.recs) {
							ks = []int{sf.from - 1}
						}
					}
					if len(ks) == 0 {
						r.failf("corrupted stored byte returned as valid data: segment %s offset %d (%s) changed 0x%02x -> 0x%02x; %s-mode ReadAll(at %d) returned nil error and %s, which is not the content of any prefix of the %d records written\n  corruption={\"segment\":%q,\"offset\":%d,\"value\":%d}",
							s.name, c.off, r.describeOffset(s, c.off), s.orig[c.off], c.val, mode, start.Index, describeGot(g), len(r.recs), s.name, c.off, c.val)
						break
					}
					if ks[len(ks)-1] < len(r.recs) {
						sawStrict = true
					}
				}
				if write {
					err := restoreTail()
					if err == nil && c.seg == last {
						err = patch()
					}
					if err != nil {
						r.inconclusive = "corruption sweep: restore: " + err.Error()
						return
					}
				}
			}
			if r.fail != "" {
				break
			}
		}
		switch {
		case sawErr:
			r.st.corruptErr++
		case sawStrict:
			r.st.corruptPrefix++
		default:
			r.st.corruptFull++
		}
		if _, err := fds[c.seg].WriteAt([]byte{s.orig[c.off]}, int64(c.off)); err != nil {
			r.inconclusive = "corruption sweep: " + err.Error()
			return
		}
	}
	// sanity: the directory is byte-identical to what the sweep started from
	for _, s := range segs {
		b, err := os.ReadFile(filepath.Join(r.walDir, s.name))
		if err != nil || !bytes.Equal(b, s.orig) {
			if r.fail == "" {
				r.inconclusive = "corruption sweep: segment " + s.name + " not restored (a reader modified a non-tail segment?)"
			}
			return
		}
	}
	if r.fail == "" && r.c.CorruptAt == nil {
		r.snapSweep()
	}
}

func (r *run) describeOffset(s segInfo, off int) string {
	for i, f := range s.frames {
		if off >= f.off && off < f.off+8+f.recLen+f.pad {
			where := "payload"
			switch {
			case off < f.off+8:
				where = fmt.Sprintf("length field byte %d", off-f.off)
			case off == f.typeOff:
				where = "record type"
			case off == f.typeOff-1:
				where = "type tag"
			case f.crcOff >= 0 && off >= f.crcOff-1 && off < f.crcOff+f.crcLen:
				where = "crc"
			case f.dlenOff >= 0 && off >= f.dlenOff-1 && (f.dataOff < 0 || off < f.dataOff):
				where = "payload length"
			case off >= f.off+8+f.recLen:
				where = "padding"
			}
			return fmt.Sprintf("record #%d of the segment, physical type %d, %s", i, f.typ, where)
		}
	}
	return "outside any record"
}

// snapSweep: single-byte corruptions of the newest snapshot file.  Load must return the newest
// INTACT snapshot: the damaged one only if what it decodes to equals what was saved, otherwise the
// next older one (ErrNoSnapshot only if there is none), and the damaged file must have been renamed.
func (r *run) snapSweep() {
	if len(r.snapsSaved) == 0 {
		return
	}
	newest := r.snapsSaved[len(r.snapsSaved)-1]
	// file names sort by (term, index); the newest by name is what Load tries first
	sorted := append([]savedSnap(nil), r.snapsSaved...)
	sort.Slice(sorted, func(i, j int) bool { return sorted[i].name > sorted[j].name })
	if sorted[0].name != newest.name {
		r.inconclusive = "snapshot names not ordered like their indexes"
		return
	}
	p := filepath.Join(r.snapDir, newest.name)
	orig, err := os.ReadFile(p)
	if err != nil {
		r.failf("snapshot file %s missing in the final directory: %v", newest.name, err)
		return
	}
	var offs []int
	if r.c.Corrupt < 0 {
		for i := range orig {
			offs = append(offs, i)
		}
	} else {
		n := r.c.Corrupt / 3
		for i := 0; i < n; i++ {
			switch r.rng.intn(4) {
			case 0:
				offs = append(offs, r.rng.intn(min(len(orig), 12))) // outer tags, crc, length
			case 1:
				offs = append(offs, len(orig)-1-r.rng.intn(min(len(orig), 16)))
			default:
				offs = append(offs, r.rng.intn(len(orig)))
			}
		}
	}
	walSnaps := snapsAt(r.recs, len(r.recs))
	ss := snap.New(lg, r.snapDir)
	for _, off := range offs {
		if r.fail != "" {
			return
		}
		val := r.newValue(orig[off])
		mod := append([]byte(nil), orig...)
		mod[off] = val
		for _, viaWal := range []bool{false, true} {
			if err := os.WriteFile(p, mod, 0o600); err != nil {
				r.inconclusive = err.Error()
				return
			}
			r.st.snapCorruptions++
			var sn *raftpb.Snapshot
			var err error
			what := "Load"
			pan := safely(func() {
				if viaWal {
					what = "LoadNewestAvailable"
					sn, err = ss.LoadNewestAvailable(walSnaps)
				} else {
					sn, err = ss.Load()
				}
			})
			_, statErr := os.Stat(p)
			_, brokenErr := os.Stat(p + ".broken")
			os.Remove(p + ".broken")
			desc := fmt.Sprintf("newest snapshot file %s offset %d of %d changed 0x%02x -> 0x%02x: %s", newest.name, off, len(orig), orig[off], val, what)
			switch {
			case pan != "":
				r.failf("%s panicked: %s", desc, pan)
			case err == snap.ErrNoSnapshot:
				if len(r.snapsSaved) > 1 {
					r.failf("%s returned ErrNoSnapshot although the older intact snapshot %s exists", desc, sorted[1].name)
				}
			case err != nil:
				r.failf("%s returned %v instead of falling back", desc, err)
			default:
				if m := r.snapEqualsSaved(sn); m != "" {
					r.failf("%s returned corrupted data as a valid snapshot: %s", desc, m)
				} else if sn.Metadata.Index == newest.index {
					// decoded to exactly what was saved: harmless corruption (e.g. of an ignored bit)
				} else if len(sorted) < 2 || sn.Metadata.Index != sorted[1].index {
					r.failf("%s returned snapshot %d, expected the newest intact one (%s)", desc, sn.Metadata.Index, sorted[1].name)
				} else {
					r.st.snapFallbacks++
				}
			}
			if r.fail == "" && (err != nil || (sn != nil && sn.Metadata.Index != newest.index)) {
				if statErr == nil || brokenErr != nil {
					r.failf("%s fell back, but the damaged file was not renamed to .broken (still there: %v, .broken exists: %v)", desc, statErr == nil, brokenErr == nil)
				}
			}
		}
	}
	_ = os.WriteFile(p, orig, 0o600)
}

func isTypeOffset(s segInfo, off int) bool {
	for _, f := range s.frames {
		if f.typeOff == off {
			return true
		}
	}
	return false
}
