//go:build verif

package c16

import (
	"bytes"
	"fmt"

	"go.etcd.io/etcd/raft/v3/raftpb"
	"go.etcd.io/etcd/server/v3/storage/wal/walpb"
)

// ---------------------------------------------------------------- logical record sequence

type recKind byte

const (
	recEntry recKind = iota + 1
	recState
	recSnap
)

// rec is one logical record the harness asked the WAL to write (in order).  Segment headers (crc,
// metadata, repeated hard state) are physical artefacts and not part of this sequence: they never
// change the logical content.
type rec struct {
	kind recKind
	ent  raftpb.Entry
	hs   raftpb.HardState
	snap walpb.Snapshot
	op   int
}

func (r rec) String() string {
	switch r.kind {
	case recEntry:
		return fmt.Sprintf("entry(i=%d t=%d len=%d)", r.ent.Index, r.ent.Term, len(r.ent.Data))
	case recState:
		return fmt.Sprintf("state(t=%d v=%d c=%d)", r.hs.Term, r.hs.Vote, r.hs.Commit)
	}
	return fmt.Sprintf("snap(i=%d t=%d)", r.snap.Index, r.snap.Term)
}

// got is what a ReadAll returned.
type got struct {
	meta []byte
	hs   raftpb.HardState
	ents []raftpb.Entry
}

func entEq(a, b *raftpb.Entry) bool {
	return a.Index == b.Index && a.Term == b.Term && a.Type == b.Type && bytes.Equal(a.Data, b.Data)
}

// matchPrefixes folds r_1..r_k for k = 0..hi with the WAL's own rules as seen from a reader that
// started at snapshot `start` (entries with index <= start.Index are skipped; an entry with index i
// truncates the collected entries to i-start.Index-1 and is appended; the hard state is the last
// state record) and returns every k whose folded content equals g.  needSnap: the reader also
// requires the record snap(start) to be within the prefix (ReadAll reports ErrSnapshotNotFound
// otherwise), which is what a nil error from ReadAll implies.
//
// A reader does not start at the first record: Open selects the last segment file whose name index
// is <= start.Index and reads from there.  sf says which logical record that segment begins with and
// which hard state its header repeats; k still counts records from the very beginning.  (Starting
// later matters: entries above start.Index that sit in EARLIER segments and were overwritten from an
// index <= start.Index are not seen at all.)
func matchPrefixes(recs []rec, hi int, start walpb.Snapshot, sf segFrom, meta []byte, g got, needSnap bool) []int {
	if !bytes.Equal(meta, g.meta) {
		return nil
	}
	var (
		ents    []*raftpb.Entry
		hs      = sf.hs0
		matched = sf.from == 0 && start.Index == 0 && start.Term == 0 // wal.Create writes snap(0,0) into the head
		out     []int
		// number of leading positions known to be equal between ents and g.ents
		eqUpTo = 0
	)
	check := func(k int) {
		if needSnap && !matched {
			return
		}
		if hs != g.hs || len(ents) != len(g.ents) {
			return
		}
		for eqUpTo < len(ents) {
			if !entEq(ents[eqUpTo], &g.ents[eqUpTo]) {
				return
			}
			eqUpTo++
		}
		out = append(out, k)
	}
	check(sf.from)
	for k := sf.from + 1; k <= hi && k <= len(recs); k++ {
		r := &recs[k-1]
		switch r.kind {
		case recEntry:
			if r.ent.Index > start.Index {
				up := int(r.ent.Index - start.Index - 1)
				if up > len(ents) {
					// the real reader reports ErrSliceOutOfRange; cannot equal a successful read
					return out
				}
				ents = append(ents[:up], &r.ent)
				if eqUpTo > up {
					eqUpTo = up
				}
			}
		case recState:
			hs = r.hs
		case recSnap:
			if r.snap.Index == start.Index {
				if r.snap.Term != start.Term {
					return out // ErrSnapshotMismatch
				}
				matched = true
			}
		}
		check(k)
	}
	return out
}

// snapsAt: what ValidSnapshotEntries must return for the prefix r_1..r_k: every snapshot record
// (incl. the initial snap(0,0)) whose index is <= the commit of the last hard state.
func snapsAt(recs []rec, k int) []walpb.Snapshot {
	all := []walpb.Snapshot{{}}
	var hs raftpb.HardState
	for i := 0; i < k && i < len(recs); i++ {
		switch recs[i].kind {
		case recState:
			hs = recs[i].hs
		case recSnap:
			all = append(all, recs[i].snap)
		}
	}
	var out []walpb.Snapshot
	for _, s := range all {
		if s.Index <= hs.Commit {
			out = append(out, s)
		}
	}
	return out
}

func snapListEq(a, b []walpb.Snapshot) bool {
	if len(a) != len(b) {
		return false
	}
	for i := range a {
		if a[i].Index != b[i].Index || a[i].Term != b[i].Term {
			return false
		}
	}
	return true
}

func describeGot(g got) string {
	s := fmt.Sprintf("meta=%q state=(t=%d v=%d c=%d) %d entries", g.meta, g.hs.Term, g.hs.Vote, g.hs.Commit, len(g.ents))
	if n := len(g.ents); n > 0 {
		s += fmt.Sprintf(" [i=%d t=%d .. i=%d t=%d len=%d]", g.ents[0].Index, g.ents[0].Term, g.ents[n-1].Index, g.ents[n-1].Term, len(g.ents[n-1].Data))
	}
	return s
}

// segFrom: where a reader that starts at a given snapshot begins in the logical record sequence.
type segFrom struct {
	from int              // number of logical records in earlier segments
	hs0  raftpb.HardState // hard state repeated in the segment header (zero if none)
}
