//go:build verif

package c16

import (
	"fmt"
	"io"
	"os"
	"path/filepath"
	"sort"

	"go.etcd.io/etcd/raft/v3/raftpb"
	"go.etcd.io/etcd/server/v3/etcdserver/api/snap"
	"go.etcd.io/etcd/server/v3/storage/wal"
	"go.etcd.io/etcd/server/v3/storage/wal/walpb"
	"pgregory.net/rapid"

	"verifharness/kit"
)

// ---------------------------------------------------------------- multi-crash sequences
//
// A save operation may carry a CrashSel: after the operation has run (and its crash points have been
// explored as usual) the sequence CONTINUES FROM ONE OF ITS CRASH IMAGES: the live directory is
// replaced by the image, the WAL is recovered there the way etcd does it (ReadAll zeroes a torn tail
// WITHOUT syncing, or Repair truncates it), the records that the crash lost are handed to the WAL
// again (as raft would resend them), and the sequence goes on - so later crash points have dirty
// sectors whose durable content is the stale tail of an earlier torn write.  The logical record
// sequence is unchanged by this: what was lost is written again, in the same order.

// CrashSel selects the image: crash point number Point (mod the number of crash points of the
// operation) and subset number Pick (mod the number of subsets the structured families give).
type CrashSel struct {
	Point int `json:"point"`
	Pick  int `json:"pick"`
}

// F4 (model switch while the finding is listed): the zeroing of a torn tail by ReadAll (write mode) is
// not synced; a second crash can therefore leave stale sectors of the old torn record underneath a
// newer, partially persisted record, which the all-zero-sector heuristic cannot classify as torn.
const findingStaleTail = "C16-F4"

// physicalRecords counts the logical records physically present in a recovered directory (frames
// minus per-segment header frames) and cross-checks the segment table.
func (r *run) physicalRecords(walDir string) (int, string) {
	names := walNames(walDir)
	sort.Strings(names)
	total := 0
	for i, n := range names {
		sf, ok := r.segs[n]
		if !ok {
			return 0, "segment " + n + " unknown to the harness"
		}
		if sf.from != total {
			return 0, fmt.Sprintf("segment %s should start at logical record %d, physical count so far is %d", n, sf.from, total)
		}
		b, err := os.ReadFile(filepath.Join(walDir, n))
		if err != nil {
			return 0, err.Error()
		}
		frames, _ := parseFrames(b)
		hdr := 2 // crc, metadata
		if i == 0 && sf.from == 0 {
			hdr++ // snap(0,0) written by wal.Create
		} else if sf.hs0 != (raftpb.HardState{}) {
			hdr++ // repeated hard state
		}
		if len(frames) < hdr {
			return 0, fmt.Sprintf("segment %s holds %d frames, fewer than its header", n, len(frames))
		}
		total += len(frames) - hdr
	}
	return total, ""
}

func (r *run) crashAndRecover(pts []*crashPoint, sel CrashSel) {
	if len(pts) == 0 || r.fail != "" || r.inconclusive != "" {
		return
	}
	p := pts[sel.Point%len(pts)]
	ds := p.dirty()
	subs, _ := subsets(len(ds), 64, newXS(r.c.Seed^uint64(p.idx)*0x9e3779b97f4a7c15))
	keep := subs[sel.Pick%len(subs)]
	im := p.build(ds, keep, false, r.zeroExtend)
	r.labels["seq-with-recrash"] = true
	r.st.recrashes++

	// the process dies: drop the live WAL, replace the directories by the crash image
	r.tr.active = false
	curTrack.Store(nil)
	if r.w != nil {
		w := r.w
		r.w = nil
		safely(func() { w.Close() })
	}
	for _, d := range []string{r.walDir, r.snapDir} {
		if err := os.RemoveAll(d); err != nil {
			r.inconclusive = err.Error()
			return
		}
	}
	if err := im.write(r.walDir, r.snapDir); err != nil {
		r.inconclusive = err.Error()
		return
	}
	for n := range r.segs {
		if _, ok := im.wal[n]; !ok {
			delete(r.segs, n) // a segment whose creation was not durable; the name may be used again
		}
	}
	// the crash happened at point p: calls that completed after it never happened
	r.required = p.required
	r.snapsOK = p.snapsOK
	r.tr.start() // what is on the medium now is, by definition, durable
	curTrack.Store(r.tr)
	r.prevHS = raftpb.HardState{}
	where := fmt.Sprintf("restart after crash at point %d (%s), kept sectors %s", p.idx, p.desc, bitmap(keep))

	// recovery in place, tracked (Repair fsyncs)
	recs := r.recs[:p.issued]
	walSnaps, err := wal.ValidSnapshotEntries(lg, r.walDir)
	if err != nil {
		r.failf("%s: ValidSnapshotEntries: %v", where, err)
		return
	}
	var start walpb.Snapshot
	sn, err := r.ss.LoadNewestAvailable(walSnaps)
	if err == nil {
		start = walpb.Snapshot{Index: sn.Metadata.Index, Term: sn.Metadata.Term}
	} else if err != snap.ErrNoSnapshot {
		r.failf("%s: LoadNewestAvailable: %v", where, err)
		return
	}
	names := walNames(r.walDir)
	w, err := wal.Open(lg, r.walDir, start)
	if err != nil {
		r.failf("%s: Open: %v", where, err)
		return
	}
	var g got
	g.meta, g.hs, g.ents, err = w.ReadAll()
	if err == io.ErrUnexpectedEOF {
		w.Close()
		if !wal.Repair(lg, r.walDir) {
			r.failf("%s: torn tail and wal.Repair returned false", where)
			return
		}
		if w, err = wal.Open(lg, r.walDir, start); err != nil {
			r.failf("%s: Open after Repair: %v", where, err)
			return
		}
		g.meta, g.hs, g.ents, err = w.ReadAll()
	}
	if err != nil {
		w.Close()
		r.failf("%s: ReadAll: %v", where, err)
		return
	}
	r.w = w
	sf, _ := r.selectSeg(names, start)
	ks := matchPrefixes(recs, len(recs), start, sf, []byte(r.c.Meta), g, true)
	if m := r.judge(ks, p, recs, g, where+": ReadAll"); m != "" {
		r.failf("%s", m)
		return
	}
	k, msg := r.physicalRecords(r.walDir)
	inKs := false
	for _, x := range ks {
		inKs = inKs || x == k
	}
	if msg != "" || !inKs {
		r.inconclusive = fmt.Sprintf("recrash: physical record count %d (%s) not among the matching prefixes %v", k, msg, ks)
		return
	}
	if excluded(findingStaleTail) {
		// model switch: take the (unsynced) zeroing of the torn tail as having reached the medium
		r.excludedAdd(findingStaleTail)
		r.tr.active = false
		r.tr.start()
	}
	// everything recovered is on the medium and will be acted upon: it must survive later crashes
	r.required = k
	r.endOfStep("after restart + recovery")
	// Variant (odd Pick): first save the recovered hard state once more.  Logically a no-op (one more
	// state record, inserted into the record sequence at k), physically it shifts everything that
	// follows, so the records written from now on differ from the stale bytes of the torn tail they
	// are written over (a plain re-save would put identical bytes at identical offsets).
	if sel.Pick%4 == 1 && g.hs != (raftpb.HardState{}) {
		dup := rec{kind: recState, hs: g.hs, op: r.curOp}
		r.recs = append(r.recs[:k], append([]rec{dup}, r.recs[k:]...)...)
		r.handedOver = k + 1
		defer func() { r.handedOver = 0 }()
		if err := r.w.Save(g.hs, nil); err != nil {
			r.failf("%s: Save of the recovered hard state: %v", where, err)
			return
		}
		r.prevHS = g.hs
		k++
		r.labels["seq-with-shifted-rewrite"] = true
		r.endOfStep("after re-Save of the recovered hard state (not synced)")
	}
	recs = r.recs
	// Variant (Pick = 2, 3 mod 4): the lost entries come back with different payload bytes of the same
	// length (after a restart a node may well receive different entries for indexes it never
	// acknowledged).  They were lost, so the record sequence is simply amended.  Offsets stay the
	// same, the bytes (payload, CRC chain) differ from the stale torn tail underneath.
	if sel.Pick%4 >= 2 {
		for i := k; i < len(recs); i++ {
			if recs[i].kind == recEntry && len(recs[i].ent.Data) > 0 {
				nd := make([]byte, len(recs[i].ent.Data))
				for x, b := range recs[i].ent.Data {
					nd[x] = b ^ 0xa5
				}
				recs[i].ent.Data = nd
				r.labels["seq-with-changed-rewrite"] = true
			}
		}
	}
	// hand the lost records to the WAL again, operation by operation
	for i := k; i < len(recs); {
		op := recs[i].op
		var ents []raftpb.Entry
		var st raftpb.HardState
		j := i
		for ; j < len(recs) && recs[j].op == op; j++ {
			switch recs[j].kind {
			case recEntry:
				ents = append(ents, recs[j].ent)
			case recState:
				st = recs[j].hs
			default:
				r.inconclusive = "recrash: a snapshot record was lost (cannot happen: SaveSnapshot syncs)"
				return
			}
		}
		mustSync := len(ents) != 0 || st.Vote != r.prevHS.Vote || st.Term != r.prevHS.Term
		r.handedOver = j
		defer func() { r.handedOver = 0 }()
		if err := r.w.Save(st, ents); err != nil {
			r.failf("%s: Save of the lost records of op %d: %v", where, op, err)
			return
		}
		if st != (raftpb.HardState{}) {
			r.prevHS = st
		}
		if mustSync {
			r.required = j
		}
		r.endOfStep(fmt.Sprintf("after re-Save of the lost records of op %d", op))
		i = j
	}
}

func (r *run) excludedAdd(id string) {
	for _, e := range r.excluded {
		if e == id {
			return
		}
	}
	r.excluded = append(r.excluded, id)
}

// genRecrashCase: shorter sequences in which up to three saves are followed by a restart from one of
// their crash images.
func genRecrashCase(t *rapid.T) Case {
	thorough := kit.Thorough()
	c := Case{
		Seg:      rapid.SampledFrom([]int{4096, 8192, 16384}).Draw(t, "seg"),
		Meta:     kit.B(rapid.SampledFrom([]string{"meta", "", "node-1/cluster-77"}).Draw(t, "meta")),
		PointCap: rapid.SampledFrom([]int{16, 32, 64, 256}).Draw(t, "pointCap"),
		Budget:   kit.Pick(150, 220),
		Corrupt:  0,
		Seed:     uint64(rapid.IntRange(1, 1<<30).Draw(t, "seed")),
	}
	nops := rapid.IntRange(4, 22).Draw(t, "nops")
	g := &genState{terms: []uint64{0}, term: 1}
	crashes := 0
	for len(c.Ops) < nops {
		op := genOp(t, g, thorough)
		if op.Kind == "save" && len(op.Ents) > 0 && crashes < 3 && rapid.IntRange(0, 9).Draw(t, "crashHere") < 3 {
			op.Crash = &CrashSel{Point: rapid.IntRange(0, 3).Draw(t, "crashPoint"), Pick: rapid.IntRange(0, 63).Draw(t, "crashPick")}
			crashes++
		}
		c.Ops = append(c.Ops, op)
	}
	return c
}
