//go:build verif

package c16

import (
	"fmt"

	"pgregory.net/rapid"

	"verifharness/kit"
)

// ---------------------------------------------------------------- case data (plain, JSON)

// Payload describes an entry/snapshot payload compactly (size, fill pattern, seed); the bytes are a
// deterministic function of it (see Bytes), so that cases stay small in replay files.
//
//	z  all zero bytes (the torn-write detector of the WAL keys on all-zero sectors)
//	r  pseudo-random bytes
//	m  pseudo-random bytes with long zero runs (512..2048 bytes, sector sized) punched in
//	f  all 0xff
//	a  repeating ASCII
type Payload struct {
	N    int    `json:"n"`
	Pat  string `json:"p"`
	Seed uint32 `json:"s,omitempty"`
}

type Ent struct {
	Index uint64  `json:"i"`
	Term  uint64  `json:"t"`
	Type  int32   `json:"ty,omitempty"`
	Data  Payload `json:"d"`
}

// Op is one operation of a sequence.
//
//	save     Save(HardState{Term,Vote,Commit}, Ents)   (all-zero hard state = "empty", not written)
//	snap     Snapshotter.SaveSnap + WAL.SaveSnapshot at (SnapIndex, SnapTerm); Release => ReleaseLockTo
//	release  ReleaseLockTo(SnapIndex)
//	reopen   Close, Verify/ValidSnapshotEntries on the intact directory, Open at the newest snapshot, ReadAll
type Op struct {
	Kind      string   `json:"k"`
	Term      uint64   `json:"term,omitempty"`
	Vote      uint64   `json:"vote,omitempty"`
	Commit    uint64   `json:"commit,omitempty"`
	Ents      []Ent    `json:"ents,omitempty"`
	SnapIndex uint64   `json:"si,omitempty"`
	SnapTerm  uint64   `json:"st,omitempty"`
	SnapData  *Payload `json:"sd,omitempty"`
	Release   bool     `json:"rel,omitempty"`
	// save only: afterwards the sequence continues from one of this operation's crash images
	Crash *CrashSel `json:"crash,omitempty"`
}

// Focus pins one crash image: crash point number, "old"/"new" directory listing variant, and the
// subset bitmap over the dirty sectors of that point ('1' = sector reached the disk).
type Focus struct {
	Point   int    `json:"point"`
	Variant string `json:"variant"`
	Subset  string `json:"subset"`
}

// CorruptAt pins one single-byte corruption of the final directory.
type CorruptAt struct {
	Segment string `json:"segment"`
	Offset  int    `json:"offset"`
	Value   int    `json:"value"`
}

type Case struct {
	Seg      int    `json:"seg"`  // wal.SegmentSizeBytes
	Meta     kit.B  `json:"meta"` // WAL metadata
	Ops      []Op   `json:"ops"`
	PointCap int    `json:"point_cap"` // max crash images per crash point
	Budget   int    `json:"budget"`    // max crash images per sequence
	Corrupt  int    `json:"corrupt"`   // single-byte corruptions tried on the final directory (-1 = every offset)
	Seed     uint64 `json:"seed"`      // drives subset sampling, corruption values, continuation payloads
	Focus    *Focus `json:"focus,omitempty"`
	// optional: check exactly this corruption (no crash exploration, no sweep)
	CorruptAt *CorruptAt `json:"corruption,omitempty"`
}

// ---------------------------------------------------------------- deterministic bytes

type xs struct{ s uint64 }

func newXS(seed uint64) *xs {
	if seed == 0 {
		seed = 0x9e3779b97f4a7c15
	}
	return &xs{s: seed}
}

func (x *xs) next() uint64 {
	x.s ^= x.s << 13
	x.s ^= x.s >> 7
	x.s ^= x.s << 17
	return x.s * 0x2545F4914F6CDD1D
}

func (x *xs) intn(n int) int {
	if n <= 0 {
		return 0
	}
	return int(x.next() % uint64(n))
}

func (p Payload) Bytes() []byte {
	if p.N <= 0 {
		return nil
	}
	b := make([]byte, p.N)
	r := newXS(uint64(p.Seed)*0x100000001b3 + uint64(p.N) + 1)
	switch p.Pat {
	case "z":
	case "f":
		for i := range b {
			b[i] = 0xff
		}
	case "a":
		for i := range b {
			b[i] = byte('a' + (i+int(p.Seed))%26)
		}
	case "m":
		for i := range b {
			b[i] = byte(r.next() >> 24)
		}
		runs := 1 + r.intn(3)
		for k := 0; k < runs; k++ {
			l := []int{512, 1024, 1536, 2048, p.N / 2}[r.intn(5)]
			if l > p.N {
				l = p.N
			}
			off := r.intn(p.N - l + 1)
			for i := off; i < off+l; i++ {
				b[i] = 0
			}
		}
	default: // "r"
		for i := range b {
			b[i] = byte(r.next() >> 24)
		}
	}
	return b
}

// ---------------------------------------------------------------- generator

// genState is the generator's picture of the raft-level contract the WAL relies on: entries are
// appended at last+1 or overwrite an uncommitted suffix (index > commit and > snapshot index),
// terms and commit never decrease, a snapshot is taken at a committed index.
type genState struct {
	terms   []uint64 // terms[i] = term of entry i (terms[0] unused)
	term    uint64   // current term
	vote    uint64
	commit  uint64
	snapIdx uint64
	hsSaved bool
}

func (g *genState) last() uint64 { return uint64(len(g.terms) - 1) }

func genPayload(t *rapid.T, thorough bool) Payload {
	var n int
	bucket := rapid.IntRange(0, 99).Draw(t, "sizeBucket")
	switch {
	case bucket < 30:
		n = rapid.SampledFrom([]int{0, 1, 7, 8, 9}).Draw(t, "small")
	case bucket < 62:
		n = rapid.IntRange(500, 520).Draw(t, "mid")
	case bucket < 98 || !thorough && bucket < 99:
		n = rapid.IntRange(4000, 4200).Draw(t, "big")
	default:
		n = 70000
	}
	pat := rapid.SampledFrom([]string{"r", "r", "m", "m", "z", "f", "a"}).Draw(t, "pat")
	return Payload{N: n, Pat: pat, Seed: uint32(rapid.IntRange(0, 1<<20).Draw(t, "pseed"))}
}

func genCase(t *rapid.T) Case {
	thorough := kit.Thorough()
	c := Case{
		Seg:      rapid.SampledFrom([]int{4096, 8192, 8192, 16384}).Draw(t, "seg"),
		Meta:     kit.B(rapid.SampledFrom([]string{"meta", "", "m\x00\x00\x00\x00\x00\x00\x00\x00\x00\x00", "node-1/cluster-77"}).Draw(t, "meta")),
		PointCap: rapid.SampledFrom([]int{8, 32, 32, 64, 128, 1024}).Draw(t, "pointCap"),
		Budget:   kit.Pick(110, 170),
		Corrupt:  kit.Pick(60, 120),
		Seed:     uint64(rapid.IntRange(1, 1<<30).Draw(t, "seed")),
	}
	var nops int
	switch rapid.IntRange(0, 9).Draw(t, "lenBucket") {
	case 0, 1, 2, 3:
		nops = rapid.IntRange(5, 10).Draw(t, "nops")
	case 4, 5, 6, 7:
		nops = rapid.IntRange(11, 25).Draw(t, "nops")
	default:
		nops = rapid.IntRange(26, 60).Draw(t, "nops")
	}
	g := &genState{terms: []uint64{0}, term: 1}
	for len(c.Ops) < nops {
		c.Ops = append(c.Ops, genOp(t, g, thorough))
	}
	return c
}

func genOp(t *rapid.T, g *genState, thorough bool) Op {
	// weights depend on the state: a snapshot needs a committed index above the last snapshot
	w := rapid.IntRange(0, 99).Draw(t, "opKind")
	canSnap := g.commit > g.snapIdx
	switch {
	case w < 8 && canSnap, w < 16 && canSnap && g.commit-g.snapIdx > 3:
		idx := g.snapIdx + 1 + uint64(rapid.IntRange(0, int(g.commit-g.snapIdx-1)).Draw(t, "snapIdx"))
		if rapid.IntRange(0, 2).Draw(t, "snapAtCommit") > 0 {
			idx = g.commit
		}
		sd := Payload{N: rapid.SampledFrom([]int{0, 10, 600, 1500, 3000}).Draw(t, "snapLen"), Pat: rapid.SampledFrom([]string{"r", "m", "z"}).Draw(t, "snapPat"),
			Seed: uint32(rapid.IntRange(0, 1000).Draw(t, "snapSeed"))}
		g.snapIdx = idx
		return Op{Kind: "snap", SnapIndex: idx, SnapTerm: g.terms[idx], SnapData: &sd, Release: rapid.Bool().Draw(t, "release")}
	case w < 22:
		return Op{Kind: "reopen"}
	case w < 25:
		return Op{Kind: "release", SnapIndex: uint64(rapid.IntRange(0, int(g.last())+1).Draw(t, "relIdx"))}
	case w < 40 && g.last() > 0:
		// HardState-only save
		op := Op{Kind: "save"}
		if k := rapid.IntRange(0, 11).Draw(t, "hsKind"); k < 6 {
			// commit advance only: the WAL does not fsync this
			if g.commit < g.last() {
				g.commit += 1 + uint64(rapid.IntRange(0, int(g.last()-g.commit-1)).Draw(t, "commitAdv"))
			}
		} else if k >= 10 {
			// the vote alone changes (a node that entered the term without voting grants its vote
			// later): must be on stable storage like a term change
			g.vote = 1 + g.vote%3
		} else {
			g.term += uint64(rapid.IntRange(1, 3).Draw(t, "termAdv"))
			g.vote = uint64(rapid.IntRange(0, 3).Draw(t, "vote"))
		}
		op.Term, op.Vote, op.Commit = g.term, g.vote, g.commit
		return op
	}
	// save with entries
	op := Op{Kind: "save"}
	n := rapid.SampledFrom([]int{1, 1, 1, 2, 2, 3, 4, 5, 6}).Draw(t, "nents")
	start := g.last() + 1
	floor := g.commit
	if g.snapIdx > floor {
		floor = g.snapIdx
	}
	if g.last() > floor && rapid.IntRange(0, 9).Draw(t, "overwrite") < 2 {
		// a new leader overwrites an uncommitted suffix
		start = floor + 1 + uint64(rapid.IntRange(0, int(g.last()-floor-1)).Draw(t, "owStart"))
		g.term++
		g.vote = uint64(rapid.IntRange(1, 3).Draw(t, "vote"))
		g.terms = g.terms[:start]
	} else if rapid.IntRange(0, 9).Draw(t, "termBump") == 0 {
		g.term++
		g.vote = uint64(rapid.IntRange(1, 3).Draw(t, "vote"))
	}
	for i := 0; i < n; i++ {
		e := Ent{Index: start + uint64(i), Term: g.term, Data: genPayload(t, thorough)}
		if rapid.IntRange(0, 9).Draw(t, "etype") == 0 {
			e.Type = 1
		}
		op.Ents = append(op.Ents, e)
		g.terms = append(g.terms, g.term)
	}
	if rapid.IntRange(0, 9).Draw(t, "withHS") < 6 {
		if g.commit < g.last() && rapid.Bool().Draw(t, "advCommit") {
			g.commit += 1 + uint64(rapid.IntRange(0, int(g.last()-g.commit-1)).Draw(t, "commitAdv"))
		}
		op.Term, op.Vote, op.Commit = g.term, g.vote, g.commit
	}
	return op
}

// validate re-derives the contract from the ops alone (replayed cases are not trusted) and returns a
// description of the first violation, "" if the case is well-formed.
func (c Case) validate() string {
	if c.Seg < 1024 || c.Seg > 1<<20 {
		return "segment size out of range"
	}
	terms := []uint64{0}
	var commit, snapIdx, term uint64
	for i, op := range c.Ops {
		switch op.Kind {
		case "save":
			for j, e := range op.Ents {
				last := uint64(len(terms) - 1)
				if j > 0 && e.Index != last+1 {
					return fmt.Sprintf("op %d: entries not contiguous", i)
				}
				if e.Index == 0 || e.Index > last+1 || e.Index <= commit || e.Index <= snapIdx {
					return fmt.Sprintf("op %d: entry index %d violates the append/overwrite contract (last %d commit %d snap %d)", i, e.Index, last, commit, snapIdx)
				}
				if e.Term < terms[e.Index-1] {
					return fmt.Sprintf("op %d: entry term decreases", i)
				}
				terms = append(terms[:e.Index], e.Term)
			}
			if op.Term != 0 || op.Vote != 0 || op.Commit != 0 {
				if op.Term < term || op.Commit < commit || op.Commit > uint64(len(terms)-1) {
					return fmt.Sprintf("op %d: hard state not monotonic / commit beyond log", i)
				}
				term, commit = op.Term, op.Commit
			}
		case "snap":
			if op.SnapIndex <= snapIdx || op.SnapIndex > commit || op.SnapIndex >= uint64(len(terms)) || terms[op.SnapIndex] != op.SnapTerm {
				return fmt.Sprintf("op %d: snapshot index/term not a committed entry above the previous snapshot", i)
			}
			snapIdx = op.SnapIndex
		case "reopen", "release":
		default:
			return fmt.Sprintf("op %d: unknown kind %q", i, op.Kind)
		}
	}
	return ""
}

// genCorruptCase: a short sequence (few, mostly small records, at least one snapshot when possible)
// with no crash exploration budget and an exhaustive corruption sweep.
func genCorruptCase(t *rapid.T) Case {
	c := Case{
		Seg:      rapid.SampledFrom([]int{4096, 8192}).Draw(t, "seg"),
		Meta:     kit.B(rapid.SampledFrom([]string{"meta", "", "node-1/cluster-77"}).Draw(t, "meta")),
		PointCap: 2, Budget: 0, Corrupt: -1,
		Seed: uint64(rapid.IntRange(1, 1<<30).Draw(t, "seed")),
	}
	nops := rapid.IntRange(4, 12).Draw(t, "nops")
	g := &genState{terms: []uint64{0}, term: 1}
	bytesLeft := 6000
	for len(c.Ops) < nops {
		op := genOp(t, g, false)
		for i := range op.Ents {
			if op.Ents[i].Data.N > 600 && bytesLeft < 4200 || op.Ents[i].Data.N > 5000 {
				op.Ents[i].Data.N = 9
			}
			bytesLeft -= op.Ents[i].Data.N
		}
		c.Ops = append(c.Ops, op)
	}
	return c
}
