//go:build verif

// Package c16 checks property C16: the etcd write-ahead log and snapshot files recover to a
// consistent prefix after any crash (sector-granular loss of the unsynced tail) and never return
// corrupted bytes as valid data.  See DESIGN.md "C16".
//
// Files: case_test.go (case data + generator), track_test.go (fsync tracking, crash images, subset
// families), oracle_test.go (record-granular consistent-prefix oracle), exec_test.go (sequence
// executor, recovery check), corrupt_test.go (single-byte corruption sweeps).
package c16

import (
	"testing"

	"verifharness/kit"
)

func TestMain(m *testing.M) { kit.Main(m, "C16") }

// TestCrash: generated operation sequences; every crash point of every sequence is expanded into
// crash images (exhaustively for few dirty sectors), then the final directory is corrupted byte by byte.
func TestCrash(t *testing.T) {
	kit.Check(t, kit.Spec[Case]{Sub: "crash", Quick: 60, Thorough: 450, Gen: genCase, Exec: exec, TrackCase: true})
}

// TestCorruptExhaustive: short sequences whose final directory is small enough to corrupt EVERY byte
// offset up to the end of the last record (every record type value at type offsets).
func TestCorruptExhaustive(t *testing.T) {
	kit.Check(t, kit.Spec[Case]{Sub: "corrupt", Quick: 2, Thorough: 20, Gen: genCorruptCase, Exec: exec, TrackCase: true})
}

// TestRecrash: multi-crash sequences - restart from a crash image (torn tail zeroed without sync or
// repaired), write on, crash again: stale bytes of an earlier torn record lie under later records.
func TestRecrash(t *testing.T) {
	kit.Check(t, kit.Spec[Case]{Sub: "recrash", Quick: 10, Thorough: 200, Gen: genRecrashCase, Exec: exec, TrackCase: true})
}

func TestReplay(t *testing.T) {
	kit.Replay[Case](t, map[string]func(kit.RawCase) kit.Outcome{
		"crash":   kit.ReplaySub(exec),
		"corrupt": kit.ReplaySub(exec),
		"recrash": kit.ReplaySub(exec),
	})
}
