//go:build verif

package c16

import (
	"bytes"
	"fmt"
	"github.com/innovationb1ue/RedisGO/raftexample"
	"io"
	"os"
	"path/filepath"
	"runtime/debug"
	"sort"
	"strings"
	"sync/atomic"

	"go.etcd.io/etcd/client/pkg/v3/fileutil"
	"go.etcd.io/etcd/pkg/v3/pbutil"
	"go.etcd.io/etcd/raft/v3/raftpb"
	"go.etcd.io/etcd/server/v3/etcdserver/api/snap"
	"go.etcd.io/etcd/server/v3/storage/wal"
	"go.etcd.io/etcd/server/v3/storage/wal/walpb"
	"go.uber.org/zap"

	"verifharness/kit"
)

var (
	lg       = zap.NewNop()
	curTrack atomic.Pointer[tracker]
	runSeq   int
)

func init() {
	// every wal encoder allocates a 1 MiB buffer; with the default GC target of a tiny live heap the
	// collector would run after every few crash images
	debug.SetGCPercent(1000)
	fileutil.VerifSyncHook = func(f *os.File) {
		if tr := curTrack.Load(); tr != nil {
			tr.hook(f)
		}
	}
}

// Known-finding switches (see kit.Known): while a finding is listed in known-findings.txt its region
// is excluded by construction; VERIF_C16_INCLUDE_KNOWN=1 generates the regions regardless.
const (
	// F1: a crash image in which a segment that grew beyond its preallocated size ends inside a
	// record (length field present, body cut off by the end of the file) makes the decoder fail with
	// "wal: max entry size limit exceeded", which is neither io.ErrUnexpectedEOF nor repairable.
	findingShortFile = "C16-F1"
	// F2: the record type is not covered by the record CRC: a single corrupted type byte turns a
	// record into one of another type whose payload is then decoded and returned as valid data.
	findingTypeByte = "C16-F2"
	// F3: a zero length field reads as "end of the data of this file" (preallocated space). When the
	// length field of the FIRST record of a segment that is not the last one is zeroed, the decoder skips
	// that whole segment; if a read starts in it, the next segment's CRC record is accepted as a fresh start
	// (the running CRC is still 0) and ReadAll returns nil error without the skipped segment's entries.
	findingZeroLenHead = "C16-F3"
)

func excluded(id string) bool {
	// a replayed case is executed exactly as recorded (witnesses of known findings must keep failing)
	return kit.Known(id) && os.Getenv("VERIF_C16_INCLUDE_KNOWN") == "" && os.Getenv("VERIF_REPLAY") == ""
}

type stats struct {
	images, mixed, repairs, corruptions, cuts, points, exhaustivePoints                  int64
	tornStraddle, corruptErr, corruptPrefix, corruptFull, corruptPanic, corruptSkippedF3 int64
	snapCorruptions, snapFallbacks, dupImages, oldVariant, maxDirty                      int64
	overwrites, reopens, snapsTaken, unsyncedSaves, contWithCut                          int64
	recrashes, appReplays                                                                int64
}

type savedSnap struct {
	index, term uint64
	bytes       []byte // marshalled raftpb.Snapshot as handed to SaveSnap
	name        string
}

type run struct {
	c               Case
	root            string
	walDir, snapDir string
	w               *wal.WAL
	ss              *snap.Snapshotter
	tr              *tracker
	recs            []rec
	required        int
	prevHS          raftpb.HardState // mirror of the WAL's notion of the previous hard state (MustSync rule)
	snapsSaved      []savedSnap
	snapsOK         int
	pending         []*crashPoint
	npoints         int
	curOp           int
	rng             *xs
	st              stats
	budget          int
	seenImages      map[uint64]bool
	curImage        *image
	fail            string
	inconclusive    string
	excluded        []string
	zeroExtend      bool
	skipTypeByte    bool
	skipZeroLenHead bool
	labels          map[string]bool
	segs            map[string]segFrom // segment file name -> first logical record / header hard state
	handedOver      int                // >0 while lost records are being re-saved: records handed to the WAL so far
}

// issuedNow: number of logical records handed to the WAL so far.
func (r *run) issuedNow() int {
	if r.handedOver > 0 {
		return r.handedOver
	}
	return len(r.recs)
}

func (r *run) failf(format string, a ...any) {
	if r.fail == "" {
		r.fail = fmt.Sprintf(format, a...)
	}
}

func exec(c Case) kit.Outcome {
	if msg := c.validate(); msg != "" {
		return kit.Outcome{Inconclusive: true, Labels: []string{"invalid-case: " + msg}}
	}
	runSeq++
	r := &run{c: c, rng: newXS(c.Seed), budget: c.Budget, seenImages: map[uint64]bool{}, labels: map[string]bool{}, segs: map[string]segFrom{}}
	r.root = filepath.Join(kit.WorkDir(), fmt.Sprintf("c16-%d-%d", os.Getpid(), runSeq))
	_ = os.RemoveAll(r.root)
	defer os.RemoveAll(r.root)
	if excluded(findingShortFile) {
		r.zeroExtend = true
		r.excluded = append(r.excluded, findingShortFile)
	}
	if excluded(findingTypeByte) {
		r.skipTypeByte = true
		r.excluded = append(r.excluded, findingTypeByte)
	}
	if excluded(findingZeroLenHead) {
		r.skipZeroLenHead = true
		r.excluded = append(r.excluded, findingZeroLenHead)
	}
	func() {
		defer func() {
			if p := recover(); p != nil {
				r.failf("harness/WAL panic while executing the sequence (op %d): %v", r.curOp, p)
			}
		}()
		r.execute()
	}()
	curTrack.Store(nil)
	if r.w != nil {
		func() {
			defer func() { _ = recover() }()
			r.w.Close()
		}()
	}
	kit.C.Label("crash-images", r.st.images)
	kit.C.Label("images-mixed-lost-and-kept", r.st.mixed)
	kit.C.Label("images-needing-repair", r.st.repairs)
	kit.C.Label("corruptions", r.st.corruptions)
	kit.C.Label("segment-cuts", r.st.cuts)
	kit.C.Label("crash-points", r.st.points)
	kit.C.Label("crash-points-exhaustive", r.st.exhaustivePoints)
	kit.C.Label("images-old-dir-listing", r.st.oldVariant)
	kit.C.Label("images-duplicate-skipped", r.st.dupImages)
	kit.C.Label("corruptions-error", r.st.corruptErr)
	kit.C.Label("corruptions-strict-prefix", r.st.corruptPrefix)
	kit.C.Label("corruptions-unnoticed-harmless", r.st.corruptFull)
	kit.C.Label("corruptions-panic", r.st.corruptPanic)
	kit.C.Label("corruptions-skipped-known-finding-F3", r.st.corruptSkippedF3)
	kit.C.Label("snap-corruptions", r.st.snapCorruptions)
	kit.C.Label("snap-fallbacks", r.st.snapFallbacks)
	kit.C.Label("continuations-with-cut", r.st.contWithCut)
	kit.C.Label("restarts-from-crash-image", r.st.recrashes)
	kit.C.Label("images-also-recovered-through-the-node's-own-start-up-code", r.st.appReplays)
	kit.C.MaxExtra("max_dirty_sectors", r.st.maxDirty)
	o := kit.Outcome{Fail: r.fail, Excluded: r.excluded}
	// crash sequences: an image with a lost sector followed by a surviving one, or a torn record that
	// needed Repair; exhaustive corruption cases: a corruption inside a record
	o.NonTrivial = r.st.mixed > 0 || r.st.tornStraddle > 0 || (c.Corrupt < 0 && r.st.corruptions > 0)
	for l := range r.labels {
		o.Labels = append(o.Labels, l)
	}
	sort.Strings(o.Labels)
	if r.fail == "" && r.inconclusive != "" {
		o.Inconclusive = true
		o.Labels = append(o.Labels, "inconclusive")
		kit.C.SetExtra("last_inconclusive", r.inconclusive)
	}
	return o
}

func confState() raftpb.ConfState { return raftpb.ConfState{Voters: []uint64{1, 2, 3}} }

// ---------------------------------------------------------------- sequence execution

func (r *run) execute() {
	wal.SegmentSizeBytes = int64(r.c.Seg)
	r.walDir = filepath.Join(r.root, "live", "wal")
	r.snapDir = filepath.Join(r.root, "live", "snap")
	if err := os.MkdirAll(r.snapDir, 0o700); err != nil {
		r.inconclusive = err.Error()
		return
	}
	w, err := wal.Create(lg, r.walDir, []byte(r.c.Meta))
	if err != nil {
		r.failf("wal.Create: %v", err)
		return
	}
	r.w = w
	r.ss = snap.New(lg, r.snapDir)
	r.tr = &tracker{walDir: r.walDir, snapDir: r.snapDir}
	r.tr.onPoint = r.addPoint
	r.tr.start()
	curTrack.Store(r.tr)
	r.curOp = -1
	r.endOfStep("after wal.Create")
	r.explore()

	for i, op := range r.c.Ops {
		if r.fail != "" || r.inconclusive != "" {
			return
		}
		r.curOp = i
		switch op.Kind {
		case "save":
			r.doSave(op)
		case "snap":
			r.doSnap(op)
		case "release":
			if err := r.w.ReleaseLockTo(op.SnapIndex); err != nil {
				r.failf("op %d: ReleaseLockTo(%d): %v", i, op.SnapIndex, err)
			}
		case "reopen":
			r.doReopen(true)
		}
		if r.tr.err != "" {
			r.inconclusive = r.tr.err
			return
		}
		pts := r.pending
		r.explore()
		if op.Kind == "save" && op.Crash != nil && r.fail == "" {
			r.crashAndRecover(pts, *op.Crash)
			if r.tr.err != "" && r.inconclusive == "" {
				r.inconclusive = r.tr.err
			}
			r.explore()
		}
	}
	if r.fail != "" || r.inconclusive != "" {
		return
	}
	r.curOp = len(r.c.Ops)
	r.doReopen(false) // final clean close
	r.explore()
	if r.fail != "" || r.c.Focus != nil {
		return
	}
	names, _ := fileutil.ReadDir(r.walDir, fileutil.WithExt(".wal"))
	r.st.cuts = int64(len(names) - 1)
	if r.st.cuts > 0 {
		r.labels["seq-with-cut"] = true
	}
	curTrack.Store(nil)
	r.tr.active = false
	r.corruptionSweep()
}

func (r *run) addPoint(desc string, w, s []fileObs, durNames map[string]uint64) {
	dn := make(map[string]uint64, len(durNames))
	for k, v := range durNames {
		dn[k] = v
	}
	r.pending = append(r.pending, &crashPoint{idx: r.npoints, op: r.curOp, desc: desc, wal: w, snaps: s, durNames: dn,
		required: r.required, issued: r.issuedNow(), snapsOK: r.snapsOK})
	r.npoints++
}

func (r *run) endOfStep(desc string) {
	w, s := r.tr.observe()
	for _, f := range w {
		if _, ok := r.segs[f.name]; !ok && isWalName(f.name) {
			// a segment cut happens at the end of a Save: the new segment holds the records of the
			// following operations, and its header repeats the hard state the WAL instance saved last
			r.segs[f.name] = segFrom{from: r.issuedNow(), hs0: r.prevHS}
		}
	}
	r.addPoint(desc, w, s, r.tr.durNames)
}

func (r *run) doSave(op Op) {
	st := raftpb.HardState{Term: op.Term, Vote: op.Vote, Commit: op.Commit}
	ents := make([]raftpb.Entry, len(op.Ents))
	for i, e := range op.Ents {
		ents[i] = raftpb.Entry{Index: e.Index, Term: e.Term, Type: raftpb.EntryType(e.Type), Data: e.Data.Bytes()}
		r.recs = append(r.recs, rec{kind: recEntry, ent: ents[i], op: r.curOp})
	}
	emptyHS := st.Term == 0 && st.Vote == 0 && st.Commit == 0
	if emptyHS && len(ents) == 0 {
		return
	}
	if !emptyHS {
		r.recs = append(r.recs, rec{kind: recState, hs: st, op: r.curOp})
	}
	if len(ents) > 0 && len(r.recs) > len(ents)+1 {
		// label sequences that overwrite
		for k := len(r.recs) - len(ents) - 2; k >= 0; k-- {
			if r.recs[k].kind == recEntry {
				if r.recs[k].ent.Index >= ents[0].Index {
					r.labels["seq-with-overwrite"] = true
				}
				break
			}
		}
	}
	// the rule the WAL documents for itself (raft.MustSync): entries, or a changed term/vote, must be
	// on stable storage when Save returns; a commit-only change need not be.
	mustSync := len(ents) != 0 || st.Vote != r.prevHS.Vote || st.Term != r.prevHS.Term
	if err := r.w.Save(st, ents); err != nil {
		r.failf("op %d: Save returned %v", r.curOp, err)
		return
	}
	if !emptyHS {
		r.prevHS = st
	}
	if mustSync {
		r.required = len(r.recs)
	} else {
		r.labels["seq-with-unsynced-save"] = true
	}
	r.endOfStep(fmt.Sprintf("after Save (mustSync=%v)", mustSync))
}

func (r *run) doSnap(op Op) {
	cs := confState()
	var data []byte
	if op.SnapData != nil {
		data = op.SnapData.Bytes()
	}
	rs := raftpb.Snapshot{Data: data, Metadata: raftpb.SnapshotMetadata{Index: op.SnapIndex, Term: op.SnapTerm, ConfState: cs}}
	// etcd's order: snapshot file first, then the WAL record that refers to it
	if err := r.ss.SaveSnap(rs); err != nil {
		r.failf("op %d: SaveSnap: %v", r.curOp, err)
		return
	}
	r.snapsSaved = append(r.snapsSaved, savedSnap{index: op.SnapIndex, term: op.SnapTerm, bytes: pbutil.MustMarshal(&rs),
		name: fmt.Sprintf("%016x-%016x.snap", op.SnapTerm, op.SnapIndex)})
	r.snapsOK = len(r.snapsSaved)
	r.endOfStep("after SaveSnap (snapshot file)")
	ws := walpb.Snapshot{Index: op.SnapIndex, Term: op.SnapTerm, ConfState: &cs}
	r.recs = append(r.recs, rec{kind: recSnap, snap: ws, op: r.curOp})
	if err := r.w.SaveSnapshot(ws); err != nil {
		r.failf("op %d: SaveSnapshot: %v", r.curOp, err)
		return
	}
	r.required = len(r.recs)
	r.labels["seq-with-snapshot"] = true
	if op.Release {
		if err := r.w.ReleaseLockTo(op.SnapIndex); err != nil {
			r.failf("op %d: ReleaseLockTo(%d): %v", r.curOp, op.SnapIndex, err)
		}
	}
	r.endOfStep("after SaveSnapshot (WAL record)")
}

// doReopen closes the WAL (everything handed over so far must then be durable), checks the readers
// that work on an intact directory against each other and the model, and (reopen) opens it again the
// way etcd does: ValidSnapshotEntries -> newest available snapshot -> Open there -> ReadAll.
func (r *run) doReopen(reopen bool) {
	if err := r.w.Close(); err != nil {
		r.failf("op %d: Close: %v", r.curOp, err)
		return
	}
	r.w = nil
	r.required = len(r.recs)
	r.prevHS = raftpb.HardState{}
	r.endOfStep("after Close")
	r.tr.active = false
	defer func() { r.tr.active = true }()
	start, msg := r.checkIntact(r.walDir, r.snapDir, r.recs, len(r.recs))
	if msg != "" {
		r.failf("op %d (clean close, no crash): %s", r.curOp, msg)
		return
	}
	if !reopen {
		return
	}
	w, err := wal.Open(lg, r.walDir, start)
	if err != nil {
		r.failf("op %d: Open after clean close: %v", r.curOp, err)
		return
	}
	r.w = w
	meta, hs, ents, err := w.ReadAll()
	if err != nil {
		r.failf("op %d: ReadAll after clean close: %v", r.curOp, err)
		return
	}
	sf, ok := r.selectSeg(walNames(r.walDir), start)
	if !ok {
		r.inconclusive = "segment table out of step with the directory"
		return
	}
	ks := matchPrefixes(r.recs, len(r.recs), start, sf, []byte(r.c.Meta), got{meta, hs, ents}, true)
	if len(ks) == 0 || ks[len(ks)-1] != len(r.recs) {
		r.failf("op %d: ReadAll (write mode) after a clean close returned %s, which is not the content written (%d records); matching prefixes %v",
			r.curOp, describeGot(got{meta, hs, ents}), len(r.recs), ks)
	}
	r.labels["seq-with-reopen"] = true
}

// checkIntact: on a directory that is complete up to record k (exactly), wal.Verify,
// wal.ValidSnapshotEntries, Snapshotter.LoadNewestAvailable and a read-mode ReadAll must agree with
// the model.  Returns the snapshot etcd would start from.
func (r *run) checkIntact(walDir, snapDir string, recs []rec, k int) (walpb.Snapshot, string) {
	var start walpb.Snapshot
	walSnaps, err := wal.ValidSnapshotEntries(lg, walDir)
	if err != nil {
		return start, fmt.Sprintf("ValidSnapshotEntries: %v", err)
	}
	if want := snapsAt(recs, k); !snapListEq(walSnaps, want) {
		return start, fmt.Sprintf("ValidSnapshotEntries returned %v, the log holds %v", walSnaps, want)
	}
	sn, err := snap.New(lg, snapDir).LoadNewestAvailable(walSnaps)
	switch {
	case err == snap.ErrNoSnapshot:
		if len(walSnaps) > 1 {
			return start, fmt.Sprintf("LoadNewestAvailable: ErrNoSnapshot although the log refers to snapshots %v", walSnaps)
		}
	case err != nil:
		return start, fmt.Sprintf("LoadNewestAvailable: %v", err)
	default:
		last := walSnaps[len(walSnaps)-1]
		if sn.Metadata.Index != last.Index || sn.Metadata.Term != last.Term {
			return start, fmt.Sprintf("LoadNewestAvailable returned snapshot (%d,%d), newest in the log is (%d,%d)", sn.Metadata.Index, sn.Metadata.Term, last.Index, last.Term)
		}
		if m := r.snapEqualsSaved(sn); m != "" {
			return start, "LoadNewestAvailable: " + m
		}
		start = walpb.Snapshot{Index: sn.Metadata.Index, Term: sn.Metadata.Term}
	}
	for _, s := range []walpb.Snapshot{start, {}} {
		hs, err := wal.Verify(lg, walDir, s)
		if err != nil {
			return start, fmt.Sprintf("Verify(at %d): %v", s.Index, err)
		}
		g, err := readAllRO(walDir, s)
		if err != nil {
			return start, fmt.Sprintf("read-mode ReadAll(at %d): %v", s.Index, err)
		}
		if *hs != g.hs {
			return start, fmt.Sprintf("Verify(at %d) hard state %v differs from ReadAll's %v", s.Index, *hs, g.hs)
		}
		sf, ok := r.selectSeg(walNames(walDir), s)
		if !ok {
			return start, "harness: segment table out of step with the directory"
		}
		ks := matchPrefixes(recs, k, s, sf, []byte(r.c.Meta), g, true)
		if len(ks) == 0 || ks[len(ks)-1] != k {
			return start, fmt.Sprintf("read-mode ReadAll(at %d) returned %s: not the %d records written (matching prefixes %v)", s.Index, describeGot(g), k, ks)
		}
		if s.Index == 0 {
			break
		}
	}
	return start, ""
}

func (r *run) snapEqualsSaved(sn *raftpb.Snapshot) string {
	b := pbutil.MustMarshal(sn)
	for _, s := range r.snapsSaved {
		if s.index == sn.Metadata.Index && s.term == sn.Metadata.Term {
			if !bytes.Equal(b, s.bytes) {
				return fmt.Sprintf("snapshot (%d,%d) differs from the one saved", s.index, s.term)
			}
			return ""
		}
	}
	return fmt.Sprintf("snapshot (%d,%d) was never saved", sn.Metadata.Index, sn.Metadata.Term)
}

func readAllRO(walDir string, s walpb.Snapshot) (g got, err error) {
	w, err := wal.OpenForRead(lg, walDir, s)
	if err != nil {
		return g, err
	}
	defer w.Close()
	g.meta, g.hs, g.ents, err = w.ReadAll()
	return g, err
}

// ---------------------------------------------------------------- crash exploration

// explore turns the crash points collected during the last operation into crash images and checks
// each of them.  Runs between operations (the live WAL stays open; images are separate copies).
func (r *run) explore() {
	pts := r.pending
	r.pending = nil
	if r.c.CorruptAt != nil {
		return
	}
	r.tr.active = false
	defer func() { r.tr.active = true }()
	for _, p := range pts {
		if r.fail != "" {
			return
		}
		if f := r.c.Focus; f != nil && f.Point != p.idx {
			continue
		}
		r.explorePoint(p)
	}
}

func (r *run) explorePoint(p *crashPoint) {
	ds := p.dirty()
	n := len(ds)
	if int64(n) > r.st.maxDirty {
		r.st.maxDirty = int64(n)
	}
	variants := []bool{false}
	if p.hasOldVariant() {
		variants = append(variants, true)
	}
	if f := r.c.Focus; f != nil {
		keep, ok := parseBitmap(f.Subset, n)
		if !ok {
			r.failf("focus: crash point %d has %d dirty sectors, bitmap %q does not fit (non-deterministic replay?)", p.idx, n, f.Subset)
			return
		}
		r.checkImage(p, ds, keep, f.Variant == "old")
		return
	}
	limit := r.c.PointCap
	if r.budget < limit {
		limit = r.budget
	}
	if limit < 2 {
		limit = 2 // an exhausted budget still looks at "nothing arrived" and "everything arrived"
	}
	subs, exh := subsets(n, limit, r.rng)
	r.st.points++
	if exh {
		r.st.exhaustivePoints++
	}
	for _, old := range variants {
		for _, keep := range subs {
			if r.fail != "" {
				return
			}
			r.checkImage(p, ds, keep, old)
		}
	}
}

func hashImage(im image, required int) uint64 {
	var names []string
	for n := range im.wal {
		names = append(names, "w/"+n)
	}
	for n := range im.snaps {
		names = append(names, "s/"+n)
	}
	sort.Strings(names)
	h := uint64(14695981039346656037)
	mix := func(b []byte) {
		for _, c := range b {
			h ^= uint64(c)
			h *= 1099511628211
		}
	}
	for _, n := range names {
		mix([]byte(n))
		mix([]byte{0})
		if strings.HasPrefix(n, "w/") {
			mix(im.wal[n[2:]])
		} else {
			mix(im.snaps[n[2:]])
		}
		mix([]byte{1})
	}
	mix([]byte(fmt.Sprint(required)))
	return h
}

func (r *run) checkImage(p *crashPoint, ds []dirtySector, keep []bool, old bool) {
	im := p.build(ds, keep, old, r.zeroExtend)
	if r.c.Focus == nil {
		h := hashImage(im, p.required)
		if r.seenImages[h] {
			r.st.dupImages++
			return
		}
		r.seenImages[h] = true
	}
	r.budget--
	r.st.images++
	isMixed := mixed(keep)
	if isMixed {
		r.st.mixed++
	}
	if old {
		r.st.oldVariant++
	}
	dir := filepath.Join(r.root, "img")
	_ = os.RemoveAll(dir)
	defer os.RemoveAll(dir)
	wd, sd := filepath.Join(dir, "wal"), filepath.Join(dir, "snap")
	if err := im.write(wd, sd); err != nil {
		r.inconclusive = "writing image: " + err.Error()
		return
	}
	r.curImage = &im
	msg := r.checkRecovery(p, wd, sd)
	r.curImage = nil
	if msg != "" {
		variant := "new"
		if old {
			variant = "old"
		}
		foc := Focus{Point: p.idx, Variant: variant, Subset: bitmap(keep)}
		opd := "setup"
		if p.op >= 0 && p.op < len(r.c.Ops) {
			opd = fmt.Sprintf("op %d (%s)", p.op, r.c.Ops[p.op].Kind)
		} else if p.op >= len(r.c.Ops) {
			opd = "final close"
		}
		r.failf("crash image violates the property: %s\n  crash point %d: %s, %s; records issued %d, required (completed must-sync calls) %d\n  directory variant %q; dirty sectors (%d):%s\n  focus={\"point\":%d,\"variant\":%q,\"subset\":%q}",
			msg, p.idx, opd, p.desc, p.issued, p.required, variant, len(ds), p.describeDirty(ds, keep), foc.Point, foc.Variant, foc.Subset)
	}
}

// safely runs f and converts a panic into an error string.
func safely(f func()) (panicked string) {
	defer func() {
		if p := recover(); p != nil {
			panicked = fmt.Sprint(p)
		}
	}()
	f()
	return ""
}

// checkRecovery is the consistent-prefix oracle on one crash image (a private copy: recovery writes).
func (r *run) checkRecovery(p *crashPoint, walDir, snapDir string) string {
	recs := r.recs[:p.issued]
	meta := []byte(r.c.Meta)
	names := walNames(walDir)
	// 1. snapshots the log refers to (tolerates a torn tail by contract)
	walSnaps, err := wal.ValidSnapshotEntries(lg, walDir)
	if err != nil {
		return fmt.Sprintf("ValidSnapshotEntries failed on an image produced by sector loss only: %v", err)
	}
	// 2. newest available snapshot; a torn (never completed) snapshot file must be skipped
	var start walpb.Snapshot
	ss := snap.New(lg, snapDir)
	sn, err := ss.LoadNewestAvailable(walSnaps)
	switch {
	case err == snap.ErrNoSnapshot:
		for _, s := range walSnaps {
			if s.Index > 0 {
				return fmt.Sprintf("LoadNewestAvailable: ErrNoSnapshot although the recovered log refers to snapshot (%d,%d), whose file was synced before the record was written", s.Index, s.Term)
			}
		}
	case err != nil:
		return fmt.Sprintf("LoadNewestAvailable: %v", err)
	default:
		last := walSnaps[len(walSnaps)-1]
		if sn.Metadata.Index != last.Index || sn.Metadata.Term != last.Term {
			return fmt.Sprintf("LoadNewestAvailable returned snapshot (%d,%d), newest referred to by the recovered log is (%d,%d)", sn.Metadata.Index, sn.Metadata.Term, last.Index, last.Term)
		}
		if m := r.snapEqualsSaved(sn); m != "" {
			return "LoadNewestAvailable: " + m
		}
		start = walpb.Snapshot{Index: sn.Metadata.Index, Term: sn.Metadata.Term}
	}
	// plain Load: newest intact snapshot file, never older than the newest completed SaveSnap
	if len(r.snapsSaved) > 0 {
		ls, err := ss.Load()
		if err == snap.ErrNoSnapshot {
			if p.snapsOK > 0 {
				return "Snapshotter.Load: ErrNoSnapshot although a SaveSnap call had completed"
			}
		} else if err != nil {
			return fmt.Sprintf("Snapshotter.Load: %v", err)
		} else {
			if m := r.snapEqualsSaved(ls); m != "" {
				return "Snapshotter.Load: " + m
			}
			if p.snapsOK > 0 && ls.Metadata.Index < r.snapsSaved[p.snapsOK-1].index {
				return fmt.Sprintf("Snapshotter.Load returned snapshot %d, but SaveSnap(%d) had completed", ls.Metadata.Index, r.snapsSaved[p.snapsOK-1].index)
			}
		}
	}
	// 3. read-only readers: whole log from the beginning and from the chosen snapshot
	var ksRO []int
	for _, s := range []walpb.Snapshot{{}, start} {
		hs, err := wal.Verify(lg, walDir, s)
		if err != nil {
			return fmt.Sprintf("Verify(at %d): %v", s.Index, err)
		}
		g, err := readAllRO(walDir, s)
		if err != nil {
			return fmt.Sprintf("read-mode ReadAll(at %d): %v", s.Index, err)
		}
		if *hs != g.hs {
			return fmt.Sprintf("Verify(at %d) hard state %v differs from ReadAll's %v", s.Index, *hs, g.hs)
		}
		sf, ok := r.selectSeg(names, s)
		if !ok {
			return "harness: segment table out of step with the image"
		}
		ks := matchPrefixes(recs, len(recs), s, sf, meta, g, true)
		if m := r.judge(ks, p, recs, g, fmt.Sprintf("read-mode ReadAll(at %d)", s.Index)); m != "" {
			return m
		}
		if s.Index == 0 {
			ksRO = ks // the whole log read from its beginning: the most discriminating view
		}
		if start.Index == 0 {
			break
		}
	}
	// the snapshot list must belong to one of the prefixes the entries/state belong to
	okSnaps := false
	for _, k := range ksRO {
		if snapListEq(walSnaps, snapsAt(recs, k)) {
			okSnaps = true
			break
		}
	}
	if !okSnaps {
		return fmt.Sprintf("ValidSnapshotEntries returned %v, which is not the snapshot list of any prefix %v that matches the recovered entries/state", walSnaps, ksRO)
	}
	// 4. the real recovery: write-mode open; a torn tail must be reported as ErrUnexpectedEOF and be repairable
	var g got
	w, err := wal.Open(lg, walDir, start)
	if err != nil {
		return fmt.Sprintf("Open(at %d): %v", start.Index, err)
	}
	// durability is judged on the live WAL only; the recovery of an image need not wait for the disk
	w.SetUnsafeNoFsync()
	g.meta, g.hs, g.ents, err = w.ReadAll()
	repaired := false
	if err == io.ErrUnexpectedEOF {
		w.Close()
		repaired = true
		r.st.repairs++
		r.st.tornStraddle++
		if !wal.Repair(lg, walDir) {
			return "ReadAll reported io.ErrUnexpectedEOF (torn final record) and wal.Repair returned false"
		}
		if w, err = wal.Open(lg, walDir, start); err != nil {
			return fmt.Sprintf("Open after Repair: %v", err)
		}
		w.SetUnsafeNoFsync()
		g.meta, g.hs, g.ents, err = w.ReadAll()
		if err != nil {
			w.Close()
			return fmt.Sprintf("ReadAll after a successful Repair: %v", err)
		}
	} else if err != nil {
		w.Close()
		return fmt.Sprintf("ReadAll (write mode, at %d) failed with a non-repairable error on an image produced by sector loss only: %v", start.Index, err)
	}
	sf, _ := r.selectSeg(names, start)
	ks := matchPrefixes(recs, len(recs), start, sf, meta, g, true)
	if m := r.judge(ks, p, recs, g, fmt.Sprintf("ReadAll (write mode, at %d, repaired=%v)", start.Index, repaired)); m != "" {
		w.Close()
		return m
	}
	// 4b. the node's own start-up recovery (raftexample's replayWAL, through hook VerifReplay) on a fresh copy
	// of the same image must start the raft instance from exactly that: same snapshot, hard state, entries.
	// Every image that needed a repair, one in four of the others.
	if r.curImage != nil && (repaired || r.st.images%4 == 0) {
		if m := r.replayViaApp(start, g); m != "" {
			w.Close()
			return m
		}
	}
	// 5. the recovered WAL accepts further saves and a clean reopen returns old + new
	return r.continueAfter(w, walDir, start, g)
}

func (r *run) replayViaApp(start walpb.Snapshot, g got) string {
	dir := filepath.Join(r.root, "img-app")
	_ = os.RemoveAll(dir)
	defer os.RemoveAll(dir)
	wd, sd := filepath.Join(dir, "wal"), filepath.Join(dir, "snap")
	if err := r.curImage.write(wd, sd); err != nil {
		return ""
	}
	r.st.appReplays++
	hs, ents, snapIdx, err := raftexample.VerifReplay(wd, sd)
	if err != nil {
		return fmt.Sprintf("the node's start-up recovery (replayWAL) fails on an image the WAL recovers from: %v", err)
	}
	if snapIdx != start.Index {
		return fmt.Sprintf("the node's start-up recovery starts from snapshot %d, the newest snapshot the recovered log refers to is %d", snapIdx, start.Index)
	}
	if hs != g.hs {
		return fmt.Sprintf("the node's start-up recovery hands raft the hard state %v, the log holds %v", hs, g.hs)
	}
	if len(ents) != len(g.ents) {
		return fmt.Sprintf("the node's start-up recovery hands raft %d entries behind snapshot %d, the recovered log holds %d (%s)", len(ents), start.Index, len(g.ents), describeGot(g))
	}
	for i := range ents {
		if ents[i].Index != g.ents[i].Index || ents[i].Term != g.ents[i].Term || string(ents[i].Data) != string(g.ents[i].Data) {
			return fmt.Sprintf("the node's start-up recovery hands raft entry (index %d, term %d) at position %d, the recovered log holds (index %d, term %d)", ents[i].Index, ents[i].Term, i, g.ents[i].Index, g.ents[i].Term)
		}
	}
	return ""
}

// judge: the recovered content must be the fold of r_1..r_k for some k >= required.
func (r *run) judge(ks []int, p *crashPoint, recs []rec, g got, what string) string {
	if len(ks) == 0 {
		return fmt.Sprintf("%s returned %s, which is not the content of ANY prefix of the %d records written (modified, reordered or unwritten data)", what, describeGot(g), len(recs))
	}
	if k := ks[len(ks)-1]; k < p.required {
		return fmt.Sprintf("%s returned %s = the first %d records, but the first %d had been written by calls that completed and had to sync; first missing: %s (op %d)",
			what, describeGot(g), k, p.required, recs[k].String(), recs[k].op)
	}
	return ""
}

func (r *run) continueAfter(w *wal.WAL, walDir string, start walpb.Snapshot, g got) string {
	closed := false
	nBefore := len(walNames(walDir))
	defer func() {
		if !closed {
			w.Close()
		}
	}()
	last := start.Index
	lastTerm := start.Term
	if n := len(g.ents); n > 0 {
		last, lastTerm = g.ents[n-1].Index, g.ents[n-1].Term
	}
	term := g.hs.Term
	if lastTerm > term {
		term = lastTerm
	}
	term++
	want := got{meta: g.meta, hs: g.hs, ents: append([]raftpb.Entry(nil), g.ents...)}
	sizes := []int{0, 9, 510, 700, 4100}
	nsaves := 2
	for i := 0; i < nsaves; i++ {
		var ents []raftpb.Entry
		ne := 1 + r.rng.intn(2)
		for j := 0; j < ne; j++ {
			last++
			pl := Payload{N: sizes[r.rng.intn(len(sizes))], Pat: []string{"r", "m", "z"}[r.rng.intn(3)], Seed: uint32(r.rng.intn(1000))}
			ents = append(ents, raftpb.Entry{Index: last, Term: term, Data: pl.Bytes()})
		}
		hs := raftpb.HardState{Term: term, Vote: 1, Commit: g.hs.Commit}
		if err := w.Save(hs, ents); err != nil {
			return fmt.Sprintf("Save #%d on the recovered WAL: %v", i+1, err)
		}
		want.hs = hs
		want.ents = append(want.ents, ents...)
	}
	if err := w.Close(); err != nil {
		closed = true
		return fmt.Sprintf("Close of the recovered WAL: %v", err)
	}
	closed = true
	if len(walNames(walDir)) > nBefore {
		r.st.contWithCut++
	}
	if _, err := wal.Verify(lg, walDir, start); err != nil {
		return fmt.Sprintf("Verify after recovery + 2 saves + clean close: %v", err)
	}
	w2, err := wal.Open(lg, walDir, start)
	if err != nil {
		return fmt.Sprintf("Open after recovery + 2 saves + clean close: %v", err)
	}
	defer w2.Close()
	var g2 got
	g2.meta, g2.hs, g2.ents, err = w2.ReadAll()
	if err != nil {
		return fmt.Sprintf("ReadAll after recovery + 2 saves + clean close: %v", err)
	}
	if !bytes.Equal(g2.meta, want.meta) || g2.hs != want.hs || len(g2.ents) != len(want.ents) {
		return fmt.Sprintf("after recovery + 2 saves + clean close ReadAll returned %s, expected %s", describeGot(g2), describeGot(want))
	}
	for i := range g2.ents {
		if !entEq(&g2.ents[i], &want.ents[i]) {
			return fmt.Sprintf("after recovery + 2 saves + clean close entry #%d (index %d) differs from what was recovered/saved", i, want.ents[i].Index)
		}
	}
	return ""
}

// selectSeg mirrors the WAL's file selection: the last *.wal name (sorted) whose index part is <=
// the snapshot index.
func (r *run) selectSeg(names []string, start walpb.Snapshot) (segFrom, bool) {
	sort.Strings(names)
	for i := len(names) - 1; i >= 0; i-- {
		var seq, idx uint64
		if _, err := fmt.Sscanf(names[i], "%016x-%016x.wal", &seq, &idx); err != nil {
			continue
		}
		if start.Index >= idx {
			sf, ok := r.segs[names[i]]
			return sf, ok
		}
	}
	return segFrom{}, false
}

func walNames(dir string) []string {
	names, _ := fileutil.ReadDir(dir, fileutil.WithExt(".wal"))
	return names
}
