package model

import (
	"bytes"
	"fmt"
	"math"
	"sort"
	"strconv"
	"strings"

	"verifharness/respx"
)

// Reply is an abstract expected reply.
//
//	'n' nil (nil bulk or nil array)        'i' integer         's' string (simple or bulk, equal bytes)
//	'f' float (numeric comparison)         'a' array           'e' error (class WRONGTYPE / ERR / ANY)
//	'x' alternatives (first match wins)    'p' predicate over the actual value
//
// Then, if set, is run with the actual value after a successful match: it lets the model adopt an
// outcome that the reference leaves open (random commands, don't-care zones).
type Reply struct {
	T         byte
	I         int64
	S         []byte
	F         float64
	A         []Reply
	Unordered bool   // array compares as a multiset
	Pairs     bool   // with Unordered: flat array of pairs, compare as multiset of pairs
	E         string // "WRONGTYPE", "ERR" (any error that is not WRONGTYPE), "ANY"
	Alts      []Reply
	Pred      func(v respx.Value) error
	Then      func(v respx.Value)
	Note      string // don't-care label, counted in evidence
}

func Nil() Reply            { return Reply{T: 'n'} }
func Int(i int64) Reply     { return Reply{T: 'i', I: i} }
func Str(s []byte) Reply    { return Reply{T: 's', S: s} }
func SStr(s string) Reply   { return Reply{T: 's', S: []byte(s)} }
func Float(f float64) Reply { return Reply{T: 'f', F: f} }
func Arr(a ...Reply) Reply {
	if a == nil {
		a = []Reply{}
	}
	return Reply{T: 'a', A: a}
}
func Err() Reply       { return Reply{T: 'e', E: "ERR"} }
func AnyErr() Reply    { return Reply{T: 'e', E: "ANY"} }
func WrongType() Reply { return Reply{T: 'e', E: "WRONGTYPE"} }
func OK() Reply        { return SStr("OK") }
func Alt(note string, alts ...Reply) Reply {
	return Reply{T: 'x', Alts: alts, Note: note}
}
func Pred(f func(v respx.Value) error) Reply { return Reply{T: 'p', Pred: f} }

func StrArr(items [][]byte) Reply {
	r := Reply{T: 'a', A: make([]Reply, len(items))}
	for i, it := range items {
		r.A[i] = Str(it)
	}
	return r
}

func (r Reply) WithThen(f func(v respx.Value)) Reply { r.Then = f; return r }

func (r Reply) String() string {
	switch r.T {
	case 'n':
		return "nil"
	case 'i':
		return ":" + strconv.FormatInt(r.I, 10)
	case 's':
		return strconv.Quote(string(r.S))
	case 'f':
		return "float(" + strconv.FormatFloat(r.F, 'g', -1, 64) + ")"
	case 'a':
		parts := make([]string, len(r.A))
		for i, e := range r.A {
			parts[i] = e.String()
		}
		u := ""
		if r.Unordered {
			u = "unordered"
		}
		return u + "[" + strings.Join(parts, " ") + "]"
	case 'e':
		return "error(" + r.E + ")"
	case 'x':
		parts := make([]string, len(r.Alts))
		for i, e := range r.Alts {
			parts[i] = e.String()
		}
		return "oneof{" + strings.Join(parts, " | ") + "}"
	case 'p':
		return "predicate"
	}
	return "?"
}

func isStr(v respx.Value) bool {
	return (v.Kind == respx.Simple) || (v.Kind == respx.Bulk && !v.Null)
}

// ParseFloat accepts the spellings Redis uses for doubles in replies.
func ParseFloat(b []byte) (float64, bool) {
	s := strings.ToLower(string(b))
	switch s {
	case "inf", "+inf":
		return math.Inf(1), true
	case "-inf":
		return math.Inf(-1), true
	}
	f, err := strconv.ParseFloat(s, 64)
	if err != nil {
		return 0, false
	}
	return f, true
}

func floatEq(a, b float64) bool {
	if a == b {
		return true
	}
	if math.IsInf(a, 0) || math.IsInf(b, 0) || math.IsNaN(a) || math.IsNaN(b) {
		return false
	}
	d := math.Abs(a - b)
	return d <= 1e-9*math.Max(math.Abs(a), math.Abs(b)) || d < 1e-12
}

// Match compares an actual reply with the expectation; nil = acceptable. Runs Then on success.
func Match(r Reply, v respx.Value) error {
	if err := match(r, v); err != nil {
		return err
	}
	return nil
}

func match(r Reply, v respx.Value) error {
	mismatch := func() error { return fmt.Errorf("reply %s, reference says %s", v.String(), r.String()) }
	switch r.T {
	case 'n':
		if (v.Kind == respx.Bulk || v.Kind == respx.Array) && v.Null {
			break
		}
		return mismatch()
	case 'i':
		if v.Kind != respx.Integer || v.Int != r.I {
			return mismatch()
		}
	case 's':
		if !isStr(v) || !bytes.Equal(v.Str, r.S) {
			return mismatch()
		}
	case 'f':
		if !isStr(v) {
			return mismatch()
		}
		f, ok := ParseFloat(v.Str)
		if !ok || !floatEq(f, r.F) {
			return mismatch()
		}
	case 'e':
		if v.Kind != respx.Error {
			return mismatch()
		}
		wt := bytes.HasPrefix(v.Str, []byte("WRONGTYPE"))
		if (r.E == "WRONGTYPE" && !wt) || (r.E == "ERR" && wt) {
			return mismatch()
		}
	case 'a':
		if v.Kind != respx.Array || v.Null || len(v.Arr) != len(r.A) {
			return mismatch()
		}
		if r.Unordered {
			if err := matchUnordered(r, v); err != nil {
				return fmt.Errorf("%v: reply %s, reference says %s", err, v.String(), r.String())
			}
		} else {
			for i := range r.A {
				if err := match(r.A[i], v.Arr[i]); err != nil {
					return fmt.Errorf("element %d: %v; whole reply %s, reference says %s", i, err, v.String(), r.String())
				}
			}
		}
	case 'x':
		var first error
		for _, alt := range r.Alts {
			err := match(alt, v)
			if err == nil {
				if r.Then != nil {
					r.Then(v)
				}
				return nil
			}
			if first == nil {
				first = err
			}
		}
		return mismatch()
	case 'p':
		if err := r.Pred(v); err != nil {
			return fmt.Errorf("reply %s: %v", v.String(), err)
		}
	default:
		return fmt.Errorf("model bug: reply type %q", r.T)
	}
	if r.Then != nil {
		r.Then(v)
	}
	return nil
}

func key(v respx.Value) string {
	if v.Kind == respx.Integer {
		return "i" + strconv.FormatInt(v.Int, 10)
	}
	if v.Null {
		return "nil"
	}
	if v.Kind == respx.Array {
		parts := make([]string, len(v.Arr))
		for i, e := range v.Arr {
			parts[i] = key(e)
		}
		return "a(" + strings.Join(parts, ",") + ")"
	}
	if v.Kind == respx.Error {
		return "e"
	}
	return "s" + strconv.Quote(string(v.Str))
}

func rkey(r Reply) string {
	switch r.T {
	case 'i':
		return "i" + strconv.FormatInt(r.I, 10)
	case 'n':
		return "nil"
	case 's':
		return "s" + strconv.Quote(string(r.S))
	case 'a':
		parts := make([]string, len(r.A))
		for i, e := range r.A {
			parts[i] = rkey(e)
		}
		return "a(" + strings.Join(parts, ",") + ")"
	}
	return "?" + r.String()
}

func matchUnordered(r Reply, v respx.Value) error {
	step := 1
	if r.Pairs {
		step = 2
		if len(r.A)%2 != 0 {
			return fmt.Errorf("model bug: odd pairs")
		}
	}
	var want, got []string
	for i := 0; i+step <= len(r.A); i += step {
		k := rkey(r.A[i])
		if step == 2 {
			k += "=>" + rkey(r.A[i+1])
		}
		want = append(want, k)
	}
	for i := 0; i+step <= len(v.Arr); i += step {
		k := key(v.Arr[i])
		if step == 2 {
			k += "=>" + key(v.Arr[i+1])
		}
		got = append(got, k)
	}
	sort.Strings(want)
	sort.Strings(got)
	if strings.Join(want, "\x00") != strings.Join(got, "\x00") {
		return fmt.Errorf("different multiset")
	}
	return nil
}
