package model

import (
	"math"
	"strconv"
	"strings"

	"verifharness/respx"
)

// Unspecified: the reference (or this model) does not pin the outcome; the runner accepts any
// non-crashing reply and abandons the rest of the program (state is unknown from here on).
func Unspecified(note string) Reply { return Reply{T: '?', Note: note} }

// parseInt follows Redis' string2ll: optional '-', digits, no leading zeros, no '+', no spaces.
// ok=false: Redis rejects. amb=true: spelling Go's strconv accepts but Redis rejects (don't-care).
func parseInt(s string) (v int64, ok bool, amb bool) {
	if s == "" {
		return 0, false, false
	}
	i := 0
	if s[0] == '-' {
		i = 1
	}
	strict := i < len(s)
	for j := i; j < len(s); j++ {
		if s[j] < '0' || s[j] > '9' {
			strict = false
		}
	}
	if strict && len(s)-i > 1 && s[i] == '0' {
		strict = false
	}
	if strict && s == "-0" {
		strict = false
	}
	n, err := strconv.ParseInt(s, 10, 64)
	if strict {
		if err != nil {
			return 0, false, false // out of range
		}
		return n, true, false
	}
	if err == nil {
		return n, false, true // "+1", "01", "-0"
	}
	return 0, false, false
}

func parseFloatArg(s string) (float64, bool, bool) {
	// plain decimal spellings only are "specified"; everything else Go accepts is ambiguous
	if s == "" {
		return 0, false, false
	}
	f, err := strconv.ParseFloat(s, 64)
	if err != nil {
		if ne, ok := err.(*strconv.NumError); ok && ne.Err == strconv.ErrRange {
			return 0, false, true // 1e999: Redis: not a valid float / overflow; leave open
		}
		return 0, false, false
	}
	plain := true
	for i := 0; i < len(s); i++ {
		c := s[i]
		if !(c >= '0' && c <= '9') && c != '.' && c != 'e' && !(c == '-' && (i == 0 || s[i-1] == 'e')) {
			plain = false
		}
	}
	if strings.HasPrefix(s, ".") || strings.HasSuffix(s, ".") || strings.HasPrefix(s, "-.") {
		plain = false
	}
	if math.IsInf(f, 0) || math.IsNaN(f) {
		return f, false, true
	}
	if !plain {
		return f, false, true
	}
	return f, true, false
}

func lower(s string) string { return strings.ToLower(s) }

// nonFinite: a spelling of an infinity or of not-a-number ("inf", "-Infinity", "NaN", ...). As an
// increment it is refused under every reading - it is not a float, or the result would not be finite -
// so nothing may change.
func nonFinite(s string) bool {
	t := strings.ToLower(s)
	t = strings.TrimPrefix(strings.TrimPrefix(t, "+"), "-")
	return t == "inf" || t == "infinity" || t == "nan"
}

func init() {
	reg("ping", func(db *DB, a []string) Reply {
		switch len(a) {
		case 1:
			return SStr("PONG")
		case 2:
			return SStr(a[1])
		}
		return Err()
	})

	reg("set", func(db *DB, a []string) Reply {
		if len(a) < 3 {
			return Err()
		}
		k, val := a[1], a[2]
		var nx, xx, get, keepttl bool
		expKind := ""
		var expVal int64
		for i := 3; i < len(a); i++ {
			switch lower(a[i]) {
			case "nx":
				nx = true
			case "xx":
				xx = true
			case "get":
				get = true
			case "keepttl":
				if keepttl {
					return Unspecified("repeated option")
				}
				keepttl = true
			case "ex", "px", "exat", "pxat":
				if expKind != "" {
					if expKind == lower(a[i]) {
						return Unspecified("repeated expire option")
					}
					return Err()
				}
				expKind = lower(a[i])
				i++
				if i >= len(a) {
					return Err()
				}
				n, ok, amb := parseInt(a[i])
				if amb {
					return Unspecified("integer spelling")
				}
				if !ok {
					return Err()
				}
				expVal = n
			default:
				return Err()
			}
		}
		if nx && xx {
			return Err()
		}
		if keepttl && expKind != "" {
			return Err()
		}
		if expKind != "" && expVal <= 0 {
			return Err()
		}
		if nx && get {
			return Unspecified("SET NX GET is version dependent")
		}
		if expKind == "pxat" {
			return Unspecified("PXAT not in the property's list")
		}
		var deadline int64
		switch expKind {
		case "ex":
			// the deadline in milliseconds (n*1000 + now) must fit an int64; within a minute of that
			// boundary the answer depends on the instant
			lim := math.MaxInt64/1000 - db.Now
			if expVal > lim+60 {
				return Err()
			}
			if expVal > lim-60 {
				return Unspecified("expire time at the overflow boundary")
			}
			deadline = db.Now + expVal
		case "px":
			// (Redis refuses a PX whose deadline in milliseconds does not fit an int64; the command reference
			// does not say so, and an implementation that keeps deadlines in seconds has no overflow there)
			if lim := math.MaxInt64 - db.Now*1000; expVal > lim-60000 {
				return Unspecified("PX beyond the millisecond clock's range")
			}
			if expVal%1000 != 0 {
				return Unspecified("sub-second PX")
			}
			deadline = db.Now + expVal/1000
		case "exat":
			if expVal > math.MaxInt64/1000 {
				return Err()
			}
			deadline = expVal
		}
		old := db.get(k)
		apply := func() {
			var keep int64
			soft := false
			if keepttl {
				keep = db.Exp[k]
				soft = db.SoftTTL[k]
			}
			db.del(k)
			db.setStr(k, []byte(val))
			if keep != 0 {
				db.Exp[k] = keep
				if soft {
					db.renamedTTL(k)
				}
			}
			if expKind != "" {
				db.Exp[k] = deadline
				if deadline <= db.Now {
					db.del(k)
				}
			}
		}
		if old != nil && old.Kind != KString {
			if get {
				return WrongType()
			}
			// Reference: plain SET overwrites a key of any type. The property text says WRONGTYPE and
			// no change. Both are accepted, consistently (reply and after-state of the same outcome).
			if nx {
				return Alt("SET NX over another type", Nil(), WrongType())
			}
			return Alt("SET over another type", WrongType(), OK().WithThen(func(respx.Value) { apply() }))
		}
		if (nx && old != nil) || (xx && old == nil) {
			if get && old != nil {
				return Str(old.Str)
			}
			return Nil()
		}
		var reply Reply
		if get {
			if old == nil {
				reply = Nil()
			} else {
				reply = Str(append([]byte{}, old.Str...))
			}
		} else {
			reply = OK()
		}
		apply()
		return reply
	})

	reg("get", func(db *DB, a []string) Reply {
		if len(a) != 2 {
			return Err()
		}
		v := db.get(a[1])
		if v == nil {
			return Nil()
		}
		if v.Kind != KString {
			return WrongType()
		}
		return Str(v.Str)
	})

	reg("mset", func(db *DB, a []string) Reply {
		if len(a) < 3 || len(a)%2 != 1 {
			return Err()
		}
		for i := 1; i < len(a); i += 2 {
			db.del(a[i])
			db.setStr(a[i], []byte(a[i+1]))
		}
		return OK()
	})

	reg("mget", func(db *DB, a []string) Reply {
		if len(a) < 2 {
			return Err()
		}
		out := make([]Reply, 0, len(a)-1)
		for _, k := range a[1:] {
			v := db.get(k)
			if v == nil || v.Kind != KString {
				out = append(out, Nil())
			} else {
				out = append(out, Str(v.Str))
			}
		}
		return Arr(out...)
	})

	reg("setnx", func(db *DB, a []string) Reply {
		if len(a) != 3 {
			return Err()
		}
		if db.get(a[1]) != nil {
			return Int(0)
		}
		db.setStr(a[1], []byte(a[2]))
		return Int(1)
	})

	reg("setex", func(db *DB, a []string) Reply {
		if len(a) != 4 {
			return Err()
		}
		n, ok, amb := parseInt(a[2])
		if amb {
			return Unspecified("integer spelling")
		}
		if !ok || n <= 0 || n > math.MaxInt64/1000 {
			return Err()
		}
		apply := func() {
			db.del(a[1])
			db.setStr(a[1], []byte(a[3]))
			db.Exp[a[1]] = db.Now + n
		}
		if old := db.get(a[1]); old != nil && old.Kind != KString {
			return Alt("SETEX over another type", WrongType(), OK().WithThen(func(respx.Value) { apply() }))
		}
		apply()
		return OK()
	})

	reg("append", func(db *DB, a []string) Reply {
		if len(a) != 3 {
			return Err()
		}
		v := db.get(a[1])
		if v == nil {
			db.setStr(a[1], []byte(a[2]))
			return Int(int64(len(a[2])))
		}
		if v.Kind != KString {
			return WrongType()
		}
		v.Str = append(append([]byte{}, v.Str...), a[2]...)
		return Int(int64(len(v.Str)))
	})

	reg("strlen", func(db *DB, a []string) Reply {
		if len(a) != 2 {
			return Err()
		}
		v := db.get(a[1])
		if v == nil {
			return Int(0)
		}
		if v.Kind != KString {
			return WrongType()
		}
		return Int(int64(len(v.Str)))
	})

	reg("getrange", func(db *DB, a []string) Reply {
		if len(a) != 4 {
			return Err()
		}
		start, ok1, amb1 := parseInt(a[2])
		end, ok2, amb2 := parseInt(a[3])
		v := db.get(a[1])
		if amb1 || amb2 {
			return Unspecified("integer spelling")
		}
		if !ok1 || !ok2 {
			if v != nil && v.Kind != KString {
				return AnyErr()
			}
			return Err()
		}
		if v == nil {
			return SStr("")
		}
		if v.Kind != KString {
			return WrongType()
		}
		n := int64(len(v.Str))
		if start < 0 && end < 0 && start > end {
			return SStr("")
		}
		if start < 0 {
			start = n + start
		}
		if end < 0 {
			end = n + end
		}
		if start < 0 {
			start = 0
		}
		if end < 0 {
			// end lies before the first byte: Redis clamps it to 0 (so "abc" 0 -5 -> "a"), the
			// command reference only says out-of-range requests are limited to the string: both the
			// empty string and the clamped result are accepted.
			if n == 0 || start > 0 {
				return SStr("")
			}
			return Alt("GETRANGE end before the first byte", SStr(""), Str(v.Str[0:1]))
		}
		if end >= n {
			end = n - 1
		}
		if start > end || n == 0 {
			return SStr("")
		}
		return Str(v.Str[start : end+1])
	})

	reg("setrange", func(db *DB, a []string) Reply {
		if len(a) != 4 {
			return Err()
		}
		off, ok, amb := parseInt(a[2])
		v := db.get(a[1])
		if amb {
			return Unspecified("integer spelling")
		}
		if !ok || off < 0 {
			if v != nil && v.Kind != KString {
				return AnyErr()
			}
			return Err()
		}
		if v != nil && v.Kind != KString {
			return WrongType()
		}
		val := a[3]
		if v == nil {
			if len(val) == 0 {
				return Int(0)
			}
			if off+int64(len(val)) > 512*1024*1024 {
				return Err()
			}
			b := make([]byte, off+int64(len(val)))
			copy(b[off:], val)
			db.setStr(a[1], b)
			return Int(int64(len(b)))
		}
		if len(val) == 0 {
			return Int(int64(len(v.Str)))
		}
		if off+int64(len(val)) > 512*1024*1024 {
			return Err()
		}
		b := append([]byte{}, v.Str...)
		for int64(len(b)) < off+int64(len(val)) {
			b = append(b, 0)
		}
		copy(b[off:], val)
		v.Str = b
		return Int(int64(len(b)))
	})

	incr := func(db *DB, k string, delta int64) Reply {
		v := db.get(k)
		if v != nil && v.Kind != KString {
			return WrongType()
		}
		var cur int64
		if v != nil {
			n, ok, amb := parseInt(string(v.Str))
			if amb {
				return Unspecified("integer spelling of stored value")
			}
			if !ok {
				return Err()
			}
			cur = n
		}
		if (delta > 0 && cur > math.MaxInt64-delta) || (delta < 0 && cur < math.MinInt64-delta) {
			return Err()
		}
		cur += delta
		if v == nil {
			db.setStr(k, []byte(strconv.FormatInt(cur, 10)))
		} else {
			v.Str = []byte(strconv.FormatInt(cur, 10))
		}
		return Int(cur)
	}
	reg("incr", func(db *DB, a []string) Reply {
		if len(a) != 2 {
			return Err()
		}
		return incr(db, a[1], 1)
	})
	reg("decr", func(db *DB, a []string) Reply {
		if len(a) != 2 {
			return Err()
		}
		return incr(db, a[1], -1)
	})
	reg("incrby", func(db *DB, a []string) Reply {
		if len(a) != 3 {
			return Err()
		}
		n, ok, amb := parseInt(a[2])
		if amb {
			return Unspecified("integer spelling")
		}
		if !ok {
			if v := db.get(a[1]); v != nil && v.Kind != KString {
				return AnyErr()
			}
			return Err()
		}
		return incr(db, a[1], n)
	})
	reg("decrby", func(db *DB, a []string) Reply {
		if len(a) != 3 {
			return Err()
		}
		n, ok, amb := parseInt(a[2])
		if amb {
			return Unspecified("integer spelling")
		}
		if !ok {
			if v := db.get(a[1]); v != nil && v.Kind != KString {
				return AnyErr()
			}
			return Err()
		}
		if n == math.MinInt64 {
			if v := db.get(a[1]); v != nil && v.Kind != KString {
				return AnyErr()
			}
			return Err()
		}
		return incr(db, a[1], -n)
	})

	reg("incrbyfloat", func(db *DB, a []string) Reply {
		if len(a) != 3 {
			return Err()
		}
		k := a[1]
		inc, ok, amb := parseFloatArg(a[2])
		v := db.get(k)
		if nonFinite(a[2]) {
			if v != nil && v.Kind != KString {
				return AnyErr()
			}
			return Err()
		}
		if amb {
			return Unspecified("float spelling")
		}
		if !ok {
			if v != nil && v.Kind != KString {
				return AnyErr()
			}
			return Err()
		}
		if v != nil && v.Kind != KString {
			return WrongType()
		}
		cur := 0.0
		if v != nil {
			f, ok, amb := parseFloatArg(string(v.Str))
			if amb {
				return Unspecified("float spelling of stored value")
			}
			if !ok {
				return Err()
			}
			cur = f
		}
		res := cur + inc
		if math.IsInf(res, 0) || math.IsNaN(res) {
			return Err()
		}
		// the spelling of the result is not pinned: adopt the bytes the server replied with
		r := Float(res)
		r.Then = func(act respx.Value) {
			if v == nil {
				db.setStr(k, act.Str)
			} else {
				v.Str = append([]byte{}, act.Str...)
			}
		}
		return r
	})
}
