package model

import (
	"fmt"

	"verifharness/respx"
)

func (db *DB) set(k string, create bool) (*Val, Reply, bool) {
	v := db.get(k)
	if v == nil {
		if !create {
			return nil, Reply{}, true
		}
		v = &Val{Kind: KSet, Set: map[string]bool{}}
		db.Keys[k] = v
		return v, Reply{}, true
	}
	if v.Kind != KSet {
		return nil, WrongType(), false
	}
	return v, Reply{}, true
}

func setReply(s map[string]bool) Reply {
	out := make([]Reply, 0, len(s))
	for m := range s {
		out = append(out, SStr(m))
	}
	r := Arr(out...)
	r.Unordered = true
	return r
}

// randomPred: validity of a random selection from snapshot.
func randomPred(snapshot map[string]bool, count int64) func(respx.Value) error {
	return func(act respx.Value) error {
		if act.Kind != respx.Array || act.Null {
			return fmt.Errorf("expected an array")
		}
		var wantN int64
		if count >= 0 {
			wantN = count
			if int64(len(snapshot)) < wantN {
				wantN = int64(len(snapshot))
			}
		} else {
			wantN = -count
		}
		if int64(len(act.Arr)) != wantN {
			return fmt.Errorf("expected %d members, got %d", wantN, len(act.Arr))
		}
		seen := map[string]bool{}
		for _, e := range act.Arr {
			if !isStr(e) {
				return fmt.Errorf("member is not a string")
			}
			if !snapshot[string(e.Str)] {
				return fmt.Errorf("%q is not a member", e.Str)
			}
			if count > 0 && seen[string(e.Str)] {
				return fmt.Errorf("member %q returned twice with a positive count", e.Str)
			}
			seen[string(e.Str)] = true
		}
		return nil
	}
}

func copySet(s map[string]bool) map[string]bool {
	c := make(map[string]bool, len(s))
	for m := range s {
		c[m] = true
	}
	return c
}

func init() {
	reg("sadd", func(db *DB, a []string) Reply {
		if len(a) < 3 {
			return Err()
		}
		v, r, ok := db.set(a[1], true)
		if !ok {
			return r
		}
		n := int64(0)
		for _, m := range a[2:] {
			if !v.Set[m] {
				v.Set[m] = true
				n++
			}
		}
		return Int(n)
	})

	reg("srem", func(db *DB, a []string) Reply {
		if len(a) < 3 {
			return Err()
		}
		v, r, ok := db.set(a[1], false)
		if !ok {
			return r
		}
		if v == nil {
			return Int(0)
		}
		n := int64(0)
		for _, m := range a[2:] {
			if v.Set[m] {
				delete(v.Set, m)
				n++
			}
		}
		db.dropIfEmpty(a[1])
		return Int(n)
	})

	reg("sismember", func(db *DB, a []string) Reply {
		if len(a) != 3 {
			return Err()
		}
		v, r, ok := db.set(a[1], false)
		if !ok {
			return r
		}
		if v != nil && v.Set[a[2]] {
			return Int(1)
		}
		return Int(0)
	})

	reg("scard", func(db *DB, a []string) Reply {
		if len(a) != 2 {
			return Err()
		}
		v, r, ok := db.set(a[1], false)
		if !ok {
			return r
		}
		if v == nil {
			return Int(0)
		}
		return Int(int64(len(v.Set)))
	})

	reg("smembers", func(db *DB, a []string) Reply {
		if len(a) != 2 {
			return Err()
		}
		v, r, ok := db.set(a[1], false)
		if !ok {
			return r
		}
		if v == nil {
			return Arr()
		}
		return setReply(v.Set)
	})

	reg("smove", func(db *DB, a []string) Reply {
		if len(a) != 4 {
			return Err()
		}
		src, r, ok := db.set(a[1], false)
		if !ok {
			return r
		}
		if src == nil {
			return Int(0)
		}
		if d := db.get(a[2]); d != nil && d.Kind != KSet {
			return WrongType()
		}
		if a[1] == a[2] {
			if src.Set[a[3]] {
				return Int(1)
			}
			return Int(0)
		}
		if !src.Set[a[3]] {
			return Int(0)
		}
		delete(src.Set, a[3])
		db.dropIfEmpty(a[1])
		dst, _, _ := db.set(a[2], true)
		dst.Set[a[3]] = true
		return Int(1)
	})

	reg("spop", func(db *DB, a []string) Reply {
		if len(a) != 2 && len(a) != 3 {
			return Err()
		}
		hasCount := len(a) == 3
		var count int64
		if hasCount {
			n, r, ok := intArg(a[2])
			if !ok {
				return errOr(db, a[1], KSet, r)
			}
			if n < 0 {
				return errOr(db, a[1], KSet, Err())
			}
			count = n
		}
		v, r, ok := db.set(a[1], false)
		if !ok {
			return r
		}
		key := a[1]
		if !hasCount {
			if v == nil {
				return Nil()
			}
			rep := Pred(func(act respx.Value) error {
				if !isStr(act) || !v.Set[string(act.Str)] {
					return fmt.Errorf("expected one current member")
				}
				return nil
			})
			rep.Then = func(act respx.Value) {
				delete(v.Set, string(act.Str))
				db.dropIfEmpty(key)
			}
			return rep
		}
		if v == nil {
			return Arr()
		}
		if count == 0 {
			return Arr()
		}
		snap := copySet(v.Set)
		arrForm := Pred(randomPred(snap, count))
		arrForm.Then = func(act respx.Value) {
			for _, e := range act.Arr {
				delete(v.Set, string(e.Str))
			}
			db.dropIfEmpty(key)
		}
		if count == 1 {
			// reply shape of "SPOP k 1" is a don't-care (DESIGN 1.8): array of one, or the member
			single := Pred(func(act respx.Value) error {
				if !isStr(act) || !snap[string(act.Str)] {
					return fmt.Errorf("expected one current member")
				}
				return nil
			})
			single.Then = func(act respx.Value) {
				delete(v.Set, string(act.Str))
				db.dropIfEmpty(key)
			}
			return Alt("SPOP k 1 reply shape", arrForm, single)
		}
		return arrForm
	})

	reg("srandmember", func(db *DB, a []string) Reply {
		if len(a) != 2 && len(a) != 3 {
			return Err()
		}
		hasCount := len(a) == 3
		var count int64
		if hasCount {
			n, r, ok := intArg(a[2])
			if !ok {
				return errOr(db, a[1], KSet, r)
			}
			count = n
		}
		v, r, ok := db.set(a[1], false)
		if !ok {
			return r
		}
		if !hasCount {
			if v == nil {
				return Nil()
			}
			return Pred(func(act respx.Value) error {
				if !isStr(act) || !v.Set[string(act.Str)] {
					return fmt.Errorf("expected one current member")
				}
				return nil
			})
		}
		if v == nil {
			return Arr()
		}
		if count < -1000 || count > 1<<40 {
			return Unspecified("extreme SRANDMEMBER count (C04's subject)")
		}
		return Pred(randomPred(copySet(v.Set), count))
	})

	// algebra
	type op int
	const (
		union op = iota
		inter
		diff
	)
	compute := func(db *DB, keys []string, o op) (res map[string]bool, wrong bool, missing bool) {
		var sets []map[string]bool
		for _, k := range keys {
			v := db.get(k)
			if v == nil {
				missing = true
				sets = append(sets, map[string]bool{})
				continue
			}
			if v.Kind != KSet {
				wrong = true
				sets = append(sets, map[string]bool{})
				continue
			}
			sets = append(sets, v.Set)
		}
		res = map[string]bool{}
		switch o {
		case union:
			for _, s := range sets {
				for m := range s {
					res[m] = true
				}
			}
		case inter:
			for m := range sets[0] {
				in := true
				for _, s := range sets[1:] {
					if !s[m] {
						in = false
					}
				}
				if in {
					res[m] = true
				}
			}
		case diff:
			for m := range sets[0] {
				in := true
				for _, s := range sets[1:] {
					if s[m] {
						in = false
					}
				}
				if in {
					res[m] = true
				}
			}
		}
		return
	}
	read := func(o op) handler {
		return func(db *DB, a []string) Reply {
			if len(a) < 2 {
				return Err()
			}
			res, wrong, missing := compute(db, a[1:], o)
			if wrong {
				if o == inter && missing {
					// reference: SINTER answers "empty" as soon as it meets a missing key, before it
					// looks at the type of later keys
					return Alt("SINTER missing+wrongtype", WrongType(), Arr())
				}
				return WrongType()
			}
			return setReply(res)
		}
	}
	reg("sunion", read(union))
	reg("sinter", read(inter))
	reg("sdiff", read(diff))

	store := func(o op) handler {
		return func(db *DB, a []string) Reply {
			if len(a) < 3 {
				return Err()
			}
			dst := a[1]
			res, wrong, missing := compute(db, a[2:], o)
			res = copySet(res)
			apply := func() {
				db.del(dst)
				if len(res) > 0 {
					db.Keys[dst] = &Val{Kind: KSet, Set: res}
				}
			}
			if wrong {
				if o == inter && missing {
					return Alt("SINTERSTORE missing+wrongtype", WrongType(),
						Int(0).WithThen(func(respx.Value) { res = map[string]bool{}; apply() }))
				}
				return WrongType()
			}
			if d := db.get(dst); d != nil && d.Kind != KSet {
				// reference: the destination is overwritten whatever it held; property text / code:
				// WRONGTYPE and no change. Both accepted, consistently.
				return Alt("STORE over another type", WrongType(),
					Int(int64(len(res))).WithThen(func(respx.Value) { apply() }))
			}
			apply()
			return Int(int64(len(res)))
		}
	}
	reg("sunionstore", store(union))
	reg("sinterstore", store(inter))
	reg("sdiffstore", store(diff))
}
