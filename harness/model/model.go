// Package model is the Redis reference model used as the sequential specification by the model-based
// checks. It is written from the Redis command reference (as of Redis 6.2/7.0), not from RedisGO's
// code. Replies are abstract; comparison rules live in match.go.
package model

import (
	"fmt"
	"sort"
	"strings"
)

type Kind int

const (
	KNone Kind = iota
	KString
	KList
	KSet
	KHash
	KZSet
	KStream
)

func (k Kind) TypeName() string {
	return [...]string{"none", "string", "list", "set", "hash", "zset", "stream"}[k]
}

type StreamID struct{ Ms, Seq uint64 }

func (a StreamID) Less(b StreamID) bool { return a.Ms < b.Ms || (a.Ms == b.Ms && a.Seq < b.Seq) }

type StreamEntry struct {
	ID     StreamID
	Fields [][]byte // f1 v1 f2 v2 ...
	// Reported: the spelling under which XADD reported the ID, when the request spelt it in a
	// non-canonical way ("007-01"); XRANGE must list the entry under the ID that XADD reported.
	Reported string
}

// Val is one stored value.
type Val struct {
	Kind   Kind
	Str    []byte
	List   [][]byte
	Set    map[string]bool
	Hash   map[string][]byte
	Z      map[string]float64
	Stream []StreamEntry
	LastID StreamID // stream: highest ID ever added
}

// DB is one keyspace.
type DB struct {
	Keys map[string]*Val
	Exp  map[string]int64 // unix-second deadline
	Now  int64            // set by Exec
	// SoftTTL: keys whose deadline came from RENAME (don't-care whether it was transferred)
	SoftTTL  map[string]bool
	purgeNow *int64 // ExecP: clock used for expiry decisions when it differs from Now
}

// Clone makes a deep copy (for checks that track several possible worlds).
func (db *DB) Clone() *DB {
	c := NewDB()
	c.Now = db.Now
	for k, v := range db.Keys {
		nv := &Val{Kind: v.Kind, LastID: v.LastID}
		nv.Str = append([]byte(nil), v.Str...)
		for _, e := range v.List {
			nv.List = append(nv.List, append([]byte{}, e...))
		}
		if v.Set != nil {
			nv.Set = map[string]bool{}
			for m := range v.Set {
				nv.Set[m] = true
			}
		}
		if v.Hash != nil {
			nv.Hash = map[string][]byte{}
			for f, x := range v.Hash {
				nv.Hash[f] = append([]byte{}, x...)
			}
		}
		if v.Z != nil {
			nv.Z = map[string]float64{}
			for m, sc := range v.Z {
				nv.Z[m] = sc
			}
		}
		nv.Stream = append([]StreamEntry(nil), v.Stream...)
		c.Keys[k] = nv
	}
	for k, d := range db.Exp {
		c.Exp[k] = d
	}
	for k := range db.SoftTTL {
		c.SoftTTL[k] = true
	}
	return c
}

// ExecP is Exec with a separate clock for expiry decisions: a key whose deadline d satisfies
// purgeNow < d <= now is still treated as present (used for the second in which a deadline that is
// only known to whole-second precision may or may not have passed).
func (db *DB) ExecP(cmd [][]byte, now, purgeNow int64) Reply {
	db.purgeNow = &purgeNow
	defer func() { db.purgeNow = nil }()
	return db.Exec(cmd, now)
}

func NewDB() *DB {
	return &DB{Keys: map[string]*Val{}, Exp: map[string]int64{}, SoftTTL: map[string]bool{}}
}

func (db *DB) purge() {
	now := db.Now
	if db.purgeNow != nil {
		now = *db.purgeNow
	}
	for k, d := range db.Exp {
		if d <= now {
			delete(db.Keys, k)
			delete(db.Exp, k)
		}
	}
}

func (db *DB) get(k string) *Val { return db.Keys[k] }

func (db *DB) del(k string) bool {
	_, ok := db.Keys[k]
	delete(db.Keys, k)
	delete(db.Exp, k)
	delete(db.SoftTTL, k)
	return ok
}

func (db *DB) setStr(k string, v []byte) {
	db.Keys[k] = &Val{Kind: KString, Str: append([]byte{}, v...)}
}

// SortedKeys lists live keys.
func (db *DB) SortedKeys() []string {
	ks := make([]string, 0, len(db.Keys))
	for k := range db.Keys {
		ks = append(ks, k)
	}
	sort.Strings(ks)
	return ks
}

// dropIfEmpty removes aggregate keys that became empty.
func (db *DB) dropIfEmpty(k string) {
	v := db.Keys[k]
	if v == nil {
		return
	}
	empty := false
	switch v.Kind {
	case KList:
		empty = len(v.List) == 0
	case KSet:
		empty = len(v.Set) == 0
	case KHash:
		empty = len(v.Hash) == 0
	case KZSet:
		empty = len(v.Z) == 0
	}
	if empty {
		db.del(k)
	}
}

type handler func(db *DB, a []string) Reply

var handlers = map[string]handler{}

func reg(name string, h handler) { handlers[name] = h }

// Supported reports whether the model implements the command.
func Supported(name string) bool {
	_, ok := handlers[strings.ToLower(name)]
	return ok
}

// Exec applies one command at time now (unix seconds) and returns the expected reply.
func (db *DB) Exec(cmd [][]byte, now int64) Reply {
	db.Now = now
	db.purge()
	if len(cmd) == 0 {
		return Err()
	}
	a := make([]string, len(cmd))
	for i, c := range cmd {
		a[i] = string(c)
	}
	h, ok := handlers[strings.ToLower(a[0])]
	if !ok {
		return Err()
	}
	return h(db, a)
}

// Canon returns a canonical text of the whole state (used as a cache key by history checkers).
func (db *DB) Canon() string {
	var sb strings.Builder
	for _, k := range db.SortedKeys() {
		v := db.Keys[k]
		fmt.Fprintf(&sb, "%q:%d:", k, v.Kind)
		switch v.Kind {
		case KString:
			fmt.Fprintf(&sb, "%q", v.Str)
		case KList:
			for _, e := range v.List {
				fmt.Fprintf(&sb, "%q,", e)
			}
		case KSet:
			ms := make([]string, 0, len(v.Set))
			for m := range v.Set {
				ms = append(ms, m)
			}
			sort.Strings(ms)
			fmt.Fprintf(&sb, "%q", ms)
		case KHash:
			fs := make([]string, 0, len(v.Hash))
			for f := range v.Hash {
				fs = append(fs, f)
			}
			sort.Strings(fs)
			for _, f := range fs {
				fmt.Fprintf(&sb, "%q=%q,", f, v.Hash[f])
			}
		case KZSet:
			for _, e := range Ordered(v.Z) {
				fmt.Fprintf(&sb, "%q=%v,", e.Member, e.Score)
			}
		case KStream:
			for _, e := range v.Stream {
				fmt.Fprintf(&sb, "%s=%q,", e.ID, e.Fields)
			}
		}
		if d, ok := db.Exp[k]; ok {
			fmt.Fprintf(&sb, "@%d", d)
		}
		sb.WriteByte(';')
	}
	return sb.String()
}
