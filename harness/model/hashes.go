package model

import (
	"fmt"
	"math"
	"strconv"

	"verifharness/respx"
)

func (db *DB) hash(k string, create bool) (*Val, Reply, bool) {
	v := db.get(k)
	if v == nil {
		if !create {
			return nil, Reply{}, true
		}
		v = &Val{Kind: KHash, Hash: map[string][]byte{}}
		db.Keys[k] = v
		return v, Reply{}, true
	}
	if v.Kind != KHash {
		return nil, WrongType(), false
	}
	return v, Reply{}, true
}

func init() {
	reg("hset", func(db *DB, a []string) Reply {
		if len(a) < 4 || len(a)%2 != 0 {
			return Err()
		}
		v, r, ok := db.hash(a[1], true)
		if !ok {
			return r
		}
		added := int64(0)
		for i := 2; i < len(a); i += 2 {
			if _, ok := v.Hash[a[i]]; !ok {
				added++
			}
			v.Hash[a[i]] = []byte(a[i+1])
		}
		return Int(added)
	})

	reg("hsetnx", func(db *DB, a []string) Reply {
		if len(a) != 4 {
			return Err()
		}
		if old := db.get(a[1]); old != nil && old.Kind != KHash {
			return WrongType()
		}
		v, _, _ := db.hash(a[1], true)
		if _, ok := v.Hash[a[2]]; ok {
			return Int(0)
		}
		v.Hash[a[2]] = []byte(a[3])
		return Int(1)
	})

	reg("hget", func(db *DB, a []string) Reply {
		if len(a) != 3 {
			return Err()
		}
		v, r, ok := db.hash(a[1], false)
		if !ok {
			return r
		}
		if v == nil {
			return Nil()
		}
		if val, ok := v.Hash[a[2]]; ok {
			return Str(val)
		}
		return Nil()
	})

	reg("hmget", func(db *DB, a []string) Reply {
		if len(a) < 3 {
			return Err()
		}
		v, r, ok := db.hash(a[1], false)
		if !ok {
			return r
		}
		out := make([]Reply, 0, len(a)-2)
		for _, f := range a[2:] {
			if v != nil {
				if val, ok := v.Hash[f]; ok {
					out = append(out, Str(val))
					continue
				}
			}
			out = append(out, Nil())
		}
		return Arr(out...)
	})

	reg("hgetall", func(db *DB, a []string) Reply {
		if len(a) != 2 {
			return Err()
		}
		v, r, ok := db.hash(a[1], false)
		if !ok {
			return r
		}
		var out []Reply
		if v != nil {
			for f, val := range v.Hash {
				out = append(out, SStr(f), Str(val))
			}
		}
		rep := Arr(out...)
		rep.Unordered, rep.Pairs = true, true
		return rep
	})

	reg("hkeys", func(db *DB, a []string) Reply {
		if len(a) != 2 {
			return Err()
		}
		v, r, ok := db.hash(a[1], false)
		if !ok {
			return r
		}
		var out []Reply
		if v != nil {
			for f := range v.Hash {
				out = append(out, SStr(f))
			}
		}
		rep := Arr(out...)
		rep.Unordered = true
		return rep
	})

	reg("hvals", func(db *DB, a []string) Reply {
		if len(a) != 2 {
			return Err()
		}
		v, r, ok := db.hash(a[1], false)
		if !ok {
			return r
		}
		var out []Reply
		if v != nil {
			for _, val := range v.Hash {
				out = append(out, Str(val))
			}
		}
		rep := Arr(out...)
		rep.Unordered = true
		return rep
	})

	reg("hlen", func(db *DB, a []string) Reply {
		if len(a) != 2 {
			return Err()
		}
		v, r, ok := db.hash(a[1], false)
		if !ok {
			return r
		}
		if v == nil {
			return Int(0)
		}
		return Int(int64(len(v.Hash)))
	})

	reg("hexists", func(db *DB, a []string) Reply {
		if len(a) != 3 {
			return Err()
		}
		v, r, ok := db.hash(a[1], false)
		if !ok {
			return r
		}
		if v != nil {
			if _, ok := v.Hash[a[2]]; ok {
				return Int(1)
			}
		}
		return Int(0)
	})

	reg("hstrlen", func(db *DB, a []string) Reply {
		if len(a) != 3 {
			return Err()
		}
		v, r, ok := db.hash(a[1], false)
		if !ok {
			return r
		}
		if v == nil {
			return Int(0)
		}
		return Int(int64(len(v.Hash[a[2]])))
	})

	reg("hdel", func(db *DB, a []string) Reply {
		if len(a) < 3 {
			return Err()
		}
		v, r, ok := db.hash(a[1], false)
		if !ok {
			return r
		}
		if v == nil {
			return Int(0)
		}
		n := int64(0)
		for _, f := range a[2:] {
			if _, ok := v.Hash[f]; ok {
				delete(v.Hash, f)
				n++
			}
		}
		db.dropIfEmpty(a[1])
		return Int(n)
	})

	reg("hincrby", func(db *DB, a []string) Reply {
		if len(a) != 4 {
			return Err()
		}
		inc, r, ok := intArg(a[3])
		if !ok {
			return errOr(db, a[1], KHash, r)
		}
		if old := db.get(a[1]); old != nil && old.Kind != KHash {
			return WrongType()
		}
		var cur int64
		if v := db.get(a[1]); v != nil {
			if val, ok := v.Hash[a[2]]; ok {
				n, ok, amb := parseInt(string(val))
				if amb {
					return Unspecified("integer spelling of stored value")
				}
				if !ok {
					return Err()
				}
				cur = n
			}
		}
		if (inc > 0 && cur > math.MaxInt64-inc) || (inc < 0 && cur < math.MinInt64-inc) {
			return Err()
		}
		v, _, _ := db.hash(a[1], true)
		cur += inc
		v.Hash[a[2]] = []byte(strconv.FormatInt(cur, 10))
		return Int(cur)
	})

	reg("hincrbyfloat", func(db *DB, a []string) Reply {
		if len(a) != 4 {
			return Err()
		}
		inc, ok, amb := parseFloatArg(a[3])
		if nonFinite(a[3]) {
			return errOr(db, a[1], KHash, Err())
		}
		if amb {
			return Unspecified("float spelling")
		}
		if !ok {
			return errOr(db, a[1], KHash, Err())
		}
		if old := db.get(a[1]); old != nil && old.Kind != KHash {
			return WrongType()
		}
		cur := 0.0
		if v := db.get(a[1]); v != nil {
			if val, ok := v.Hash[a[2]]; ok {
				f, ok, amb := parseFloatArg(string(val))
				if amb {
					return Unspecified("float spelling of stored value")
				}
				if !ok {
					return Err()
				}
				cur = f
			}
		}
		res := cur + inc
		if math.IsInf(res, 0) || math.IsNaN(res) {
			return Err()
		}
		k, f := a[1], a[2]
		rep := Float(res)
		rep.Then = func(act respx.Value) {
			v, _, _ := db.hash(k, true)
			v.Hash[f] = append([]byte{}, act.Str...)
		}
		return rep
	})

	reg("hrandfield", func(db *DB, a []string) Reply {
		if len(a) < 2 || len(a) > 4 {
			return Err()
		}
		hasCount := len(a) >= 3
		var count int64
		if hasCount {
			n, r, ok := intArg(a[2])
			if !ok {
				return errOr(db, a[1], KHash, r)
			}
			count = n
		}
		withValues := false
		if len(a) == 4 {
			if lower(a[3]) != "withvalues" {
				return errOr(db, a[1], KHash, Err())
			}
			withValues = true
		}
		v, r, ok := db.hash(a[1], false)
		if !ok {
			return r
		}
		if !hasCount {
			if v == nil {
				return Nil()
			}
			return Pred(func(act respx.Value) error {
				if !isStr(act) {
					return fmt.Errorf("expected one field as a string")
				}
				if _, ok := v.Hash[string(act.Str)]; !ok {
					return fmt.Errorf("%q is not a field of the hash", act.Str)
				}
				return nil
			})
		}
		if v == nil {
			return Arr()
		}
		if count < -1000 || count > 1<<40 {
			return Unspecified("extreme HRANDFIELD count (C04's subject)")
		}
		snapshot := map[string][]byte{}
		for f, val := range v.Hash {
			snapshot[f] = val
		}
		return Pred(func(act respx.Value) error {
			if act.Kind != respx.Array || act.Null {
				return fmt.Errorf("expected an array")
			}
			step := 1
			if withValues {
				step = 2
			}
			var wantN int64
			if count >= 0 {
				wantN = count
				if int64(len(snapshot)) < wantN {
					wantN = int64(len(snapshot))
				}
			} else {
				wantN = -count
			}
			if int64(len(act.Arr)) != wantN*int64(step) {
				return fmt.Errorf("expected %d fields, got %d array elements", wantN, len(act.Arr))
			}
			seen := map[string]bool{}
			for i := 0; i+step <= len(act.Arr); i += step {
				f := act.Arr[i]
				if !isStr(f) {
					return fmt.Errorf("field is not a string")
				}
				val, ok := snapshot[string(f.Str)]
				if !ok {
					return fmt.Errorf("%q is not a field of the hash", f.Str)
				}
				if count > 0 && seen[string(f.Str)] {
					return fmt.Errorf("field %q returned twice with a positive count", f.Str)
				}
				seen[string(f.Str)] = true
				if withValues {
					if !isStr(act.Arr[i+1]) || string(act.Arr[i+1].Str) != string(val) {
						return fmt.Errorf("value of field %q is %s, stored %q", f.Str, act.Arr[i+1].String(), val)
					}
				}
			}
			return nil
		})
	})
}
