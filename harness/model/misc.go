package model

import (
	"errors"
	"fmt"
)

var errNotInt = errors.New("reply is not an integer")

type ttlErr struct{ want, got int64 }

func (e *ttlErr) Error() string { return fmt.Sprintf("TTL %d, reference says about %d", e.got, e.want) }

// renamedTTL marks k's deadline as "soft": RENAME's TTL transfer is a don't-care (the pinned code
// drops it; the reference moves it). The first TTL observation decides which one the server did.
func (db *DB) renamedTTL(k string) {
	if db.SoftTTL == nil {
		db.SoftTTL = map[string]bool{}
	}
	db.SoftTTL[k] = true
}
