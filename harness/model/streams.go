package model

import (
	"fmt"
	"math"
	"strconv"
	"strings"

	"verifharness/respx"
)

func (id StreamID) String() string {
	return strconv.FormatUint(id.Ms, 10) + "-" + strconv.FormatUint(id.Seq, 10)
}

func parseU64(s string) (uint64, bool) {
	if len(s) > 1 && s[0] == '+' { // strtoull and ParseInt both take a sign; the spelling is not canonical
		s = s[1:]
	}
	if s == "" {
		return 0, false
	}
	for i := 0; i < len(s); i++ {
		if s[i] < '0' || s[i] > '9' {
			return 0, false
		}
	}
	n, err := strconv.ParseUint(s, 10, 64)
	if err != nil {
		return 0, false
	}
	return n, true
}

// ParseStreamID parses "ms-seq" or "ms" (seq defaults to missingSeq). plainSpelling=false when a
// component has leading zeros or similar spellings whose canonical echo is unclear.
func ParseStreamID(s string, missingSeq uint64) (id StreamID, ok bool, seqGiven bool, plain bool) {
	ms, seq, found := strings.Cut(s, "-")
	m, ok1 := parseU64(ms)
	if !ok1 {
		return id, false, false, false
	}
	plain = strconv.FormatUint(m, 10) == ms
	id.Ms = m
	if !found {
		id.Seq = missingSeq
		return id, true, false, plain
	}
	q, ok2 := parseU64(seq)
	if !ok2 {
		return id, false, false, false
	}
	plain = plain && strconv.FormatUint(q, 10) == seq
	id.Seq = q
	return id, true, true, plain
}

func entryReply(e StreamEntry) Reply {
	fs := make([]Reply, len(e.Fields))
	for i, f := range e.Fields {
		fs[i] = Str(f)
	}
	if e.Reported != "" {
		return Arr(SStr(e.Reported), Arr(fs...))
	}
	return Arr(SStr(e.ID.String()), Arr(fs...))
}

func init() {
	reg("xadd", func(db *DB, a []string) Reply {
		if len(a) < 5 {
			return Err()
		}
		key := a[1]
		i := 2
		var nomk bool
		trim := "" // "maxlen" / "minid"
		approx := false
		var maxlen int64
		var minid StreamID
		limitSeen := false
		for ; i < len(a); i++ {
			o := lower(a[i])
			if o == "nomkstream" {
				nomk = true
				continue
			}
			if o == "maxlen" || o == "minid" {
				if trim != "" {
					return Unspecified("two trimming options")
				}
				trim = o
				i++
				if i < len(a) && (a[i] == "~" || a[i] == "=") {
					approx = a[i] == "~"
					i++
				}
				if i >= len(a) {
					return errOr(db, key, KStream, Err())
				}
				if trim == "maxlen" {
					n, r, ok := intArg(a[i])
					if !ok {
						return errOr(db, key, KStream, r)
					}
					if n < 0 {
						return errOr(db, key, KStream, Err())
					}
					maxlen = n
				} else {
					id, ok, _, _ := ParseStreamID(a[i], 0)
					if !ok {
						return errOr(db, key, KStream, Err())
					}
					minid = id
				}
				continue
			}
			if o == "limit" {
				limitSeen = true
				i++
				if i >= len(a) {
					return errOr(db, key, KStream, Err())
				}
				if _, r, ok := intArg(a[i]); !ok {
					return errOr(db, key, KStream, r)
				}
				continue
			}
			if a[i] == "~" || a[i] == "=" {
				return Unspecified("bare ~ or = outside MAXLEN/MINID")
			}
			break
		}
		if i >= len(a) {
			return errOr(db, key, KStream, Err())
		}
		idArg := a[i]
		fields := a[i+1:]
		if len(fields) == 0 || len(fields)%2 != 0 {
			return errOr(db, key, KStream, Err())
		}
		if limitSeen && !approx {
			return errOr(db, key, KStream, Err())
		}
		if approx {
			return Unspecified("approximate (~) trimming may remove fewer entries")
		}
		auto, autoSeq := false, false
		nonPlain := false
		var id StreamID
		if idArg == "*" {
			auto = true
		} else if strings.HasSuffix(idArg, "-*") {
			ms, ok := parseU64(strings.TrimSuffix(idArg, "-*"))
			if !ok {
				return errOr(db, key, KStream, Err())
			}
			id.Ms = ms
			autoSeq = true
		} else {
			pid, ok, seqGiven, plain := ParseStreamID(idArg, 0)
			if !ok {
				return errOr(db, key, KStream, Err())
			}
			if !seqGiven {
				return Unspecified("XADD with a millisecond-only ID")
			}
			nonPlain = !plain
			if pid.Ms > math.MaxInt64 || pid.Seq > math.MaxInt64 {
				return Unspecified("ID component beyond int64")
			}
			id = pid
		}
		old := db.get(key)
		if old != nil && old.Kind != KStream {
			return WrongType()
		}
		if old == nil && nomk {
			return Nil()
		}
		var last StreamID
		if old != nil {
			last = old.LastID
		}
		fb := make([][]byte, len(fields))
		for j, f := range fields {
			fb[j] = []byte(f)
		}
		reported := ""
		commit := func(id StreamID) {
			v := db.get(key)
			if v == nil {
				v = &Val{Kind: KStream}
				db.Keys[key] = v
			}
			v.Stream = append(v.Stream, StreamEntry{ID: id, Fields: fb, Reported: reported})
			v.LastID = id
			switch trim {
			case "maxlen":
				if int64(len(v.Stream)) > maxlen {
					v.Stream = append([]StreamEntry{}, v.Stream[int64(len(v.Stream))-maxlen:]...)
				}
			case "minid":
				k := 0
				for k < len(v.Stream) && v.Stream[k].ID.Less(minid) {
					k++
				}
				v.Stream = append([]StreamEntry{}, v.Stream[k:]...)
			}
		}
		if auto {
			nowMs := uint64(db.Now) * 1000
			if last.Ms > nowMs+5000 && last.Seq >= math.MaxInt64 {
				return Unspecified("sequence beyond int64")
			}
			rep := Pred(func(act respx.Value) error {
				if !isStr(act) {
					return fmt.Errorf("expected the new ID as a string")
				}
				got, ok, seqGiven, _ := ParseStreamID(string(act.Str), 0)
				if !ok || !seqGiven {
					return fmt.Errorf("reply is not an ID")
				}
				if !last.Less(got) {
					return fmt.Errorf("auto-generated ID %s is not greater than the stream's last ID %s", got, last)
				}
				if last.Ms > nowMs+5000 {
					// the clock is behind the last ID: the reference keeps the ms and bumps the sequence
					if got.Ms != last.Ms || got.Seq != last.Seq+1 {
						return fmt.Errorf("last ID %s is ahead of the clock: expected %d-%d", last, last.Ms, last.Seq+1)
					}
					return nil
				}
				if got.Ms+3000 < nowMs || got.Ms > nowMs+5000 {
					return fmt.Errorf("auto ID %s is not near the clock (%d ms)", got, nowMs)
				}
				return nil
			})
			rep.Then = func(act respx.Value) {
				got, _, _, _ := ParseStreamID(string(act.Str), 0)
				commit(got)
			}
			return rep
		}
		if autoSeq {
			if id.Ms < last.Ms {
				return Err()
			}
			if id.Ms == last.Ms {
				if last.Seq >= math.MaxInt64 {
					return Unspecified("sequence beyond int64")
				}
				id.Seq = last.Seq + 1
			} else {
				id.Seq = 0
			}
			if old == nil && id.Ms == 0 {
				id.Seq = 1 // 0-0 is not a valid ID: the first sequence under ms 0 is 1
			}
			commit(id)
			return SStr(id.String())
		}
		if (id == StreamID{}) {
			return Err()
		}
		if !last.Less(id) {
			return Err()
		}
		if nonPlain {
			// a spelling like 007-01 or +7-1: an implementation may refuse it; if it takes it, the ID it
			// reports must denote the same ID, and XRANGE must list the entry under what was reported
			rep := Pred(func(act respx.Value) error {
				if act.Kind == respx.Error {
					return nil
				}
				if !isStr(act) {
					return fmt.Errorf("expected the new ID as a string, or an error")
				}
				got, ok, seqGiven, _ := ParseStreamID(string(act.Str), 0)
				if !ok || !seqGiven || got != id {
					return fmt.Errorf("reported ID %q does not denote the requested ID %s", act.Str, id)
				}
				return nil
			})
			rep.Then = func(act respx.Value) {
				if act.Kind != respx.Error {
					if string(act.Str) != id.String() {
						reported = string(act.Str)
					}
					commit(id)
				}
			}
			return rep
		}
		commit(id)
		return SStr(id.String())
	})

	reg("xrange", func(db *DB, a []string) Reply {
		if len(a) < 4 {
			return Err()
		}
		if len(a) > 4 {
			return Unspecified("XRANGE COUNT is outside the property's list")
		}
		parseBound := func(s string, isStart bool) (StreamID, Reply, bool) {
			if (s == "-" && !isStart) || (s == "+" && isStart) {
				return StreamID{}, Unspecified("'-' as end bound / '+' as start bound"), false
			}
			if s == "-" {
				return StreamID{}, Reply{}, true
			}
			if s == "+" {
				return StreamID{math.MaxUint64, math.MaxUint64}, Reply{}, true
			}
			if strings.HasPrefix(s, "(") {
				return StreamID{}, Unspecified("exclusive range bound"), false
			}
			missing := uint64(0)
			if !isStart {
				missing = math.MaxUint64
			}
			id, ok, seqGiven, _ := ParseStreamID(s, missing)
			if !ok {
				return StreamID{}, Err(), false
			}
			if id.Ms > math.MaxInt64 || (seqGiven && id.Seq > math.MaxInt64) {
				return StreamID{}, Unspecified("ID component beyond int64"), false
			}
			return id, Reply{}, true
		}
		start, r, ok := parseBound(a[2], true)
		if !ok {
			return errOr(db, a[1], KStream, r)
		}
		end, r, ok := parseBound(a[3], false)
		if !ok {
			return errOr(db, a[1], KStream, r)
		}
		v := db.get(a[1])
		if v == nil {
			return Arr()
		}
		if v.Kind != KStream {
			return WrongType()
		}
		var out []Reply
		for _, e := range v.Stream {
			if !e.ID.Less(start) && !end.Less(e.ID) {
				out = append(out, entryReply(e))
			}
		}
		return Arr(out...)
	})
}
