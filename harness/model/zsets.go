package model

import (
	"fmt"
	"math"
	"sort"
	"strings"

	"verifharness/respx"
)

func (db *DB) zset(k string, create bool) (*Val, Reply, bool) {
	v := db.get(k)
	if v == nil {
		if !create {
			return nil, Reply{}, true
		}
		v = &Val{Kind: KZSet, Z: map[string]float64{}}
		db.Keys[k] = v
		return v, Reply{}, true
	}
	if v.Kind != KZSet {
		return nil, WrongType(), false
	}
	return v, Reply{}, true
}

type ZEntry struct {
	Member string
	Score  float64
}

// Ordered returns the members by (score, member bytes).
func Ordered(z map[string]float64) []ZEntry {
	out := make([]ZEntry, 0, len(z))
	for m, s := range z {
		out = append(out, ZEntry{m, s})
	}
	sort.Slice(out, func(i, j int) bool {
		if out[i].Score != out[j].Score {
			return out[i].Score < out[j].Score
		}
		return out[i].Member < out[j].Member
	})
	return out
}

// parseScore: Redis accepts doubles incl. inf/+inf/-inf; NaN is rejected.
func parseScore(s string) (float64, bool, bool) {
	switch strings.ToLower(s) {
	case "inf", "+inf":
		return math.Inf(1), true, false
	case "-inf":
		return math.Inf(-1), true, false
	}
	f, ok, amb := parseFloatArg(s)
	return f, ok, amb
}

// zrangePred checks a ZRANGE reply against the window [s,e] of the expected order. Members with
// equal scores may appear in any order (tie order is a don't-care, DESIGN C12): positions must carry
// the expected score, members must be distinct, hold that score, and - where a tie group lies entirely
// inside the window - be exactly that group.
func zrangePred(order []ZEntry, s, e int, withScores bool) func(respx.Value) error {
	return func(act respx.Value) error {
		if act.Kind != respx.Array || act.Null {
			return fmt.Errorf("expected an array")
		}
		step := 1
		if withScores {
			step = 2
		}
		n := e - s + 1
		if n < 0 {
			n = 0
		}
		if len(act.Arr) != n*step {
			return fmt.Errorf("expected %d members, got %d array elements", n, len(act.Arr))
		}
		scoreOf := map[string]float64{}
		for _, en := range order {
			scoreOf[en.Member] = en.Score
		}
		seen := map[string]bool{}
		for i := 0; i < n; i++ {
			mv := act.Arr[i*step]
			if !isStr(mv) {
				return fmt.Errorf("member %d is not a string", i)
			}
			m := string(mv.Str)
			want := order[s+i].Score
			sc, ok := scoreOf[m]
			if !ok {
				return fmt.Errorf("%q is not a member", m)
			}
			if sc != want {
				return fmt.Errorf("position %d holds %q (score %v); the member ranked there has score %v", i, m, sc, want)
			}
			if seen[m] {
				return fmt.Errorf("member %q returned twice", m)
			}
			seen[m] = true
			if withScores {
				sv := act.Arr[i*step+1]
				f, ok := ParseFloat(sv.Str)
				if !isStr(sv) || !ok || !floatEq(f, want) {
					return fmt.Errorf("score of %q reported as %s, stored %v", m, sv.String(), want)
				}
			}
		}
		return nil
	}
}

func init() {
	reg("zadd", func(db *DB, a []string) Reply {
		if len(a) < 4 {
			return Err()
		}
		var nx, xx, gt, lt, ch, incr bool
		i := 2
	opts:
		for ; i < len(a); i++ {
			switch lower(a[i]) {
			case "nx":
				nx = true
			case "xx":
				xx = true
			case "gt":
				gt = true
			case "lt":
				lt = true
			case "ch":
				ch = true
			case "incr":
				incr = true
			default:
				break opts
			}
		}
		rest := a[i:]
		if len(rest) == 0 || len(rest)%2 != 0 {
			return errOr(db, a[1], KZSet, Err())
		}
		if (nx && xx) || (gt && lt) || (nx && (gt || lt)) {
			return errOr(db, a[1], KZSet, Err())
		}
		if incr && len(rest) != 2 {
			return errOr(db, a[1], KZSet, Err())
		}
		scores := make([]float64, len(rest)/2)
		for j := 0; j < len(rest); j += 2 {
			f, ok, amb := parseScore(rest[j])
			if amb {
				return Unspecified("float spelling")
			}
			if !ok {
				return errOr(db, a[1], KZSet, Err())
			}
			scores[j/2] = f
		}
		old := db.get(a[1])
		if old != nil && old.Kind != KZSet {
			return WrongType()
		}
		cur := map[string]float64{}
		if old != nil {
			for m, s := range old.Z {
				cur[m] = s
			}
		}
		added, changed := int64(0), int64(0)
		var incrRes *float64
		for j := 0; j < len(rest); j += 2 {
			m, sc := rest[j+1], scores[j/2]
			prev, exists := cur[m]
			if exists {
				if nx {
					continue
				}
				if incr {
					sc = prev + sc
					if math.IsNaN(sc) {
						return Err()
					}
				}
				if (gt && !(sc > prev)) || (lt && !(sc < prev)) {
					continue
				}
				if incr {
					v := sc
					incrRes = &v
				}
				if sc != prev {
					cur[m] = sc
					changed++
				}
			} else {
				if xx {
					continue
				}
				cur[m] = sc
				added++
				if incr {
					v := sc
					incrRes = &v
				}
			}
		}
		if len(cur) > 0 {
			v, _, _ := db.zset(a[1], true)
			v.Z = cur
		}
		if incr {
			if incrRes == nil {
				return Nil()
			}
			return Float(*incrRes)
		}
		if ch {
			return Int(added + changed)
		}
		return Int(added)
	})

	reg("zrem", func(db *DB, a []string) Reply {
		if len(a) < 3 {
			return Err()
		}
		v, r, ok := db.zset(a[1], false)
		if !ok {
			return r
		}
		if v == nil {
			return Int(0)
		}
		n := int64(0)
		for _, m := range a[2:] {
			if _, ok := v.Z[m]; ok {
				delete(v.Z, m)
				n++
			}
		}
		db.dropIfEmpty(a[1])
		return Int(n)
	})

	reg("zrank", func(db *DB, a []string) Reply {
		if len(a) != 3 {
			return Err()
		}
		v, r, ok := db.zset(a[1], false)
		if !ok {
			return r
		}
		if v == nil {
			return Nil()
		}
		sc, ok := v.Z[a[2]]
		if !ok {
			return Nil()
		}
		lo, cnt := int64(0), int64(0)
		for _, s := range v.Z {
			if s < sc {
				lo++
			} else if s == sc {
				cnt++
			}
		}
		if cnt == 1 {
			return Int(lo)
		}
		return Pred(func(act respx.Value) error {
			if act.Kind != respx.Integer || act.Int < lo || act.Int >= lo+cnt {
				return fmt.Errorf("rank must lie in [%d,%d] (tie group)", lo, lo+cnt-1)
			}
			return nil
		})
	})

	reg("zrange", func(db *DB, a []string) Reply {
		if len(a) < 4 {
			return Err()
		}
		var rev, withScores bool
		for _, o := range a[4:] {
			switch lower(o) {
			case "rev":
				rev = true
			case "withscores":
				withScores = true
			case "byscore", "bylex", "limit":
				return Unspecified("ZRANGE " + lower(o) + " is outside the property's list")
			default:
				return errOr(db, a[1], KZSet, Err())
			}
		}
		s, r, ok := intArg(a[2])
		if !ok {
			return errOr(db, a[1], KZSet, r)
		}
		e, r, ok := intArg(a[3])
		if !ok {
			return errOr(db, a[1], KZSet, r)
		}
		v, r, ok := db.zset(a[1], false)
		if !ok {
			return r
		}
		if v == nil {
			return Arr()
		}
		order := Ordered(v.Z)
		if rev {
			for i, j := 0, len(order)-1; i < j; i, j = i+1, j-1 {
				order[i], order[j] = order[j], order[i]
			}
		}
		s, e, ok = clampRange(s, e, int64(len(order)))
		if !ok {
			return Arr()
		}
		return Pred(zrangePred(order, int(s), int(e), withScores))
	})
}
