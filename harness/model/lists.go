package model

import (
	"bytes"
	"math"
)

func (db *DB) list(k string, create bool) (*Val, Reply, bool) {
	v := db.get(k)
	if v == nil {
		if !create {
			return nil, Reply{}, true
		}
		v = &Val{Kind: KList}
		db.Keys[k] = v
		return v, Reply{}, true
	}
	if v.Kind != KList {
		return nil, WrongType(), false
	}
	return v, Reply{}, true
}

// intArg parses an integer argument; returns (value, reply-if-not-usable, usable).
func intArg(s string) (int64, Reply, bool) {
	n, ok, amb := parseInt(s)
	if amb {
		return 0, Unspecified("integer spelling"), false
	}
	if !ok {
		return 0, Err(), false
	}
	return n, Reply{}, true
}

// errOr: the argument error applies; if the key also holds the wrong type either error may win.
func errOr(db *DB, key string, want Kind, r Reply) Reply {
	if r.T != 'e' {
		return r
	}
	if v := db.get(key); v != nil && v.Kind != want {
		return AnyErr()
	}
	return r
}

func clampRange(start, end, n int64) (int64, int64, bool) {
	if start < 0 {
		start = n + start
	}
	if end < 0 {
		end = n + end
	}
	if start < 0 {
		start = 0
	}
	if start > end || start >= n {
		return 0, 0, false
	}
	if end >= n {
		end = n - 1
	}
	return start, end, true
}

func init() {
	push := func(left, onlyIfExists bool) handler {
		return func(db *DB, a []string) Reply {
			if len(a) < 3 {
				return Err()
			}
			v, r, ok := db.list(a[1], !onlyIfExists)
			if !ok {
				return r
			}
			if v == nil {
				return Int(0)
			}
			for _, e := range a[2:] {
				if left {
					v.List = append([][]byte{[]byte(e)}, v.List...)
				} else {
					v.List = append(v.List, []byte(e))
				}
			}
			return Int(int64(len(v.List)))
		}
	}
	reg("lpush", push(true, false))
	reg("rpush", push(false, false))
	reg("lpushx", push(true, true))
	reg("rpushx", push(false, true))

	pop := func(left bool) handler {
		return func(db *DB, a []string) Reply {
			if len(a) != 2 && len(a) != 3 {
				return Err()
			}
			var cnt int64 = -1
			if len(a) == 3 {
				n, r, ok := intArg(a[2])
				if !ok {
					return errOr(db, a[1], KList, r)
				}
				if n < 0 {
					return errOr(db, a[1], KList, Err())
				}
				if n == 0 {
					return Unspecified("pop with count 0 is version dependent")
				}
				cnt = n
			}
			v, r, ok := db.list(a[1], false)
			if !ok {
				return r
			}
			if v == nil {
				return Nil()
			}
			take := func() []byte {
				var e []byte
				if left {
					e, v.List = v.List[0], v.List[1:]
				} else {
					e, v.List = v.List[len(v.List)-1], v.List[:len(v.List)-1]
				}
				return e
			}
			if cnt < 0 {
				e := take()
				db.dropIfEmpty(a[1])
				return Str(e)
			}
			var out [][]byte
			for i := int64(0); i < cnt && len(v.List) > 0; i++ {
				out = append(out, take())
			}
			db.dropIfEmpty(a[1])
			return StrArr(out)
		}
	}
	reg("lpop", pop(true))
	reg("rpop", pop(false))

	reg("llen", func(db *DB, a []string) Reply {
		if len(a) != 2 {
			return Err()
		}
		v, r, ok := db.list(a[1], false)
		if !ok {
			return r
		}
		if v == nil {
			return Int(0)
		}
		return Int(int64(len(v.List)))
	})

	reg("lindex", func(db *DB, a []string) Reply {
		if len(a) != 3 {
			return Err()
		}
		idx, r, ok := intArg(a[2])
		if !ok {
			return errOr(db, a[1], KList, r)
		}
		v, r, ok := db.list(a[1], false)
		if !ok {
			return r
		}
		if v == nil {
			return Nil()
		}
		n := int64(len(v.List))
		if idx < 0 {
			idx += n
		}
		if idx < 0 || idx >= n {
			return Nil()
		}
		return Str(v.List[idx])
	})

	reg("lrange", func(db *DB, a []string) Reply {
		if len(a) != 4 {
			return Err()
		}
		s, r, ok := intArg(a[2])
		if !ok {
			return errOr(db, a[1], KList, r)
		}
		e, r, ok := intArg(a[3])
		if !ok {
			return errOr(db, a[1], KList, r)
		}
		v, r, ok := db.list(a[1], false)
		if !ok {
			return r
		}
		if v == nil {
			return Arr()
		}
		s, e, ok = clampRange(s, e, int64(len(v.List)))
		if !ok {
			return Arr()
		}
		return StrArr(v.List[s : e+1])
	})

	reg("lset", func(db *DB, a []string) Reply {
		if len(a) != 4 {
			return Err()
		}
		idx, r, ok := intArg(a[2])
		if !ok {
			return errOr(db, a[1], KList, r)
		}
		v, r, ok := db.list(a[1], false)
		if !ok {
			return r
		}
		if v == nil {
			return Err()
		}
		n := int64(len(v.List))
		if idx < 0 {
			idx += n
		}
		if idx < 0 || idx >= n {
			return Err()
		}
		v.List[idx] = []byte(a[3])
		return OK()
	})

	reg("lrem", func(db *DB, a []string) Reply {
		if len(a) != 4 {
			return Err()
		}
		cnt, r, ok := intArg(a[2])
		if !ok {
			return errOr(db, a[1], KList, r)
		}
		v, r, ok := db.list(a[1], false)
		if !ok {
			return r
		}
		if v == nil {
			return Int(0)
		}
		target := []byte(a[3])
		removed := int64(0)
		if cnt >= 0 {
			var out [][]byte
			for _, e := range v.List {
				if bytes.Equal(e, target) && (cnt == 0 || removed < cnt) {
					removed++
					continue
				}
				out = append(out, e)
			}
			v.List = out
		} else {
			lim := -cnt
			if cnt == math.MinInt64 {
				lim = math.MaxInt64
			}
			var out [][]byte
			for i := len(v.List) - 1; i >= 0; i-- {
				e := v.List[i]
				if bytes.Equal(e, target) && removed < lim {
					removed++
					continue
				}
				out = append([][]byte{e}, out...)
			}
			v.List = out
		}
		db.dropIfEmpty(a[1])
		return Int(removed)
	})

	reg("ltrim", func(db *DB, a []string) Reply {
		if len(a) != 4 {
			return Err()
		}
		s, r, ok := intArg(a[2])
		if !ok {
			return errOr(db, a[1], KList, r)
		}
		e, r, ok := intArg(a[3])
		if !ok {
			return errOr(db, a[1], KList, r)
		}
		v, r, ok := db.list(a[1], false)
		if !ok {
			return r
		}
		if v == nil {
			return OK()
		}
		s, e, ok = clampRange(s, e, int64(len(v.List)))
		if !ok {
			v.List = nil
		} else {
			v.List = append([][]byte{}, v.List[s:e+1]...)
		}
		db.dropIfEmpty(a[1])
		return OK()
	})

	reg("lpos", func(db *DB, a []string) Reply {
		if len(a) < 3 || len(a)%2 != 1 {
			return errOr(db, "", KList, Err())
		}
		rank, count, maxlen := int64(1), int64(-1), int64(0)
		seen := map[string]bool{}
		for i := 3; i < len(a); i += 2 {
			opt := lower(a[i])
			if opt != "rank" && opt != "count" && opt != "maxlen" {
				return errOr(db, a[1], KList, Err())
			}
			if seen[opt] {
				return Unspecified("repeated LPOS option")
			}
			seen[opt] = true
			n, r, ok := intArg(a[i+1])
			if !ok {
				return errOr(db, a[1], KList, r)
			}
			switch opt {
			case "rank":
				if n == 0 {
					return errOr(db, a[1], KList, Err())
				}
				if n == math.MinInt64 {
					return Unspecified("RANK minimum integer")
				}
				rank = n
			case "count":
				if n < 0 {
					return errOr(db, a[1], KList, Err())
				}
				count = n
			case "maxlen":
				if n < 0 {
					return errOr(db, a[1], KList, Err())
				}
				maxlen = n
			}
		}
		v, r, ok := db.list(a[1], false)
		if !ok {
			return r
		}
		if v == nil {
			if count >= 0 {
				return Arr()
			}
			return Nil()
		}
		target := []byte(a[2])
		n := len(v.List)
		var matches []Reply
		want := int64(1)
		if count == 0 {
			want = math.MaxInt64
		} else if count > 0 {
			want = count
		}
		skip := rank
		if skip < 0 {
			skip = -skip
		}
		skip-- // matches to skip
		compared := int64(0)
		for i := 0; i < n && int64(len(matches)) < want; i++ {
			if maxlen > 0 && compared >= maxlen {
				break
			}
			compared++
			idx := i
			if rank < 0 {
				idx = n - 1 - i
			}
			if bytes.Equal(v.List[idx], target) {
				if skip > 0 {
					skip--
					continue
				}
				matches = append(matches, Int(int64(idx)))
			}
		}
		if count >= 0 {
			return Arr(matches...)
		}
		if len(matches) == 0 {
			return Nil()
		}
		return matches[0]
	})

	reg("lmove", func(db *DB, a []string) Reply {
		if len(a) != 5 {
			return Err()
		}
		from, to := lower(a[3]), lower(a[4])
		if (from != "left" && from != "right") || (to != "left" && to != "right") {
			return errOr(db, a[1], KList, Err())
		}
		src, r, ok := db.list(a[1], false)
		if !ok {
			return r
		}
		if src == nil {
			// reference: nil when the source does not exist (the destination is not inspected)
			return Nil()
		}
		if d := db.get(a[2]); d != nil && d.Kind != KList {
			return WrongType()
		}
		var e []byte
		if from == "left" {
			e, src.List = src.List[0], src.List[1:]
		} else {
			e, src.List = src.List[len(src.List)-1], src.List[:len(src.List)-1]
		}
		dst, _, _ := db.list(a[2], true)
		if to == "left" {
			dst.List = append([][]byte{e}, dst.List...)
		} else {
			dst.List = append(dst.List, e)
		}
		db.dropIfEmpty(a[1])
		return Str(e)
	})

	bpop := func(left bool) handler {
		return func(db *DB, a []string) Reply {
			if len(a) < 3 {
				return Err()
			}
			to := a[len(a)-1]
			n, ok, amb := parseInt(to)
			if amb {
				return Unspecified("integer spelling")
			}
			if !ok {
				if _, fok, _ := parseFloatArg(to); fok {
					return Unspecified("fractional timeout")
				}
				return Unspecified("timeout parse vs key type order")
			}
			if n < 0 {
				return Unspecified("negative timeout vs key type order")
			}
			for _, k := range a[1 : len(a)-1] {
				v := db.get(k)
				if v == nil {
					continue
				}
				if v.Kind != KList {
					return WrongType()
				}
				var e []byte
				if left {
					e, v.List = v.List[0], v.List[1:]
				} else {
					e, v.List = v.List[len(v.List)-1], v.List[:len(v.List)-1]
				}
				db.dropIfEmpty(k)
				return Arr(SStr(k), Str(e))
			}
			if n == 0 {
				return Unspecified("would block forever")
			}
			return Nil() // after the timeout
		}
	}
	reg("blpop", bpop(true))
	reg("brpop", bpop(false))
}
