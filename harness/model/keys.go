package model

import (
	"math"

	"verifharness/globref"
	"verifharness/respx"
)

func init() {
	reg("del", func(db *DB, a []string) Reply {
		if len(a) < 2 {
			return Err()
		}
		n := int64(0)
		for _, k := range a[1:] {
			if db.del(k) {
				n++
			}
		}
		return Int(n)
	})

	reg("exists", func(db *DB, a []string) Reply {
		if len(a) < 2 {
			return Err()
		}
		n := int64(0)
		for _, k := range a[1:] {
			if db.get(k) != nil {
				n++
			}
		}
		return Int(n)
	})

	reg("type", func(db *DB, a []string) Reply {
		if len(a) != 2 {
			return Err()
		}
		v := db.get(a[1])
		if v == nil {
			return SStr("none")
		}
		return SStr(v.Kind.TypeName())
	})

	reg("rename", func(db *DB, a []string) Reply {
		if len(a) != 3 {
			return Err()
		}
		src, dst := a[1], a[2]
		v := db.get(src)
		if v == nil {
			return Err()
		}
		if src == dst {
			if _, had := db.Exp[src]; had {
				db.renamedTTL(src) // same don't-care as below: a rename may drop the deadline
			}
			return OK()
		}
		exp, had := db.Exp[src]
		db.del(src)
		db.del(dst)
		db.Keys[dst] = v
		if had {
			// Reference: the TTL moves with the key. Recorded as a don't-care (DESIGN 1.8): the
			// runner's TTL observation for dst accepts "no TTL" as well; see TTLClass.
			db.Exp[dst] = exp
			db.renamedTTL(dst)
		}
		return OK()
	})

	reg("keys", func(db *DB, a []string) Reply {
		if len(a) != 2 {
			return Err()
		}
		_, cls := globref.Parse(a[1])
		if cls == globref.Unspecified {
			return Unspecified("glob construct the documentation leaves open")
		}
		var out []Reply
		for _, k := range db.SortedKeys() {
			if d, w := globref.Expect(a[1], k); d && w {
				out = append(out, SStr(k))
			}
		}
		r := Arr(out...)
		r.Unordered = true
		return r
	})

	reg("ttl", func(db *DB, a []string) Reply {
		if len(a) != 2 {
			return Err()
		}
		if db.get(a[1]) == nil {
			return Int(-2)
		}
		d, ok := db.Exp[a[1]]
		if !ok {
			return Int(-1)
		}
		want := d - db.Now
		if db.SoftTTL[a[1]] {
			return Alt("RENAME TTL transfer", ttlNear(want), Int(-1).WithThen(func(respx.Value) {
				delete(db.Exp, a[1])
				delete(db.SoftTTL, a[1])
			}))
		}
		return ttlNear(want)
	})

	reg("persist", func(db *DB, a []string) Reply {
		if len(a) != 2 {
			return Err()
		}
		if db.get(a[1]) == nil {
			return Int(0)
		}
		if db.SoftTTL[a[1]] {
			delete(db.Exp, a[1])
			delete(db.SoftTTL, a[1])
			return Alt("RENAME TTL transfer", Int(0), Int(1))
		}
		if _, ok := db.Exp[a[1]]; ok {
			delete(db.Exp, a[1])
			return Int(1)
		}
		return Int(0)
	})

	reg("expire", func(db *DB, a []string) Reply {
		if len(a) < 3 || len(a) > 4 {
			return Err()
		}
		n, ok, amb := parseInt(a[2])
		if amb {
			return Unspecified("integer spelling")
		}
		if !ok {
			return Err()
		}
		opt := ""
		if len(a) == 4 {
			opt = lower(a[3])
			if opt != "nx" && opt != "xx" && opt != "gt" && opt != "lt" {
				return Err()
			}
		}
		k := a[1]
		if db.get(k) == nil {
			return Int(0)
		}
		if db.SoftTTL[k] {
			return Unspecified("EXPIRE after RENAME of a volatile key (TTL transfer is a don't-care)")
		}
		if n > math.MaxInt64/1000-db.Now || n < math.MinInt64/1000 {
			return Err()
		}
		cur, has := db.Exp[k]
		dl := db.Now + n
		switch opt {
		case "nx":
			if has {
				return Int(0)
			}
		case "xx":
			if !has {
				return Int(0)
			}
		case "gt":
			if !has || dl <= cur {
				return Int(0)
			}
		case "lt":
			if has && dl >= cur {
				return Int(0)
			}
		}
		if dl <= db.Now {
			db.del(k)
			return Int(1)
		}
		db.Exp[k] = dl
		return Int(1)
	})
}

// ttlNear accepts a TTL reply within 2 s of want (the model and the server read the clock at
// slightly different instants) but never a non-positive or negative special value.
func ttlNear(want int64) Reply {
	return Pred(func(v respx.Value) error {
		if v.Kind != respx.Integer {
			return errNotInt
		}
		if v.Int < 0 || v.Int < want-2 || v.Int > want+2 {
			return &ttlErr{want, v.Int}
		}
		return nil
	})
}
