package c20

import (
	"fmt"
	"strconv"
	"sync"
	"testing"
	"time"

	"pgregory.net/rapid"

	"verifharness/kit"
	"verifharness/respx"
	"verifharness/srv"
)

// ---------------------------------------------------------------- first SELECTs of a database, released together

// FirstSelCase: on a server that has just started, Conns connections select the same database at the same
// instant, for every index in turn; a database number denotes one keyspace, so afterwards each of them
// sees what the others wrote there.
type FirstSelCase struct {
	Conns int `json:"conns"`
}

func execFirstSelect(c FirstSelCase) kit.Outcome {
	s, err := srv.Start(srv.Options{Databases: 16})
	if err != nil {
		return kit.Outcome{Fail: "infrastructure: " + err.Error()}
	}
	defer s.Stop()
	o := kit.Outcome{NonTrivial: c.Conns >= 2, Labels: []string{"first-selects-released-together"}}
	for idx := 1; idx < 16; idx++ {
		conns := make([]*srv.Conn, c.Conns)
		for i := range conns {
			if conns[i], err = s.Dial(); err != nil {
				return kit.Outcome{Fail: "infrastructure: " + err.Error()}
			}
		}
		closeAll := func() {
			for _, cn := range conns {
				cn.Close()
			}
		}
		start := make(chan struct{})
		var wg sync.WaitGroup
		errs := make(chan string, c.Conns)
		sel := respx.EncodeCommand([][]byte{[]byte("SELECT"), []byte(strconv.Itoa(idx))})
		for i, cn := range conns {
			wg.Add(1)
			go func(i int, cn *srv.Conn) {
				defer wg.Done()
				<-start
				if err := cn.Write(sel, 2*time.Second); err != nil {
					errs <- err.Error()
					return
				}
				v, err := cn.Read(3 * time.Second)
				if err != nil || v.Kind != respx.Simple {
					errs <- fmt.Sprintf("SELECT %d: %v %s", idx, err, v.String())
					return
				}
				if _, err := cn.DoS(3*time.Second, "SET", fmt.Sprintf("fs%d", i), fmt.Sprintf("v%d", i)); err != nil {
					errs <- err.Error()
				}
			}(i, cn)
		}
		close(start)
		wg.Wait()
		select {
		case e := <-errs:
			closeAll()
			if s.WaitExit(300 * time.Millisecond) {
				o.Fail = fmt.Sprintf("server died while %d connections selected database %d for the first time: %.300s", c.Conns, idx, s.CrashReport())
				return o
			}
			o.Fail = "first SELECT: " + e
			return o
		default:
		}
		for i, cn := range conns {
			for j := range conns {
				v, err := cn.DoS(3*time.Second, "GET", fmt.Sprintf("fs%d", j))
				if err != nil {
					closeAll()
					return kit.Outcome{Fail: "infrastructure: " + err.Error()}
				}
				if string(v.Str) != fmt.Sprintf("v%d", j) || v.Null {
					closeAll()
					o.Fail = fmt.Sprintf("%d connections selected database %d at the same moment (its first selection since the server started) and each wrote a key there; connection %d does not see connection %d's key: GET fs%d = %s", c.Conns, idx, i, j, j, v.String())
					return o
				}
			}
		}
		closeAll()
	}
	return o
}

func TestFirstSelect(t *testing.T) {
	kit.Check(t, kit.Spec[FirstSelCase]{Sub: "firstsel", Quick: 3, Thorough: 60, NoShrink: true,
		Gen:  func(t *rapid.T) FirstSelCase { return FirstSelCase{Conns: rapid.IntRange(2, 8).Draw(t, "conns")} },
		Exec: execFirstSelect})
}

// ---------------------------------------------------------------- a blocked pop and a push in another database

type BlockCase struct {
	PopDB  int    `json:"pop_db"`
	PushDB int    `json:"push_db"`
	Pop    string `json:"pop"`  // BLPOP | BRPOP
	Push   string `json:"push"` // LPUSH | RPUSH | RPUSHX-after-create | LMOVE
	GapMs  int    `json:"gap_ms"`
}

// execBlock: a client blocked in BLPOP/BRPOP on key k of one database is served by a push to k in the same
// database and by nothing that happens to a key of the same name in another database.
func execBlock(c BlockCase) kit.Outcome {
	s, err := serverFor(16)
	if err != nil {
		return kit.Outcome{Fail: "infrastructure: " + err.Error()}
	}
	o := kit.Outcome{NonTrivial: c.PopDB != c.PushDB, Labels: []string{"blocked-pop", fmt.Sprintf("same-database:%v", c.PopDB == c.PushDB)}}
	a, err := s.Dial()
	if err != nil {
		return kit.Outcome{Fail: "infrastructure: " + err.Error()}
	}
	defer a.Close()
	b, err := s.Dial()
	if err != nil {
		return kit.Outcome{Fail: "infrastructure: " + err.Error()}
	}
	defer b.Close()
	blockSeq++
	k := fmt.Sprintf("blk%d", blockSeq)
	for _, x := range []struct {
		cn *srv.Conn
		db int
	}{{a, c.PopDB}, {b, c.PushDB}} {
		if v, err := x.cn.DoS(3*time.Second, "SELECT", strconv.Itoa(x.db)); err != nil || v.Kind != respx.Simple {
			return kit.Outcome{Fail: fmt.Sprintf("SELECT %d: %v %s", x.db, err, v.String())}
		}
		_, _ = x.cn.DoS(3*time.Second, "DEL", k, k+":src")
	}
	if err := a.Write(respx.EncodeCommand([][]byte{[]byte(c.Pop), []byte(k), []byte("1")}), 2*time.Second); err != nil {
		return kit.Outcome{Fail: "infrastructure: " + err.Error()}
	}
	time.Sleep(time.Duration(c.GapMs) * time.Millisecond)
	var pv respx.Value
	switch c.Push {
	case "LMOVE":
		_, _ = b.DoS(3*time.Second, "RPUSH", k+":src", "x")
		pv, err = b.DoS(3*time.Second, "LMOVE", k+":src", k, "LEFT", "RIGHT")
	default:
		pv, err = b.DoS(3*time.Second, c.Push, k, "x")
	}
	if err != nil {
		o.Fail = fmt.Sprintf("%s in database %d got no reply while another client was blocked on the same key name in database %d: %v", c.Push, c.PushDB, c.PopDB, err)
		return o
	}
	av, err := a.Read(4 * time.Second)
	if err != nil {
		if s.WaitExit(300 * time.Millisecond) {
			o.Fail = fmt.Sprintf("server died: %.300s", s.CrashReport())
			return o
		}
		o.Fail = fmt.Sprintf("%s %s 1 got no reply within 4 s: %v", c.Pop, k, err)
		return o
	}
	left, err := b.DoS(3*time.Second, "LRANGE", k, "0", "-1")
	if err != nil {
		return kit.Outcome{Fail: "infrastructure: " + err.Error()}
	}
	if c.PopDB == c.PushDB {
		if av.Kind != respx.Array || av.Null || len(av.Arr) != 2 || string(av.Arr[1].Str) != "x" {
			o.Fail = fmt.Sprintf("%s blocked on %q in database %d, %s pushed x there %d ms later (reply %s): the blocked client got %s", c.Pop, k, c.PopDB, c.Push, c.GapMs, pv.String(), av.String())
		} else if len(left.Arr) != 0 {
			o.Fail = fmt.Sprintf("the element went to the blocked client and is still in the list: %s", left.String())
		}
		return o
	}
	if !(av.Null || (av.Kind == respx.Array && len(av.Arr) == 0)) {
		o.Fail = fmt.Sprintf("%s blocked on %q in database %d was served %s by a %s to the key of the same name in database %d", c.Pop, k, c.PopDB, av.String(), c.Push, c.PushDB)
		return o
	}
	if len(left.Arr) != 1 || string(left.Arr[0].Str) != "x" {
		o.Fail = fmt.Sprintf("%s %q x in database %d (reply %s) while a client was blocked on that key name in database %d: the list now reads %s", c.Push, k, c.PushDB, pv.String(), c.PopDB, left.String())
	}
	_, _ = b.DoS(3*time.Second, "DEL", k)
	return o
}

var blockSeq int

func TestBlockedPopAcrossDatabases(t *testing.T) {
	defer stopAll()
	kit.Check(t, kit.Spec[BlockCase]{Sub: "block", Quick: 3, Thorough: 80,
		Gen: func(t *rapid.T) BlockCase {
			c := BlockCase{PopDB: rapid.IntRange(0, 3).Draw(t, "popdb"), PushDB: rapid.IntRange(0, 3).Draw(t, "pushdb"),
				Pop: rapid.SampledFrom([]string{"BLPOP", "BRPOP"}).Draw(t, "pop"), Push: rapid.SampledFrom([]string{"LPUSH", "RPUSH", "LMOVE"}).Draw(t, "push"),
				GapMs: rapid.SampledFrom([]int{5, 80, 300}).Draw(t, "gap")}
			if kit.Shard()%2 == 0 && c.PopDB == c.PushDB {
				c.PushDB = (c.PopDB + 1) % 4
			}
			return c
		},
		Exec: execBlock})
}
