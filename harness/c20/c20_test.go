// Package c20 checks C20: numbered databases are isolated and selection is per connection.
package c20

import (
	"fmt"
	"strconv"
	"strings"
	"sync"
	"testing"
	"time"

	"pgregory.net/rapid"

	"verifharness/gen"
	"verifharness/kit"
	"verifharness/model"
	"verifharness/respx"
	"verifharness/srv"
)

func TestMain(m *testing.M) { kit.Main(m, "C20") }

type Step struct {
	Conn int     `json:"conn"`
	Cmd  kit.Cmd `json:"cmd"`
	// Raw: instead of a command, these bytes (a malformed frame) are written to the connection
	Raw kit.B `json:"raw,omitempty"`
}

type Case struct {
	Databases int    `json:"databases"`
	Conns     int    `json:"conns"`
	Steps     []Step `json:"steps"`
	// Pipe: consecutive steps of one connection leave in a single write (a pipelining client)
	Pipe bool `json:"pipe,omitempty"`
}

var servers = map[int]*srv.Server{}

func serverFor(databases int) (*srv.Server, error) {
	if s := servers[databases]; s != nil && s.Alive() {
		return s, nil
	}
	if s := servers[databases]; s != nil {
		s.Stop()
	}
	s, err := srv.Start(srv.Options{Databases: databases})
	if err != nil {
		return nil, err
	}
	servers[databases] = s
	return s, nil
}

func stopAll() {
	for k, s := range servers {
		s.Stop()
		delete(servers, k)
	}
}

var pool = []string{"k", "K", "shared"}

func genCase(t *rapid.T) Case {
	c := Case{Databases: rapid.SampledFrom([]int{1, 2, 16, 16, 300}).Draw(t, "databases"), Conns: rapid.IntRange(2, 5).Draw(t, "conns"), Pipe: rapid.IntRange(0, 2).Draw(t, "pipe") == 0}
	n := rapid.SampledFrom([]int{4, 10, 25, 50}).Draw(t, "len")
	N := c.Databases
	conn := 0
	garbageAt := -1
	if rapid.IntRange(0, 3).Draw(t, "garbage") == 0 {
		garbageAt = rapid.IntRange(1, n).Draw(t, "garbageat") - 1
	}
	for i := 0; i < n; i++ {
		// runs of steps on one connection (a pipelining client sends such a run in one write)
		if i == 0 || rapid.IntRange(0, 2).Draw(t, "switch") == 0 {
			conn = rapid.IntRange(0, c.Conns-1).Draw(t, "conn")
		}
		if garbageAt == i {
			// a malformed frame: the server answers with an error or closes the connection; a connection that
			// survives keeps its selection
			c.Steps = append(c.Steps, Step{Conn: conn, Raw: kit.B(gen.Pick(t, "raw", "*x\r\n", "$abc\r\n", "*1\r\n$x\r\n", "*-5\r\n", "?\r\n"))})
			continue
		}
		k := rapid.SampledFrom(pool).Draw(t, "key")
		var cmd kit.Cmd
		switch gen.Weighted(t, "op", []int{8, 6, 8, 2, 2, 2, 2, 1, 3, 3, 2, 2}) {
		case 0:
			var arg string
			switch rapid.IntRange(0, 5).Draw(t, "selkind") {
			case 0, 1, 2:
				arg = strconv.Itoa(rapid.IntRange(0, N-1).Draw(t, "db"))
				if N > 256 && rapid.Bool().Draw(t, "high") {
					// indexes that do not fit a byte, and pairs that agree modulo 256
					arg = strconv.Itoa(rapid.SampledFrom([]int{255, 256, 257, 1, 0, 299, 43, 299 - 256}).Draw(t, "hi"))
				}
			case 3:
				arg = gen.Pick(t, "edge", strconv.Itoa(N), strconv.Itoa(N+1), "-1", "2147483648", "9223372036854775808")
			default:
				arg = gen.Pick(t, "junk", "abc", "", "1.0", " 1", "0x1")
			}
			cmd = kit.MkCmd(gen.CaseOf(t, "select"), arg)
			if rapid.IntRange(0, 14).Draw(t, "badarity") == 0 {
				cmd = kit.MkCmd("select")
				if rapid.Bool().Draw(t, "two") {
					cmd = kit.MkCmd("select", "0", "1")
				}
			}
		case 1:
			cmd = kit.MkCmd("set", k, fmt.Sprintf("c%d-step%d", conn, i))
		case 2:
			cmd = kit.MkCmd("get", k)
		case 3:
			cmd = kit.MkCmd("del", k)
		case 4:
			cmd = kit.MkCmd("exists", k)
		case 5:
			cmd = kit.MkCmd("keys", "*")
		case 6:
			cmd = kit.MkCmd("lpush", k+"-l", fmt.Sprintf("e%d", i))
		case 7:
			cmd = kit.MkCmd("llen", k+"-l")
		// deadlines belong to the key of one database too (far away: no step depends on time passing)
		case 8:
			cmd = kit.MkCmd("expire", k, gen.Pick(t, "sec", "100000", "200000"), gen.Pick(t, "eopt", "", "", "nx", "xx"))
			if string(cmd[3]) == "" {
				cmd = cmd[:3]
			}
		case 9:
			cmd = kit.MkCmd("ttl", k)
		case 10:
			cmd = kit.MkCmd("persist", k)
		default:
			cmd = kit.MkCmd("set", k, fmt.Sprintf("c%d-step%d", conn, i), "ex", "300000")
		}
		c.Steps = append(c.Steps, Step{Conn: conn, Cmd: cmd})
	}
	return c
}

// exec runs the steps strictly sequentially (the shared-selection defect needs no race) and compares
// with a per-connection selection + per-database reference keyspaces.
func exec(c Case) kit.Outcome {
	s, err := serverFor(c.Databases)
	if err != nil {
		return kit.Outcome{Fail: "infrastructure: " + err.Error()}
	}
	conns := make([]*srv.Conn, c.Conns)
	for i := range conns {
		conns[i], err = s.Dial()
		if err != nil {
			return kit.Outcome{Fail: "infrastructure: " + err.Error()}
		}
		defer conns[i].Close()
	}
	// wipe every database through a dedicated connection
	admin, err := s.Dial()
	if err != nil {
		return kit.Outcome{Fail: "infrastructure: " + err.Error()}
	}
	defer admin.Close()
	for d := 0; d < c.Databases; d++ {
		if v, err := admin.DoS(2*time.Second, "SELECT", strconv.Itoa(d)); err != nil || v.Kind != respx.Simple {
			return kit.Outcome{Fail: fmt.Sprintf("SELECT %d on a fresh connection with %d databases configured: %v %s", d, c.Databases, err, v.String())}
		}
		v, err := admin.DoS(2*time.Second, "KEYS", "*")
		if err != nil {
			return kit.Outcome{Fail: "infrastructure: " + err.Error()}
		}
		for _, k := range v.Arr {
			_, _ = admin.Do(2*time.Second, []byte("DEL"), k.Str)
		}
	}
	dbs := make([]*model.DB, c.Databases)
	for i := range dbs {
		dbs[i] = model.NewDB()
	}
	sel := make([]int, c.Conns)
	o := kit.Outcome{}
	used := map[string]map[int]bool{}
	redial := func(ci int) string {
		conns[ci].Close()
		nc, err := s.Dial()
		if err != nil {
			return "infrastructure: " + err.Error()
		}
		conns[ci] = nc
		sel[ci] = 0
		return ""
	}
	for i := 0; i < len(c.Steps); {
		st := c.Steps[i]
		if len(st.Raw) > 0 {
			// malformed frame, then a PING with a nonce: the connection either answers (possibly after an error
			// reply) - it lives on and keeps its selection - or is closed, and the client connects again (database 0)
			o.Labels = append(o.Labels, "malformed-frame")
			nonce := fmt.Sprintf("alive-%d", i)
			_ = conns[st.Conn].Write(append(append([]byte{}, st.Raw...), respx.EncodeCommand([][]byte{[]byte("PING"), []byte(nonce)})...), 2*time.Second)
			alive := false
			for k := 0; k < 4; k++ {
				v, err := conns[st.Conn].Read(400 * time.Millisecond)
				if err != nil {
					break
				}
				if v.Kind == respx.Bulk && string(v.Str) == nonce {
					alive = true
					break
				}
			}
			if !alive {
				if s.WaitExit(300 * time.Millisecond) {
					o.Fail = fmt.Sprintf("step %d conn %d: server died on a malformed frame %q: %.300s", i, st.Conn, []byte(st.Raw), s.CrashReport())
					return o
				}
				if msg := redial(st.Conn); msg != "" {
					return kit.Outcome{Fail: msg}
				}
				o.Labels = append(o.Labels, "connection-closed-on-malformed-frame")
			} else {
				o.Labels = append(o.Labels, "connection-survived-malformed-frame")
			}
			i++
			continue
		}
		// the group of steps that leave in one write
		j := i + 1
		if c.Pipe {
			for j < len(c.Steps) && c.Steps[j].Conn == st.Conn && len(c.Steps[j].Raw) == 0 {
				j++
			}
		}
		var wire []byte
		for _, g := range c.Steps[i:j] {
			wire = append(wire, respx.EncodeCommand(g.Cmd.Bytes())...)
		}
		if j-i > 1 {
			o.Labels = append(o.Labels, "pipelined-run")
		}
		if err := conns[st.Conn].Write(wire, 3*time.Second); err != nil {
			o.Fail = fmt.Sprintf("step %d conn %d: write failed: %v", i, st.Conn, err)
			return o
		}
		for gi := i; gi < j; gi++ {
			st := c.Steps[gi]
			name := strings.ToLower(string(st.Cmd[0]))
			var want model.Reply
			if name == "select" {
				want = model.Err()
				if len(st.Cmd) == 2 {
					arg := string(st.Cmd[1])
					n, perr := strconv.Atoi(arg)
					strict := perr == nil && strconv.Itoa(n) == arg
					switch {
					case strict && n >= 0 && n < c.Databases:
						want = model.OK()
						sel[st.Conn] = n
						if gi > i {
							o.Labels = append(o.Labels, "select-inside-a-pipelined-run")
						}
					case perr == nil && !strict:
						want = model.Unspecified("integer spelling")
					}
				}
			} else {
				want = dbs[sel[st.Conn]].Exec(st.Cmd.Bytes(), time.Now().Unix())
				if len(st.Cmd) > 1 {
					k := string(st.Cmd[1])
					if used[k] == nil {
						used[k] = map[int]bool{}
					}
					used[k][sel[st.Conn]] = true
					if len(used[k]) >= 2 {
						o.NonTrivial = true
					}
				}
			}
			got, err := conns[st.Conn].Read(3 * time.Second)
			if err != nil {
				if s.WaitExit(500 * time.Millisecond) {
					o.Fail = fmt.Sprintf("step %d conn %d %s: server died: %.300s", gi, st.Conn, st.Cmd.String(), s.CrashReport())
					return o
				}
				o.Fail = fmt.Sprintf("step %d conn %d %s: %v", gi, st.Conn, st.Cmd.String(), err)
				return o
			}
			if want.T == '?' {
				return o
			}
			if err := model.Match(want, got); err != nil {
				o.Fail = fmt.Sprintf("step %d conn %d (selected db %d of %d%s) %s: %v", gi, st.Conn, sel[st.Conn], c.Databases, map[bool]string{true: ", inside a pipelined run", false: ""}[j-i > 1], st.Cmd.String(), err)
				return o
			}
		}
		i = j
	}
	return o
}

func TestSequential(t *testing.T) {
	defer stopAll()
	kit.Check(t, kit.Spec[Case]{Sub: "seq", Quick: 300, Thorough: 5000, Gen: genCase, Exec: exec})
}

// TestConcurrent pins each connection to its own database and hammers read-your-writes.
type ConcCase struct {
	Conns int `json:"conns"`
	Ops   int `json:"ops"`
}

func execConcurrent(c ConcCase) kit.Outcome {
	s, err := serverFor(16)
	if err != nil {
		return kit.Outcome{Fail: "infrastructure: " + err.Error()}
	}
	var wg sync.WaitGroup
	errs := make(chan string, c.Conns)
	for w := 0; w < c.Conns; w++ {
		wg.Add(1)
		go func(w int) {
			defer wg.Done()
			conn, err := s.Dial()
			if err != nil {
				errs <- "infrastructure: " + err.Error()
				return
			}
			defer conn.Close()
			if _, err := conn.DoS(3*time.Second, "SELECT", strconv.Itoa(w)); err != nil {
				errs <- fmt.Sprintf("conn %d: SELECT %d: %v", w, w, err)
				return
			}
			for i := 0; i < c.Ops; i++ {
				val := fmt.Sprintf("w%d-%d", w, i)
				if _, err := conn.DoS(3*time.Second, "SET", "rw", val); err != nil {
					errs <- fmt.Sprintf("conn %d: SET: %v", w, err)
					return
				}
				v, err := conn.DoS(3*time.Second, "GET", "rw")
				if err != nil {
					errs <- fmt.Sprintf("conn %d: GET: %v", w, err)
					return
				}
				if string(v.Str) != val {
					errs <- fmt.Sprintf("connection %d selected database %d and wrote rw=%q, then read %s: another connection's SELECT or write leaked into it", w, w, val, v.String())
					return
				}
			}
		}(w)
	}
	wg.Wait()
	close(errs)
	o := kit.Outcome{NonTrivial: c.Conns >= 2}
	for e := range errs {
		o.Fail = e
		break
	}
	return o
}

func TestConcurrent(t *testing.T) {
	defer stopAll()
	kit.Check(t, kit.Spec[ConcCase]{Sub: "conc", Quick: 6, Thorough: 200,
		Gen: func(t *rapid.T) ConcCase {
			return ConcCase{Conns: rapid.IntRange(2, 12).Draw(t, "conns"), Ops: rapid.SampledFrom([]int{20, 100, 400}).Draw(t, "ops")}
		},
		Exec: execConcurrent})
}

func TestReplay(t *testing.T) {
	defer stopAll()
	kit.Replay[Case](t, map[string]func(kit.RawCase) kit.Outcome{"seq": kit.ReplaySub(exec), "conc": kit.ReplaySub(execConcurrent), "firstsel": kit.ReplaySub(execFirstSelect), "block": kit.ReplaySub(execBlock)})
}
