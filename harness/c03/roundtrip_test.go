package c03

import (
	"bytes"
	"fmt"
	"net"
	"strings"
	"sync"
	"sync/atomic"
	"testing"
	"time"

	"pgregory.net/rapid"

	"verifharness/gen"
	"verifharness/inproc"
	"verifharness/kit"
	"verifharness/respx"
	"verifharness/srv"
)

// ---------------------------------------------------------------- exact payload round trips

// RTCase: one payload stored through every writing command and read back through every reading one.
type RTCase struct {
	Payload kit.B `json:"payload"`
	Other   kit.B `json:"other"` // a second, different payload stored next to it
}

// sizes around the places where an encoder changes gear: digit counts of the length header, buffer sizes
var rtSizes = []int{0, 0, 1, 2, 9, 10, 11, 99, 100, 101, 999, 1000, 1023, 1024, 1025, 1050, 1099, 1100, 4095, 4096, 4097, 8192,
	9999, 10000, 10001, 10500, 10999, 11000, 65535, 65536, 99999, 100000, 100500, 109999, 110000, 1 << 20}

func genPayload(t *rapid.T, label string) []byte {
	if rapid.IntRange(0, 2).Draw(t, label+"small") == 0 {
		return []byte(gen.Value(t, label+"v"))
	}
	n := rapid.SampledFrom(rtSizes).Draw(t, label+"size")
	if n > 70000 && !kit.Thorough() && rapid.IntRange(0, 3).Draw(t, label+"big") != 0 {
		n = n % 12000
	}
	unit := rapid.SampledFrom([]string{"a", "\r\n", "\x00", "\xff", "$5\r\nhello\r\n", "*1\r\n", "ab\r", "\n", "+OK\r\n"}).Draw(t, label+"unit")
	b := bytes.Repeat([]byte(unit), n/len(unit)+1)[:n]
	return b
}

// execRoundTrip: whatever was stored must come back as a non-null bulk string with exactly the same bytes.
func execRoundTrip(c RTCase) kit.Outcome {
	db := inproc.New(16, 0)
	p, q := []byte(c.Payload), []byte(c.Other)
	o := kit.Outcome{NonTrivial: len(p) == 0 || bytes.ContainsAny(p, "\r\n") || len(p) >= 1024}
	o.Labels = append(o.Labels, fmt.Sprintf("payload-bytes:10^%d", len(fmt.Sprint(len(p)))-1))
	if len(p) == 0 {
		o.Labels = append(o.Labels, "empty-payload")
	}
	do := func(args ...[]byte) (respx.Value, string) {
		r := db.Do(args)
		if r.Panic != "" {
			return respx.Value{}, fmt.Sprintf("%.60q panicked: %.200s", args[0], r.Panic)
		}
		if r.DecErr != nil {
			return respx.Value{}, fmt.Sprintf("%.60q: the reply is not one well-formed RESP value (%v): %.120q", args[0], r.DecErr, r.Raw)
		}
		return r.Val, ""
	}
	B := func(s string) []byte { return []byte(s) }
	same := func(what string, v respx.Value, want []byte) string {
		if v.Kind != respx.Bulk && v.Kind != respx.Simple {
			return fmt.Sprintf("%s: expected the stored bytes as a string, got %.120s", what, v.String())
		}
		if v.Null {
			return fmt.Sprintf("%s: a stored payload of %d bytes came back as the null bulk string", what, len(want))
		}
		if v.Kind == respx.Simple && bytes.ContainsAny(want, "\r\n") {
			return fmt.Sprintf("%s: payload with CR/LF framed as a simple string", what)
		}
		if !bytes.Equal(v.Str, want) {
			return fmt.Sprintf("%s: stored %d bytes %.60q, decoded %d bytes %.60q", what, len(want), want, len(v.Str), v.Str)
		}
		return ""
	}
	elems := func(what string, v respx.Value, want ...[]byte) string {
		if v.Kind != respx.Array || v.Null || len(v.Arr) != len(want) {
			return fmt.Sprintf("%s: expected an array of %d, got %.160s", what, len(want), v.String())
		}
		for i := range want {
			if m := same(fmt.Sprintf("%s element %d", what, i), v.Arr[i], want[i]); m != "" {
				return m
			}
		}
		return ""
	}
	anyOrder := func(what string, v respx.Value, want ...[]byte) string {
		if v.Kind != respx.Array || v.Null || len(v.Arr) != len(want) {
			return fmt.Sprintf("%s: expected an array of %d, got %.160s", what, len(want), v.String())
		}
		for _, w := range want {
			found := false
			for _, e := range v.Arr {
				if (e.Kind == respx.Bulk || e.Kind == respx.Simple) && !e.Null && bytes.Equal(e.Str, w) {
					found = true
				}
			}
			if !found {
				return fmt.Sprintf("%s: stored payload of %d bytes %.60q is not among the decoded elements %.160s", what, len(w), w, v.String())
			}
		}
		return ""
	}
	type step struct {
		cmd   [][]byte
		check func(v respx.Value) string
	}
	distinct := !bytes.Equal(p, q)
	steps := []step{
		{[][]byte{B("SET"), B("s"), p}, nil},
		{[][]byte{B("GET"), B("s")}, func(v respx.Value) string { return same("GET", v, p) }},
		{[][]byte{B("GETRANGE"), B("s"), B("0"), B("-1")}, func(v respx.Value) string { return same("GETRANGE 0 -1", v, p) }},
		{[][]byte{B("MGET"), B("s"), B("s")}, func(v respx.Value) string { return elems("MGET", v, p, p) }},
		{[][]byte{B("PING"), p}, func(v respx.Value) string { return same("PING", v, p) }},
		{[][]byte{B("RPUSH"), B("l"), p, q, p}, nil},
		{[][]byte{B("LRANGE"), B("l"), B("0"), B("-1")}, func(v respx.Value) string { return elems("LRANGE", v, p, q, p) }},
		{[][]byte{B("LINDEX"), B("l"), B("0")}, func(v respx.Value) string { return same("LINDEX", v, p) }},
		{[][]byte{B("LPOP"), B("l")}, func(v respx.Value) string { return same("LPOP", v, p) }},
		{[][]byte{B("RPOP"), B("l")}, func(v respx.Value) string { return same("RPOP", v, p) }},
		{[][]byte{B("HSET"), B("h"), B("f"), p, B("g"), q}, nil},
		{[][]byte{B("HGET"), B("h"), B("f")}, func(v respx.Value) string { return same("HGET", v, p) }},
		{[][]byte{B("HMGET"), B("h"), B("f"), B("g")}, func(v respx.Value) string { return elems("HMGET", v, p, q) }},
		{[][]byte{B("HVALS"), B("h")}, func(v respx.Value) string { return anyOrder("HVALS", v, p, q) }},
		{[][]byte{B("HGETALL"), B("h")}, func(v respx.Value) string { return anyOrder("HGETALL", v, B("f"), p, B("g"), q) }},
		{[][]byte{B("HSET"), B("hk"), p, B("1")}, nil},
		{[][]byte{B("HKEYS"), B("hk")}, func(v respx.Value) string { return elems("HKEYS", v, p) }},
		{[][]byte{B("SADD"), B("t"), p}, nil},
		{[][]byte{B("SMEMBERS"), B("t")}, func(v respx.Value) string { return elems("SMEMBERS", v, p) }},
		{[][]byte{B("SUNION"), B("t"), B("nokey")}, func(v respx.Value) string { return elems("SUNION", v, p) }},
		{[][]byte{B("ZADD"), B("z"), B("1"), p}, nil},
		{[][]byte{B("ZRANGE"), B("z"), B("0"), B("-1")}, func(v respx.Value) string { return elems("ZRANGE", v, p) }},
		{[][]byte{B("XADD"), B("x"), B("1-1"), p, q}, nil},
		{[][]byte{B("XRANGE"), B("x"), B("-"), B("+")}, func(v respx.Value) string {
			if v.Kind != respx.Array || len(v.Arr) != 1 || v.Arr[0].Kind != respx.Array || len(v.Arr[0].Arr) != 2 {
				return fmt.Sprintf("XRANGE: expected one entry, got %.160s", v.String())
			}
			return elems("XRANGE fields", v.Arr[0].Arr[1], p, q)
		}},
	}
	if len(p) > 0 && len(p) <= 4096 {
		// the payload as a key name
		steps = append(steps, step{[][]byte{B("SET"), p, B("1")}, nil},
			step{[][]byte{B("TYPE"), p}, nil})
	}
	_ = distinct
	for _, st := range steps {
		v, bad := do(st.cmd...)
		if bad != "" {
			o.Fail = bad
			return o
		}
		if st.check != nil {
			if m := st.check(v); m != "" {
				o.Fail = m
				return o
			}
		}
	}
	return o
}

func TestRoundTrip(t *testing.T) {
	kit.Check(t, kit.Spec[RTCase]{Sub: "roundtrip", Quick: 250, Thorough: 6000,
		Gen: func(t *rapid.T) RTCase {
			return RTCase{Payload: kit.B(genPayload(t, "p")), Other: kit.B(gen.Value(t, "other"))}
		},
		Exec: execRoundTrip})
}

// ---------------------------------------------------------------- a pipeline followed by a half-close

type HCCase struct {
	Cmds   []kit.Cmd `json:"cmds"`
	Chunk  int       `json:"chunk,omitempty"`
	LastMs int       `json:"last_ms,omitempty"` // the last command blocks this long (BLPOP on a missing key) when > 0
}

// execHalfClose: a client that writes its commands and then closes its sending direction (printf ... | nc)
// has sent complete commands: each of them still gets its reply before the server closes the connection.
func execHalfClose(c HCCase) kit.Outcome {
	if err := ensureServer(); err != nil {
		return kit.Outcome{Fail: "infrastructure: " + err.Error()}
	}
	o := kit.Outcome{NonTrivial: len(c.Cmds) >= 2, Labels: []string{"half-close-after-pipeline"}}
	conn, err := server.Dial()
	if err != nil {
		return kit.Outcome{Fail: "infrastructure: " + err.Error()}
	}
	defer conn.Close()
	var stream []byte
	for _, cmd := range c.Cmds {
		stream = append(stream, respx.EncodeCommand(cmd.Bytes())...)
	}
	n := len(c.Cmds)
	if c.LastMs > 0 {
		stream = append(stream, respx.EncodeCommand([][]byte{[]byte("BLPOP"), []byte("c03:nosuchlist"), []byte("1")})...)
		n++
	}
	if c.Chunk <= 0 {
		c.Chunk = len(stream)
	}
	for i := 0; i < len(stream); i += c.Chunk {
		e := i + c.Chunk
		if e > len(stream) {
			e = len(stream)
		}
		if err := conn.Write(stream[i:e], 10*time.Second); err != nil {
			return kit.Outcome{Inconclusive: true, Labels: []string{"write-failed"}}
		}
	}
	if tc, ok := conn.C.(*net.TCPConn); ok {
		_ = tc.CloseWrite()
	}
	got := 0
	for {
		v, err := conn.Read(6 * time.Second)
		if err != nil {
			if server.WaitExit(300 * time.Millisecond) {
				o.Fail = fmt.Sprintf("server died: %.300s", server.CrashReport())
				stopServer()
				return o
			}
			if _, isFraming := err.(*respx.FramingError); isFraming {
				o.Fail = fmt.Sprintf("reply stream not well-formed after %d replies: %v", got, err)
				return o
			}
			break // end of stream (or silence): count what arrived
		}
		_ = v
		got++
	}
	if got != n {
		o.Fail = fmt.Sprintf("%d complete commands were written before the client closed its sending direction, %d replies arrived before the server closed the connection", n, got)
	}
	return o
}

func TestHalfClose(t *testing.T) {
	defer stopServer()
	kit.Check(t, kit.Spec[HCCase]{Sub: "halfclose", Quick: 12, Thorough: 300,
		Gen: func(t *rapid.T) HCCase {
			c := HCCase{Chunk: rapid.SampledFrom([]int{0, 0, 1, 7, 64}).Draw(t, "chunk")}
			if rapid.IntRange(0, 3).Draw(t, "slowlast") == 0 {
				c.LastMs = 1000
			}
			n := rapid.SampledFrom([]int{1, 2, 5, 20, 100}).Draw(t, "n")
			for i := 0; i < n; i++ {
				c.Cmds = append(c.Cmds, rapid.SampledFrom([]kit.Cmd{kit.MkCmd("PING"), kit.MkCmd("SET", "hck", "v"), kit.MkCmd("GET", "hck"),
					kit.MkCmd("INCR", "hcctr"), kit.MkCmd("LRANGE", "nolist", "0", "-1"), kit.MkCmd("NOSUCH"), kit.MkCmd("RPUSH", "hcl", "a", "b"),
					kit.MkCmd("LRANGE", "hcl", "0", "20"), kit.MkCmd("DEL", "hcl")}).Draw(t, "cmd"))
			}
			return c
		},
		Exec: execHalfClose})
}

// ---------------------------------------------------------------- large replies on a subscribed connection while messages are published

type StormCase struct {
	Elems   int `json:"elems"`
	ElemLen int `json:"elem_len"`
	Rounds  int `json:"rounds"`
	Pubs    int `json:"publishers"`
}

// execStorm: a connection subscribes, builds a list whose LRANGE reply is far larger than any socket or
// library buffer, and pipelines LRANGEs while other clients publish to its channel without pause. Pushes
// may arrive between replies, never inside one: the stream must decode, value by value, into intact pushes
// and intact replies, and every LRANGE gets its reply.
func execStorm(c StormCase) kit.Outcome {
	if err := ensureServer(); err != nil {
		return kit.Outcome{Fail: "infrastructure: " + err.Error()}
	}
	o := kit.Outcome{NonTrivial: c.Elems*c.ElemLen > 4096, Labels: []string{"publish-storm-on-a-subscribed-connection"}}
	sub, err := server.Dial()
	if err != nil {
		return kit.Outcome{Fail: "infrastructure: " + err.Error()}
	}
	defer sub.Close()
	nonceSeq++
	ch := fmt.Sprintf("c03storm%d", nonceSeq)
	key := "storm:" + ch
	if _, err := sub.Do(3*time.Second, []byte("SUBSCRIBE"), []byte(ch)); err != nil {
		o.Fail = "SUBSCRIBE got no reply: " + err.Error()
		return o
	}
	args := [][]byte{[]byte("RPUSH"), []byte(key)}
	var want []string
	for e := 0; e < c.Elems; e++ {
		el := strings.Repeat(fmt.Sprintf("%s.%d|", ch, e), 1+c.ElemLen/(len(ch)+4))
		want = append(want, el)
		args = append(args, []byte(el))
	}
	if _, err := sub.Do(5*time.Second, args...); err != nil {
		o.Fail = "RPUSH on the subscribed connection got no reply: " + err.Error()
		return o
	}
	var stop atomic.Bool
	var wg sync.WaitGroup
	var published atomic.Int64
	for p := 0; p < c.Pubs; p++ {
		wg.Add(1)
		go func(p int) {
			defer wg.Done()
			pc, err := server.Dial()
			if err != nil {
				return
			}
			defer pc.Close()
			for i := 0; !stop.Load(); i++ {
				if _, err := pc.Do(3*time.Second, []byte("PUBLISH"), []byte(ch), []byte(fmt.Sprintf("push-%d-%d", p, i))); err != nil {
					return
				}
				published.Add(1)
			}
		}(p)
	}
	defer func() { stop.Store(true); wg.Wait() }()
	var stream []byte
	for r := 0; r < c.Rounds; r++ {
		stream = append(stream, respx.EncodeCommand([][]byte{[]byte("LRANGE"), []byte(key), []byte("0"), []byte("-1")})...)
	}
	go func() { _ = sub.Write(stream, 30*time.Second) }()
	replies, pushes := 0, 0
	for replies < c.Rounds {
		v, err := sub.Read(10 * time.Second)
		if err != nil {
			if server.WaitExit(300 * time.Millisecond) {
				o.Fail = fmt.Sprintf("server died: %.300s", server.CrashReport())
				stopServer()
				return o
			}
			if _, isFraming := err.(*respx.FramingError); !isFraming && err != srv.ErrTimeout {
				// the connection was closed under us: a subscriber that does not keep up with the publishers is
				// dropped by the server after its 1 s write time-out (C19), which is what a reader on a busy machine
				// looks like. Not a violation of framing or order; the case decides nothing.
				stop.Store(true)
				return kit.Outcome{Inconclusive: true, Labels: []string{"storm: subscriber dropped as too slow"}}
			}
			o.Fail = fmt.Sprintf("subscribed connection, after %d replies and %d pushes: %v; undecoded bytes %.100q", replies, pushes, err, sub.R.Buffered())
			return o
		}
		if v.Kind == respx.Array && len(v.Arr) == 3 && string(v.Arr[0].Str) == "message" {
			if string(v.Arr[1].Str) != ch || !strings.HasPrefix(string(v.Arr[2].Str), "push-") {
				o.Fail = fmt.Sprintf("a push arrived damaged: %.160s", v.String())
				return o
			}
			pushes++
			continue
		}
		if v.Kind != respx.Array || len(v.Arr) != len(want) {
			o.Fail = fmt.Sprintf("reply %d: expected the list's %d elements, got %.160s", replies, len(want), v.String())
			return o
		}
		for i := range want {
			if string(v.Arr[i].Str) != want[i] {
				o.Fail = fmt.Sprintf("reply %d, element %d: got %.80q, stored %.80q", replies, i, v.Arr[i].Str, want[i])
				return o
			}
		}
		replies++
	}
	stop.Store(true)
	wg.Wait()
	kit.C.Label("storm-pushes-received-between-replies", int64(pushes))
	_, _ = sub.Do(3*time.Second, []byte("DEL"), []byte(key))
	// drain what is still on its way so that the next case starts clean (the connection is closed anyway)
	return o
}

func TestPublishStorm(t *testing.T) {
	defer stopServer()
	kit.Check(t, kit.Spec[StormCase]{Sub: "storm", Quick: 4, Thorough: 60,
		Gen: func(t *rapid.T) StormCase {
			return StormCase{Elems: rapid.SampledFrom([]int{50, 400, 800}).Draw(t, "elems"), ElemLen: rapid.SampledFrom([]int{20, 200, 1500}).Draw(t, "elemlen"),
				Rounds: rapid.SampledFrom([]int{20, 60, 150}).Draw(t, "rounds"), Pubs: rapid.IntRange(1, 3).Draw(t, "pubs")}
		},
		Exec: execStorm})
}

// ---------------------------------------------------------------- replies about a value that other clients are changing

type SharedCase struct {
	Elems   int `json:"elems"`
	Readers int `json:"readers"`
	Writers int `json:"writers"`
	Rounds  int `json:"rounds"`
}

// execShared: some connections read a long list, hash and set over and over (replies of hundreds of
// elements) while others shrink and grow them. What a reader gets may be any state the value went through,
// but it is always one complete well-formed reply per command: the announced element count is the number
// of elements that follow, and the next reply starts where this one ends.
func execShared(c SharedCase) kit.Outcome {
	if err := ensureServer(); err != nil {
		return kit.Outcome{Fail: "infrastructure: " + err.Error()}
	}
	o := kit.Outcome{NonTrivial: c.Readers >= 1 && c.Writers >= 1, Labels: []string{"readers-of-values-being-changed"}}
	nonceSeq++
	tag := fmt.Sprintf("sh%d", nonceSeq)
	lk, hk, sk := tag+":l", tag+":h", tag+":s"
	setup, err := server.Dial()
	if err != nil {
		return kit.Outcome{Fail: "infrastructure: " + err.Error()}
	}
	defer setup.Close()
	la, ha, sa := [][]byte{[]byte("RPUSH"), []byte(lk)}, [][]byte{[]byte("HSET"), []byte(hk)}, [][]byte{[]byte("SADD"), []byte(sk)}
	for i := 0; i < c.Elems; i++ {
		e := []byte(fmt.Sprintf("%s.e%d.%s", tag, i, strings.Repeat("x", i%40)))
		la, ha, sa = append(la, e), append(ha, e, e), append(sa, e)
	}
	for _, a := range [][][]byte{la, ha, sa} {
		if _, err := setup.Do(10*time.Second, a...); err != nil {
			return kit.Outcome{Fail: "infrastructure: " + err.Error()}
		}
	}
	var stop atomic.Bool
	var wg sync.WaitGroup
	errs := make(chan string, c.Readers+c.Writers)
	for w := 0; w < c.Writers; w++ {
		wg.Add(1)
		go func(w int) {
			defer wg.Done()
			cn, err := server.Dial()
			if err != nil {
				return
			}
			defer cn.Close()
			for i := 0; !stop.Load(); i++ {
				e := fmt.Sprintf("%s.w%d.%d", tag, w, i)
				cmds := [][]string{{"RPOP", lk}, {"LPOP", lk, "3"}, {"RPUSH", lk, e, e + "b", e + "c"}, {"HDEL", hk, fmt.Sprintf("%s.e%d.%s", tag, i%c.Elems, strings.Repeat("x", (i%c.Elems)%40))},
					{"HSET", hk, e, e}, {"SPOP", sk}, {"SADD", sk, e}, {"LTRIM", lk, "1", "-2"}, {"RPUSH", lk, e + "d", e + "e"}}
				cmd := cmds[i%len(cmds)]
				if _, err := cn.DoS(5*time.Second, cmd...); err != nil {
					if !stop.Load() {
						errs <- fmt.Sprintf("writer %d: %v got no reply: %v", w, cmd, err)
					}
					return
				}
			}
		}(w)
	}
	var rg sync.WaitGroup
	for r := 0; r < c.Readers; r++ {
		rg.Add(1)
		go func(r int) {
			defer rg.Done()
			cn, err := server.Dial()
			if err != nil {
				return
			}
			defer cn.Close()
			reads := [][][]byte{{[]byte("LRANGE"), []byte(lk), []byte("0"), []byte("-1")}, {[]byte("HGETALL"), []byte(hk)}, {[]byte("SMEMBERS"), []byte(sk)}, {[]byte("HVALS"), []byte(hk)}}
			var stream []byte
			for i := 0; i < c.Rounds; i++ {
				stream = append(stream, respx.EncodeCommand(reads[(i+r)%len(reads)])...)
			}
			nonce := fmt.Sprintf("%s-r%d", tag, r)
			stream = append(stream, respx.EncodeCommand([][]byte{[]byte("PING"), []byte(nonce)})...)
			go func() { _ = cn.Write(stream, 30*time.Second) }()
			for i := 0; i <= c.Rounds; i++ {
				v, err := cn.Read(10 * time.Second)
				if err != nil {
					errs <- fmt.Sprintf("reader %d, reply %d of %d (%s): %v; undecoded bytes %.100q", r, i, c.Rounds, reads[(i+r)%len(reads)][0], err, cn.R.Buffered())
					return
				}
				if i == c.Rounds {
					if v.Kind != respx.Bulk || string(v.Str) != nonce {
						errs <- fmt.Sprintf("reader %d: after %d replies the sentinel's echo was expected, got %.120s", r, c.Rounds, v.String())
					}
					return
				}
				if v.Kind != respx.Array {
					errs <- fmt.Sprintf("reader %d, reply %d (%s): expected an array, got %.120s", r, i, reads[(i+r)%len(reads)][0], v.String())
					return
				}
				for _, e := range v.Arr {
					if !strings.HasPrefix(string(e.Str), tag+".") {
						errs <- fmt.Sprintf("reader %d, reply %d (%s): element %.60q was never stored in that value", r, i, reads[(i+r)%len(reads)][0], e.Str)
						return
					}
				}
			}
		}(r)
	}
	rg.Wait()
	stop.Store(true)
	wg.Wait()
	_, _ = setup.DoS(5*time.Second, "DEL", lk, hk, sk)
	close(errs)
	for e := range errs {
		if server.WaitExit(300 * time.Millisecond) {
			e += fmt.Sprintf(" | server died: %.300s", server.CrashReport())
			stopServer()
		}
		o.Fail = e
		return o
	}
	return o
}

func TestSharedValues(t *testing.T) {
	defer stopServer()
	kit.Check(t, kit.Spec[SharedCase]{Sub: "shared", Quick: 4, Thorough: 24,
		Gen: func(t *rapid.T) SharedCase {
			return SharedCase{Elems: rapid.SampledFrom([]int{200, 2000, 20000}).Draw(t, "elems"), Readers: rapid.IntRange(1, 4).Draw(t, "readers"),
				Writers: rapid.IntRange(1, 3).Draw(t, "writers"), Rounds: rapid.SampledFrom([]int{30, 120}).Draw(t, "rounds")}
		},
		Exec: execShared})
}

// ---------------------------------------------------------------- a client that reads its replies late

type LateCase struct {
	ValueKiB int `json:"value_kib"`
	Gets     int `json:"gets"`
	StallMs  int `json:"stall_ms"`
}

// execLate: a client pipelines reads of a large value - far more reply bytes than the socket buffers hold -
// and does not read for several seconds. A client that is slow is still owed its replies: when it reads,
// the stream is one complete well-formed reply per command, in order.
func execLate(c LateCase) kit.Outcome {
	if err := ensureServer(); err != nil {
		return kit.Outcome{Fail: "infrastructure: " + err.Error()}
	}
	o := kit.Outcome{NonTrivial: c.ValueKiB*c.Gets >= 8192 && c.StallMs >= 5000, Labels: []string{"client-reads-late"}}
	cn, err := server.Dial()
	if err != nil {
		return kit.Outcome{Fail: "infrastructure: " + err.Error()}
	}
	defer cn.Close()
	nonceSeq++
	key := fmt.Sprintf("late%d", nonceSeq)
	val := bytes.Repeat([]byte("0123456789abcdef"), c.ValueKiB*64)
	if _, err := cn.Do(20*time.Second, []byte("SET"), []byte(key), val); err != nil {
		return kit.Outcome{Fail: "infrastructure: SET: " + err.Error()}
	}
	var stream []byte
	for i := 0; i < c.Gets; i++ {
		stream = append(stream, respx.EncodeCommand([][]byte{[]byte("GET"), []byte(key)})...)
		stream = append(stream, respx.EncodeCommand([][]byte{[]byte("STRLEN"), []byte(key)})...)
	}
	nonce := "late-" + key
	stream = append(stream, respx.EncodeCommand([][]byte{[]byte("PING"), []byte(nonce)})...)
	if err := cn.Write(stream, 10*time.Second); err != nil {
		return kit.Outcome{Inconclusive: true}
	}
	time.Sleep(time.Duration(c.StallMs) * time.Millisecond)
	for i := 0; i < 2*c.Gets; i++ {
		v, err := cn.Read(20 * time.Second)
		if err != nil {
			if server.WaitExit(300 * time.Millisecond) {
				o.Fail = fmt.Sprintf("server died: %.300s", server.CrashReport())
				stopServer()
				return o
			}
			o.Fail = fmt.Sprintf("a client that started reading %d ms after pipelining %d commands (%d KiB of replies pending): reply %d: %v; undecoded bytes %.80q", c.StallMs, 2*c.Gets, c.ValueKiB*c.Gets, i, err, cn.R.Buffered())
			return o
		}
		if i%2 == 0 {
			if v.Kind != respx.Bulk || v.Null || !bytes.Equal(v.Str, val) {
				o.Fail = fmt.Sprintf("a client that read late: reply %d (GET) is not the stored value: kind %c, %d bytes", i, rune(v.Kind), len(v.Str))
				return o
			}
		} else if v.Kind != respx.Integer || v.Int != int64(len(val)) {
			o.Fail = fmt.Sprintf("a client that read late: reply %d (STRLEN) is %.80s", i, v.String())
			return o
		}
	}
	v, err := cn.Read(10 * time.Second)
	if err != nil || string(v.Str) != nonce {
		o.Fail = fmt.Sprintf("a client that read late: after %d replies the sentinel's echo was expected: %v %.80s", 2*c.Gets, err, v.String())
	}
	_, _ = cn.DoS(5*time.Second, "DEL", key)
	return o
}

func TestLateReader(t *testing.T) {
	defer stopServer()
	q := 0
	if kit.Shard() == 2%kit.Shards() {
		q = 1 // one case per quick run (it costs its stall time)
	}
	kit.Check(t, kit.Spec[LateCase]{Sub: "late", Quick: q, Thorough: 2, NoShrink: true,
		Gen: func(t *rapid.T) LateCase {
			return LateCase{ValueKiB: rapid.SampledFrom([]int{4096, 8192}).Draw(t, "kib"), Gets: rapid.IntRange(4, 8).Draw(t, "gets"), StallMs: rapid.SampledFrom([]int{5600, 7000}).Draw(t, "stall")}
		},
		Exec: execLate})
}
