// Package c03 checks C03: each command gets exactly one well-formed RESP reply, in request order,
// with payload bytes framed so that a conforming client decodes exactly the stored bytes.
package c03

import (
	"bytes"
	"fmt"
	"sort"
	"strconv"
	"strings"
	"sync"
	"testing"
	"time"

	"pgregory.net/rapid"

	"verifharness/c01"
	"verifharness/c09"
	"verifharness/c10"
	"verifharness/c11"
	"verifharness/c12"
	"verifharness/c18"
	"verifharness/gen"
	"verifharness/inproc"
	"verifharness/kit"
	"verifharness/prog"
	"verifharness/respx"
	"verifharness/srv"
)

func TestMain(m *testing.M) { kit.Main(m, "C03") }

type Case struct {
	Family string       `json:"family"`
	Prog   prog.Program `json:"prog"`
	Chunk  int          `json:"chunk,omitempty"` // TCP: write size (0 = one write)
}

func genMisc(t *rapid.T) prog.Program {
	var p prog.Program
	n := rapid.IntRange(1, 12).Draw(t, "n")
	for i := 0; i < n; i++ {
		k := gen.Value(t, "k")
		switch rapid.IntRange(0, 9).Draw(t, "m") {
		case 0:
			p.Ops = append(p.Ops, kit.MkCmd("PING", gen.Value(t, "v")))
		case 1:
			p.Ops = append(p.Ops, kit.MkCmd("select", gen.Pick(t, "db", "0", "1", "15", "16", "-1", "x", "\r\n")))
		case 2:
			p.Ops = append(p.Ops, kit.MkCmd("publish", k, gen.Value(t, "v")))
		case 3:
			p.Ops = append(p.Ops, kit.MkCmd(gen.Value(t, "unknown-command-name"), k))
		case 4:
			p.Ops = append(p.Ops, kit.MkCmd("type", k), kit.MkCmd("exists", k, k))
		case 5:
			p.Ops = append(p.Ops, kit.MkCmd("rconf", gen.Pick(t, "rc", "add", "delete", "update", "x\r\ny"), gen.Pick(t, "id", "1", "x", "\r\n"), gen.Value(t, "url")))
		case 6:
			p.Ops = append(p.Ops, kit.MkCmd("member", gen.Pick(t, "mem", "list", "x\r\ny", "")))
		case 7:
			p.Ops = append(p.Ops, kit.MkCmd("set", k, gen.Value(t, "v")), kit.MkCmd("expire", k, gen.Pick(t, "sec", "1000", "x\r\n", "-1"), gen.Pick(t, "eo", "nx", "zz\r\n+OK")), kit.MkCmd("ttl", k), kit.MkCmd("persist", k))
		case 8:
			p.Ops = append(p.Ops, kit.MkCmd("rename", k, gen.Value(t, "k2")), kit.MkCmd("keys", gen.Pick(t, "pat", "*", "[", "\r\n*")))
		default:
			p.Ops = append(p.Ops, kit.MkCmd("lpush", k, gen.Value(t, "e")), kit.MkCmd("blpop", k, "1"))
		}
	}
	return p
}

var families = []string{"strings", "lists", "hashes", "sets", "zsets", "streams", "misc"}

func genCase(t *rapid.T) Case {
	c := Case{Family: rapid.SampledFrom(families).Draw(t, "family")}
	switch c.Family {
	case "strings":
		c.Prog = c01.GenProgram(t)
	case "lists":
		c.Prog = c09.GenProgram(t)
	case "hashes":
		c.Prog = c10.GenProgram(t)
	case "sets":
		c.Prog = c11.GenProgram(t)
	case "zsets":
		c.Prog = c12.GenProgram(t)
	case "streams":
		c.Prog = c18.GenProgram(t)
	default:
		c.Prog = genMisc(t)
	}
	c.Chunk = rapid.SampledFrom([]int{0, 0, 1, 7, 64, 4096}).Draw(t, "chunk")
	return c
}

// pure payload readers: every string in their reply must be a byte string the program sent
var payloadReaders = map[string]bool{"get": true, "mget": true, "lrange": true, "lindex": true, "lpop": true, "rpop": true, "lmove": true,
	"blpop": true, "brpop": true, "smembers": true, "spop": true, "srandmember": true, "sunion": true, "sinter": true, "sdiff": true,
	"hget": true, "hmget": true, "hgetall": true, "hkeys": true, "hvals": true, "hrandfield": true, "zrange": true, "xrange": true,
	"keys": true, "ping": true}

// commands that derive new stored values from old ones (their results are model-checked elsewhere)
var deriving = map[string]bool{"append": true, "setrange": true, "incr": true, "decr": true, "incrby": true, "decrby": true,
	"incrbyfloat": true, "hincrby": true, "hincrbyfloat": true, "zadd": true, "xadd": true}

func numericish(b []byte) bool {
	if len(b) == 0 {
		return false
	}
	for _, c := range b {
		if !(c >= '0' && c <= '9') && c != '-' && c != '.' && c != '+' && c != 'e' && c != 'i' && c != 'n' && c != 'f' {
			return false
		}
	}
	return true
}

func strings_(v respx.Value, out *[][]byte) {
	switch v.Kind {
	case respx.Simple, respx.Bulk:
		if !v.Null {
			*out = append(*out, v.Str)
		}
	case respx.Array:
		for _, e := range v.Arr {
			strings_(e, out)
		}
	}
}

func labelsFor(c Case) (labels []string, nontrivial bool) {
	labels = []string{"family:" + c.Family}
	stored := false
	for _, op := range c.Prog.Ops {
		for _, a := range op[1:] {
			if strings.ContainsAny(string(a), "\r\n") {
				stored = true
			}
		}
		if stored && payloadReaders[strings.ToLower(string(op[0]))] {
			nontrivial = true
		}
	}
	return
}

// execInproc: one ToBytes() per command, strict decoding, payload fidelity.
func execInproc(c Case) kit.Outcome {
	labels, nt := labelsFor(c)
	o := kit.Outcome{Labels: labels, NonTrivial: nt}
	db := inproc.New(c.Prog.ShardNum, 0)
	sent := map[string]bool{"OK": true, "PONG": true, "none": true, "string": true, "list": true, "set": true, "hash": true, "zset": true, "stream": true}
	derived := false
	for i, op := range c.Prog.Ops {
		if len(op) == 0 {
			continue
		}
		name := strings.ToLower(string(op[0]))
		for _, a := range op {
			sent[string(a)] = true
		}
		if deriving[name] {
			derived = true
		}
		res := db.Do(op.Bytes())
		if res.Panic != "" {
			o.Fail = fmt.Sprintf("op %d %s: no reply: the executor panicked: %.300s", i, op.String(), res.Panic)
			return o
		}
		if res.DecErr != nil {
			o.Fail = fmt.Sprintf("op %d %s: the reply is not exactly one well-formed RESP value (%v): %.200q", i, op.String(), res.DecErr, res.Raw)
			return o
		}
		o.Labels = append(o.Labels, "reply-kind:"+name+":"+string(rune(res.Val.Kind)))
		if payloadReaders[name] && res.Val.Kind != respx.Error {
			if derived && (name == "get" || name == "mget" || name == "hget" || name == "hmget" || name == "hgetall" || name == "hvals" || name == "zrange" || name == "xrange") {
				continue
			}
			var strs [][]byte
			strings_(res.Val, &strs)
			for _, s := range strs {
				if !sent[string(s)] && !numericish(s) {
					o.Fail = fmt.Sprintf("op %d %s: the reply carries %.80q, which the client never sent as any argument: payload not framed/returned exactly (%s)", i, op.String(), s, res.Val.String())
					return o
				}
			}
		}
	}
	return o
}

func TestInproc(t *testing.T) {
	kit.Check(t, kit.Spec[Case]{Sub: "inproc", Quick: 1500, Thorough: 30000, Gen: genCase, Exec: execInproc})
}

// ---------------------------------------------------------------- TCP: pipelined, count and order

var server *srv.Server

func ensureServer() error {
	if server != nil && server.Alive() {
		return nil
	}
	if server != nil {
		server.Stop()
	}
	s, err := srv.Start(srv.Options{})
	server = s
	return err
}

func stopServer() {
	if server != nil {
		server.Stop()
		server = nil
	}
}

var nonceSeq int

func execTCP(c Case) kit.Outcome {
	labels, nt := labelsFor(c)
	o := kit.Outcome{Labels: append(labels, "tcp"), NonTrivial: nt && len(c.Prog.Ops) >= 2}
	if err := ensureServer(); err != nil {
		return kit.Outcome{Fail: "infrastructure: " + err.Error()}
	}
	conn, err := server.Dial()
	if err != nil {
		return kit.Outcome{Fail: "infrastructure: " + err.Error()}
	}
	defer conn.Close()
	// clean keyspace (cases share one server): every database the program may select, then back to 0
	wipe := func() {
		dbs := []string{"0"}
		for _, op := range c.Prog.Ops {
			if len(op) == 2 && strings.EqualFold(string(op[0]), "select") {
				if n, err := strconv.Atoi(string(op[1])); err == nil && n > 0 && n < 16 {
					dbs = append(dbs, strconv.Itoa(n))
				}
			}
		}
		for i := len(dbs) - 1; i >= 0; i-- {
			_, _ = conn.DoS(2*time.Second, "SELECT", dbs[i])
			if v, err := conn.DoS(5*time.Second, "KEYS", "*"); err == nil {
				for _, k := range v.Arr {
					_, _ = conn.Do(2*time.Second, []byte("DEL"), k.Str)
				}
			}
		}
	}
	wipe()
	nonceSeq++
	nonce := "nonce-" + strconv.Itoa(nonceSeq) + "-" + strconv.FormatInt(time.Now().UnixNano(), 36)
	var stream []byte
	var sentOps []kit.Cmd
	n := 0
	blocking := 0
	for _, op := range c.Prog.Ops {
		if len(op) == 0 {
			continue
		}
		name := strings.ToLower(string(op[0]))
		if name == "subscribe" {
			continue // Pub/Sub pushes are outside the statement
		}
		if name == "blpop" || name == "brpop" {
			blocking++
		}
		stream = append(stream, respx.EncodeCommand(op.Bytes())...)
		sentOps = append(sentOps, op)
		n++
	}
	stream = append(stream, respx.EncodeCommand([][]byte{[]byte("PING"), []byte(nonce)})...)
	go func() {
		if c.Chunk <= 0 {
			_ = conn.Write(stream, 20*time.Second)
			return
		}
		for i := 0; i < len(stream); i += c.Chunk {
			e := i + c.Chunk
			if e > len(stream) {
				e = len(stream)
			}
			if conn.Write(stream[i:e], 20*time.Second) != nil {
				return
			}
		}
	}()
	timeout := 5*time.Second + time.Duration(blocking)*1500*time.Millisecond
	got := 0
	var piped []respx.Value
	for {
		v, err := conn.Read(timeout)
		if err != nil {
			if !server.Alive() || server.WaitExit(500*time.Millisecond) {
				o.Fail = fmt.Sprintf("after %d of %d replies the server died: %.400s", got, n, server.CrashReport())
				stopServer()
				return o
			}
			if _, isFraming := err.(*respx.FramingError); isFraming {
				o.Fail = fmt.Sprintf("reply stream is not well-formed RESP after %d complete replies (%d commands pipelined): %v; next bytes %.120q", got, n, err, conn.R.Buffered())
				return o
			}
			o.Fail = fmt.Sprintf("only %d replies arrived for %d pipelined commands (+sentinel): %v; undecoded bytes %.120q", got, n, err, conn.R.Buffered())
			return o
		}
		if v.Kind == respx.Bulk && bytes.Equal(v.Str, []byte(nonce)) {
			if got != n {
				o.Fail = fmt.Sprintf("the sentinel's echo arrived after %d replies, but %d commands were pipelined before it: the reply stream is shifted", got, n)
				return o
			}
			break
		}
		piped = append(piped, v)
		got++
		if got > n {
			o.Fail = fmt.Sprintf("more than %d replies arrived before the sentinel's echo: extra reply %.100s", n, v.String())
			return o
		}
	}
	// replies appear in the order the commands were sent: the same commands sent one at a time, each
	// after the previous reply, on the same (emptied) keyspace must get the same replies, position by
	// position. (Commands whose reply depends on chance or on the clock are left out of the comparison.)
	if len(sentOps) > 60 || blocking > 3 {
		return o
	}
	wipe()
	for i, op := range sentOps {
		v, err := conn.Do(timeout, op.Bytes()...)
		if err != nil {
			o.Fail = fmt.Sprintf("command %d %s sent on its own after the pipelined pass got no reply: %v", i, op.String(), err)
			return o
		}
		if taints(op) {
			break // from here on the keyspace itself depends on chance or on the clock
		}
		if !comparable(op) {
			continue
		}
		if a, b := canonReply(op, piped[i]), canonReply(op, v); a != b {
			o.Fail = fmt.Sprintf("command %d of %d %s: reply %.200s when the commands were pipelined, %.200s when sent one at a time on the same initial keyspace: replies out of order or shifted", i, len(sentOps), op.String(), a, b)
			return o
		}
	}
	o.Labels = append(o.Labels, "pipelined-replies-compared-with-one-at-a-time")
	return o
}

// taints: the command changes the keyspace in a way that depends on chance or on the clock
func taints(op kit.Cmd) bool {
	switch strings.ToLower(string(op[0])) {
	case "spop":
		return true
	case "xadd":
		return !comparable(op)
	}
	return false
}

// comparable: the reply is a function of the commands before it
func comparable(op kit.Cmd) bool {
	switch strings.ToLower(string(op[0])) {
	case "spop", "srandmember", "hrandfield", "ttl", "subscribe", "publish":
		return false
	case "xadd":
		for _, a := range op[1:] {
			if string(a) == "*" || strings.HasSuffix(string(a), "-*") {
				return false
			}
		}
	}
	return true
}

var unorderedReply = map[string]int{"smembers": 1, "sunion": 1, "sinter": 1, "sdiff": 1, "hkeys": 1, "hvals": 1, "keys": 1, "hgetall": 2}

func canonReply(op kit.Cmd, v respx.Value) string {
	if step, ok := unorderedReply[strings.ToLower(string(op[0]))]; ok && v.Kind == respx.Array && !v.Null {
		var items []string
		for i := 0; i+step <= len(v.Arr); i += step {
			s := v.Arr[i].String()
			if step == 2 {
				s += "=>" + v.Arr[i+1].String()
			}
			items = append(items, s)
		}
		sort.Strings(items)
		return "unordered[" + strings.Join(items, " ") + "]"
	}
	return v.String()
}

func TestTCP(t *testing.T) {
	defer stopServer()
	kit.Check(t, kit.Spec[Case]{Sub: "tcp", Quick: 250, Thorough: 5000, Gen: genCase, Exec: execTCP})
}

// ---------------------------------------------------------------- replies on a connection that has subscribed

type SubCase struct {
	Channel kit.B     `json:"channel"`
	Pushes  int       `json:"pushes"`
	IdleMs  int       `json:"idle_ms"`
	Cmds    []kit.Cmd `json:"cmds"`
}

// execSubscribed: a connection that has SUBSCRIBEd and received pushes is still a connection: every
// command it sends afterwards - also after an idle period - gets exactly one reply, in order.
func execSubscribed(c SubCase) kit.Outcome {
	if err := ensureServer(); err != nil {
		return kit.Outcome{Fail: "infrastructure: " + err.Error()}
	}
	o := kit.Outcome{NonTrivial: c.Pushes > 0 && c.IdleMs >= 1000, Labels: []string{"subscribed-connection"}}
	sub, err := server.Dial()
	if err != nil {
		return kit.Outcome{Fail: "infrastructure: " + err.Error()}
	}
	defer sub.Close()
	pub, err := server.Dial()
	if err != nil {
		return kit.Outcome{Fail: "infrastructure: " + err.Error()}
	}
	defer pub.Close()
	nonceSeq++
	ch := fmt.Sprintf("c03sub%d:%s", nonceSeq, c.Channel)
	if _, err := sub.Do(3*time.Second, []byte("SUBSCRIBE"), []byte(ch)); err != nil {
		o.Fail = "SUBSCRIBE got no reply: " + err.Error()
		return o
	}
	for i := 0; i < c.Pushes; i++ {
		if _, err := pub.Do(3*time.Second, []byte("PUBLISH"), []byte(ch), []byte(fmt.Sprintf("m%d", i))); err != nil {
			o.Fail = "PUBLISH got no reply: " + err.Error()
			return o
		}
	}
	// the pushes arrive on the subscriber connection
	for i := 0; i < c.Pushes; i++ {
		v, err := sub.Read(3 * time.Second)
		if err != nil || v.Kind != respx.Array || len(v.Arr) != 3 {
			o.Fail = fmt.Sprintf("push %d of %d did not arrive intact on the subscribed connection: %v %s", i, c.Pushes, err, v.String())
			return o
		}
	}
	time.Sleep(time.Duration(c.IdleMs) * time.Millisecond)
	nonce := fmt.Sprintf("subnonce-%d", nonceSeq)
	var stream []byte
	for _, cmd := range c.Cmds {
		stream = append(stream, respx.EncodeCommand(cmd.Bytes())...)
	}
	stream = append(stream, respx.EncodeCommand([][]byte{[]byte("PING"), []byte(nonce)})...)
	if err := sub.Write(stream, 5*time.Second); err != nil {
		o.Fail = "write on the subscribed connection failed: " + err.Error()
		return o
	}
	got := 0
	for {
		v, err := sub.Read(4 * time.Second)
		if err != nil {
			if server.WaitExit(300 * time.Millisecond) {
				o.Fail = fmt.Sprintf("server died: %.300s", server.CrashReport())
				stopServer()
				return o
			}
			o.Fail = fmt.Sprintf("a connection that subscribed, received %d push(es) and then idled %d ms got only %d replies for %d commands (+sentinel): %v", c.Pushes, c.IdleMs, got, len(c.Cmds), err)
			return o
		}
		if v.Kind == respx.Bulk && string(v.Str) == nonce {
			if got != len(c.Cmds) {
				o.Fail = fmt.Sprintf("the sentinel's echo arrived after %d replies for %d commands", got, len(c.Cmds))
			}
			return o
		}
		got++
		if got > len(c.Cmds) {
			o.Fail = "more replies than commands before the sentinel's echo"
			return o
		}
	}
}

func TestSubscribedConn(t *testing.T) {
	defer stopServer()
	kit.Check(t, kit.Spec[SubCase]{Sub: "subscribed", Quick: 3, Thorough: 40, NoShrink: true,
		Gen: func(t *rapid.T) SubCase {
			c := SubCase{Channel: kit.B(gen.Value(t, "ch")), Pushes: rapid.IntRange(0, 3).Draw(t, "pushes"), IdleMs: rapid.SampledFrom([]int{0, 300, 1200, 2300}).Draw(t, "idle")}
			n := rapid.IntRange(1, 5).Draw(t, "ncmds")
			for i := 0; i < n; i++ {
				c.Cmds = append(c.Cmds, rapid.SampledFrom([]kit.Cmd{kit.MkCmd("PING"), kit.MkCmd("SET", "subk", "v"), kit.MkCmd("GET", "subk"),
					kit.MkCmd("LRANGE", "nolist", "0", "-1"), kit.MkCmd("NOSUCH"), kit.MkCmd("INCR", "subctr")}).Draw(t, "cmd"))
			}
			return c
		},
		Exec: execSubscribed})
}

// ---------------------------------------------------------------- several connections receiving replies at once

type ConcCase struct {
	Conns   int `json:"conns"`
	Rounds  int `json:"rounds"`
	Elems   int `json:"elems"`
	ElemLen int `json:"elem_len"`
}

// execConcurrent: every connection builds its own list/set/hash of tagged payloads and then reads them
// back in a pipeline while the other connections do the same: each reply must be well-formed and carry
// exactly that connection's own payloads (a reply assembled in shared memory shows up as foreign bytes).
func execConcurrent(c ConcCase) kit.Outcome {
	if err := ensureServer(); err != nil {
		return kit.Outcome{Fail: "infrastructure: " + err.Error()}
	}
	o := kit.Outcome{NonTrivial: c.Conns >= 2, Labels: []string{"concurrent-connections"}}
	nonceSeq++
	base := nonceSeq
	errs := make(chan string, c.Conns)
	var wg sync.WaitGroup
	for ci := 0; ci < c.Conns; ci++ {
		wg.Add(1)
		go func(ci int) {
			defer wg.Done()
			conn, err := server.Dial()
			if err != nil {
				errs <- "infrastructure: " + err.Error()
				return
			}
			defer conn.Close()
			tag := fmt.Sprintf("c%d-%d", base, ci)
			key := "conc:" + tag
			args := [][]byte{[]byte("RPUSH"), []byte(key)}
			var want []string
			for e := 0; e < c.Elems; e++ {
				el := strings.Repeat(fmt.Sprintf("%s.%d|", tag, e), 1+c.ElemLen/(len(tag)+4))
				want = append(want, el)
				args = append(args, []byte(el))
			}
			if _, err := conn.Do(5*time.Second, args...); err != nil {
				errs <- "RPUSH: " + err.Error()
				return
			}
			var stream []byte
			for r := 0; r < c.Rounds; r++ {
				stream = append(stream, respx.EncodeCommand([][]byte{[]byte("LRANGE"), []byte(key), []byte("0"), []byte("-1")})...)
			}
			go func() { _ = conn.Write(stream, 20*time.Second) }()
			for r := 0; r < c.Rounds; r++ {
				v, err := conn.Read(10 * time.Second)
				if err != nil {
					errs <- fmt.Sprintf("connection %d, reply %d of %d: %v; undecoded bytes %.100q", ci, r, c.Rounds, err, conn.R.Buffered())
					return
				}
				if v.Kind != respx.Array || len(v.Arr) != len(want) {
					errs <- fmt.Sprintf("connection %d, reply %d: expected its %d elements, got %.120s", ci, r, len(want), v.String())
					return
				}
				for i := range want {
					if string(v.Arr[i].Str) != want[i] {
						errs <- fmt.Sprintf("connection %d, reply %d, element %d: got %.80q, stored %.80q", ci, r, i, v.Arr[i].Str, want[i])
						return
					}
				}
			}
			_, _ = conn.Do(5*time.Second, []byte("DEL"), []byte(key))
		}(ci)
	}
	wg.Wait()
	close(errs)
	for e := range errs {
		if strings.HasPrefix(e, "infrastructure") {
			return kit.Outcome{Fail: e}
		}
		if server.WaitExit(300 * time.Millisecond) {
			e += fmt.Sprintf(" | server died: %.300s", server.CrashReport())
			stopServer()
		}
		o.Fail = e
		return o
	}
	return o
}

func TestConcurrentConns(t *testing.T) {
	defer stopServer()
	kit.Check(t, kit.Spec[ConcCase]{Sub: "concurrent", Quick: 10, Thorough: 200,
		Gen: func(t *rapid.T) ConcCase {
			return ConcCase{Conns: rapid.IntRange(2, 8).Draw(t, "conns"), Rounds: rapid.SampledFrom([]int{20, 100, 400}).Draw(t, "rounds"),
				Elems: rapid.SampledFrom([]int{2, 50, 400, 800}).Draw(t, "elems"), ElemLen: rapid.SampledFrom([]int{8, 40, 1500}).Draw(t, "elemlen")}
		},
		Exec: execConcurrent})
}

func TestReplay(t *testing.T) {
	defer stopServer()
	kit.Replay[Case](t, map[string]func(kit.RawCase) kit.Outcome{"inproc": kit.ReplaySub(execInproc), "tcp": kit.ReplaySub(execTCP), "subscribed": kit.ReplaySub(execSubscribed), "concurrent": kit.ReplaySub(execConcurrent), "roundtrip": kit.ReplaySub(execRoundTrip), "halfclose": kit.ReplaySub(execHalfClose), "storm": kit.ReplaySub(execStorm), "shared": kit.ReplaySub(execShared), "late": kit.ReplaySub(execLate)})
}
