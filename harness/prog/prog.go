// Package prog runs command programs in-process against RedisGO and the reference model, comparing
// every reply and, after every step, the whole observable keyspace ("observation sweep").
package prog

import (
	"fmt"
	"sort"
	"strings"
	"time"

	"verifharness/inproc"
	"verifharness/kit"
	"verifharness/model"
	"verifharness/respx"
)

// Program is a generated case: a prologue (seeding keys of other types; replies are compared too)
// and the operations proper.
type Program struct {
	ShardNum int       `json:"shard_num,omitempty"`
	Ops      []kit.Cmd `json:"ops"`
}

// Options configure the runner for one property.
type Options struct {
	// Sweep: after every op, compare the observable keyspace of these keys with the model.
	SweepKeys func(p Program) []string
	// Check, if set, is called after every op with the live DB (structural self-checks).
	Check func(db *inproc.DB, keys []string) error
	// NonTrivial decides the property's non-triviality rule for an executed program.
	NonTrivial func(p Program, st *Stats) bool
	// SkipSweepKind disables the sweep for keys whose model kind is listed (known findings).
	NoTTLSweep bool
}

// Stats describe what a run exercised (labels for evidence).
type Stats struct {
	WrongType   int
	Errors      int
	Unspecified bool
	Notes       map[string]int
	Cmds        map[string]int
}

// KeysOf returns every distinct argument that is used in key position by the program; the
// per-property generators pass their key pools instead, this is the fallback.
func KeysOf(p Program, pool []string) []string {
	seen := map[string]bool{}
	var out []string
	for _, k := range pool {
		if !seen[k] {
			seen[k] = true
			out = append(out, k)
		}
	}
	return out
}

func fail(i int, cmd kit.Cmd, format string, a ...any) string {
	return fmt.Sprintf("op %d %s: %s", i, cmd.String(), fmt.Sprintf(format, a...))
}

// Run executes the program. The model clock is the wall clock in whole seconds (programs that care
// about deadlines use TTLs far in the future, C06 has its own runner).
func Run(p Program, o Options) (out kit.Outcome, st *Stats) {
	st = &Stats{Notes: map[string]int{}, Cmds: map[string]int{}}
	db := inproc.New(p.ShardNum, 0)
	m := model.NewDB()
	keys := o.SweepKeys(p)
	for i, cmd := range p.Ops {
		if len(cmd) == 0 {
			continue
		}
		now := time.Now().Unix()
		want := m.Exec(cmd.Bytes(), now)
		res := db.Do(cmd.Bytes())
		st.Cmds[strings.ToLower(string(cmd[0]))]++
		if res.Panic != "" {
			out.Fail = fail(i, cmd, "executor panicked: %s", firstLines(res.Panic, 12))
			return
		}
		if want.T == '?' {
			st.Unspecified = true
			st.Notes["unspecified: "+want.Note]++
			break // state unknown from here on
		}
		if res.DecErr != nil {
			// framing is C03's subject; here a reply that cannot be decoded cannot be compared
			out.Fail = fail(i, cmd, "reply is not well-formed RESP (%v): %q", res.DecErr, res.Raw)
			return
		}
		if want.T == 'e' {
			st.Errors++
			if want.E == "WRONGTYPE" {
				st.WrongType++
			}
		}
		if want.T == 'x' {
			st.Notes["dontcare: "+want.Note]++
		}
		if err := model.Match(want, res.Val); err != nil {
			out.Fail = fail(i, cmd, "%v", err)
			return
		}
		if msg := Sweep(db, m, keys, o); msg != "" {
			out.Fail = fail(i, cmd, "after this command: %s", msg)
			return
		}
		if o.Check != nil {
			if err := o.Check(db, keys); err != nil {
				out.Fail = fail(i, cmd, "after this command: structural check: %v", err)
				return
			}
		}
	}
	if o.NonTrivial != nil {
		out.NonTrivial = o.NonTrivial(p, st)
	}
	for n := range st.Notes {
		out.Labels = append(out.Labels, n)
	}
	if st.WrongType > 0 {
		out.Labels = append(out.Labels, "wrongtype-path")
	}
	sort.Strings(out.Labels)
	return
}

func firstLines(s string, n int) string {
	lines := strings.Split(s, "\n")
	if len(lines) > n {
		lines = lines[:n]
	}
	return strings.Join(lines, "\n")
}

func do(db *inproc.DB, args ...string) (respx.Value, string) {
	cmd := make([][]byte, len(args))
	for i, a := range args {
		cmd[i] = []byte(a)
	}
	r := db.Do(cmd)
	if r.Panic != "" {
		return respx.Value{}, fmt.Sprintf("%q panicked: %s", args, firstLines(r.Panic, 10))
	}
	if r.DecErr != nil {
		return respx.Value{}, fmt.Sprintf("%q: reply not well-formed (%v): %q", args, r.DecErr, r.Raw)
	}
	return r.Val, ""
}

// Sweep compares the observable keyspace with the model through read-only commands.
func Sweep(db *inproc.DB, m *model.DB, keys []string, o Options) string {
	now := time.Now().Unix()
	obs := func(args ...string) string {
		cmd := make([][]byte, len(args))
		for i, a := range args {
			cmd[i] = []byte(a)
		}
		want := m.Exec(cmd, now)
		if want.T == '?' {
			return ""
		}
		got, msg := do(db, args...)
		if msg != "" {
			return msg
		}
		if err := model.Match(want, got); err != nil {
			return fmt.Sprintf("observation %s: %v", kit.MkCmd(args...).String(), err)
		}
		return ""
	}
	for _, k := range keys {
		if msg := obs("EXISTS", k); msg != "" {
			return msg
		}
		if msg := obs("TYPE", k); msg != "" {
			return msg
		}
		var msg string
		switch kindOf(m, k) {
		case model.KString:
			msg = obs("GET", k)
		case model.KList:
			if msg = obs("LRANGE", k, "0", "-1"); msg == "" {
				msg = obs("LLEN", k)
			}
		case model.KSet:
			if msg = obs("SMEMBERS", k); msg == "" {
				msg = obs("SCARD", k)
			}
		case model.KHash:
			if msg = obs("HGETALL", k); msg == "" {
				msg = obs("HLEN", k)
			}
		case model.KZSet:
			msg = obs("ZRANGE", k, "0", "-1", "WITHSCORES")
		case model.KStream:
			msg = obs("XRANGE", k, "-", "+")
		}
		if msg != "" {
			return msg
		}
		if !o.NoTTLSweep {
			if msg := obs("TTL", k); msg != "" {
				return msg
			}
		}
	}
	return obs("KEYS", "*")
}

func kindOf(m *model.DB, k string) model.Kind {
	if v, ok := m.Keys[k]; ok {
		return v.Kind
	}
	return model.KNone
}
