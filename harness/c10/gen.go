// Package c10 checks C10: hash commands maintain an exact field-to-value map.
package c10

import (
	"strings"

	"pgregory.net/rapid"

	"verifharness/gen"
	"verifharness/kit"
	"verifharness/prog"
)


var keys = []string{"h1", "h2", "H1", "vol", "str", "lst", "h3", "h4"} // vol: hash with a deadline; str / lst: other types; h3 h4: rarely written (refused commands meet a missing key) // vol: hash with a deadline; str / lst: other types
var fields = []string{"", "f", "F", "1", "\x00\xffb", "f\r\ng"}

// focus: the key most operations of the current program go to (sequences that need several steps on one
// key - read, change, read again - are rare when every operation draws its key afresh)
var focus string

func key(t *rapid.T) string {
	if focus != "" && rapid.IntRange(0, 2).Draw(t, "onfocus") > 0 {
		return focus
	}
	return rapid.SampledFrom(keys).Draw(t, "key")
}
func field(t *rapid.T) string { return rapid.SampledFrom(fields).Draw(t, "field") }

func value(t *rapid.T) string {
	switch rapid.IntRange(0, 5).Draw(t, "vk") {
	case 0:
		return ""
	case 1:
		return gen.Int(t, "iv")
	case 2:
		return gen.Float(t, "fv")
	}
	return gen.Value(t, "v")
}

func genOp(t *rapid.T) kit.Cmd {
	c := func(name string, args ...string) kit.Cmd {
		return kit.MkCmd(append([]string{gen.CaseOf(t, name)}, args...)...)
	}
	k := key(t)
	if rapid.IntRange(0, 29).Draw(t, "bigfloat") == 0 {
		// one field collects huge increments: finite + finite must not silently become infinite
		return c("hincrbyfloat", k, "big", gen.Pick(t, "bigby", "1.7e308", "1.7e308", "-1.7e308", "1e308", "-1e308"))
	}
	switch gen.Weighted(t, "cmd", []int{12, 4, 6, 4, 4, 2, 2, 3, 3, 3, 6, 6, 4, 5, 2}) {
	case 0:
		n := rapid.IntRange(1, 3).Draw(t, "pairs")
		args := []string{k}
		for i := 0; i < n; i++ {
			args = append(args, field(t), value(t))
		}
		if rapid.IntRange(0, 11).Draw(t, "odd") == 0 {
			args = args[:len(args)-1]
		}
		return c("hset", args...)
	case 1:
		return c("hsetnx", k, field(t), value(t))
	case 2:
		return c("hget", k, field(t))
	case 3:
		n := rapid.IntRange(1, 4).Draw(t, "n")
		args := []string{k}
		for i := 0; i < n; i++ {
			args = append(args, field(t))
		}
		return c("hmget", args...)
	case 4:
		return c("hgetall", k)
	case 5:
		return c("hkeys", k)
	case 6:
		return c("hvals", k)
	case 7:
		return c("hlen", k)
	case 8:
		return c("hexists", k, field(t))
	case 9:
		return c("hstrlen", k, field(t))
	case 10:
		n := rapid.IntRange(1, 3).Draw(t, "n")
		args := []string{k}
		for i := 0; i < n; i++ {
			args = append(args, field(t))
		}
		return c("hdel", args...)
	case 11:
		by := gen.Pick(t, "by", "1", "-1", "5", "0", "-0", "4611686018427387904", "-4611686018427387904", "9223372036854775807", "-9223372036854775808", "abc", "", "1.5")
		return c("hincrby", k, field(t), by)
	case 12:
		by := gen.Pick(t, "byf", "0.5", "-0.5", "1", "0", "-0.0", "1e300", "-1e300", "abc", "", "2.25", "1.7e308", "1.7e308", "-1.7e308", "1e308", "inf", "-inf", "nan", "+Inf", "infinity", "1e400", "0x10", " 1")
		return c("hincrbyfloat", k, field(t), by)
	case 13:
		switch rapid.IntRange(0, 3).Draw(t, "form") {
		case 0:
			return c("hrandfield", k)
		case 1:
			return c("hrandfield", k, gen.Pick(t, "cnt", "0", "1", "-1", "3", "-3", "8", "-8", "x"))
		default:
			return c("hrandfield", k, gen.Pick(t, "cnt", "0", "1", "-1", "3", "-3", "8", "x"), gen.CaseOf(t, gen.Pick(t, "wv", "withvalues", "withvalues", "bogus")))
		}
	default:
		name := gen.Pick(t, "an", "hset", "hget", "hdel", "hlen", "hgetall", "hincrby", "hincrbyfloat", "hexists", "hstrlen", "hmget", "hkeys", "hvals", "hsetnx", "hrandfield")
		n := rapid.IntRange(0, 5).Draw(t, "arity")
		var args []string
		for i := 0; i < n; i++ {
			args = append(args, gen.Pick(t, "aa", "h1", "f", "1", "x"))
		}
		return c(name, args...)
	}
}

func GenProgram(t *rapid.T) prog.Program {
	p := prog.Program{ShardNum: rapid.SampledFrom([]int{1, 16}).Draw(t, "shards")}
	if rapid.IntRange(0, 2).Draw(t, "prologue") > 0 {
		p.Ops = append(p.Ops, kit.MkCmd("SET", "str", "v"), kit.MkCmd("RPUSH", "lst", "x"), kit.MkCmd("HSET", "vol", "f", "1"), kit.MkCmd("EXPIRE", "vol", "5000"))
	}
	focus = ""
	if rapid.Bool().Draw(t, "focused") {
		focus = rapid.SampledFrom(keys[:4]).Draw(t, "focus")
	}
	n := rapid.SampledFrom([]int{1, 3, 6, 12, 25, 40}).Draw(t, "len")
	for i := 0; i < n; i++ {
		if rapid.IntRange(0, 14).Draw(t, "idiom") == 0 {
			// random picks around a change of the field set that keeps its size
			k := key(t)
			p.Ops = append(p.Ops, kit.MkCmd("hrandfield", k, gen.Pick(t, "c1", "-8", "3", "8")), kit.MkCmd("hdel", k, field(t)),
				kit.MkCmd("hset", k, field(t), value(t)), kit.MkCmd("hrandfield", k, gen.Pick(t, "c2", "-8", "-8", "8", "3"), "withvalues"))
			continue
		}
		p.Ops = append(p.Ops, genOp(t))
	}
	return p
}

func Opts() prog.Options {
	return prog.Options{
		SweepKeys: func(prog.Program) []string { return keys },
		NonTrivial: func(p prog.Program, st *prog.Stats) bool {
			// >= 2 writes to one field, or a delete followed by a read, or an empty-string value stored
			writes := map[string]int{}
			deleted := false
			for _, op := range p.Ops {
				name := strings.ToLower(string(op[0]))
				switch name {
				case "hset", "hsetnx", "hincrby", "hincrbyfloat":
					if len(op) >= 4 {
						writes[string(op[1])+"\x00"+string(op[2])]++
						if writes[string(op[1])+"\x00"+string(op[2])] >= 2 {
							return true
						}
						if name == "hset" && len(op[3]) == 0 {
							return true
						}
					}
				case "hdel":
					deleted = true
				case "hget", "hgetall", "hmget", "hexists", "hlen":
					if deleted {
						return true
					}
				}
			}
			return false
		},
	}
}

func Exec(p prog.Program) kit.Outcome {
	o, _ := prog.Run(p, Opts())
	return o
}

