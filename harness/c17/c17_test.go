package c17

import (
	"fmt"
	"runtime/debug"
	"sort"
	"strings"
	"testing"
	"time"

	"github.com/innovationb1ue/RedisGO/util"
	"pgregory.net/rapid"

	"verifharness/globref"
	"verifharness/inproc"
	"verifharness/kit"
)

func TestMain(m *testing.M) { kit.Main(m, "C17") }

// safeMatch calls the code under test; a panic is reported, not propagated.
func safeMatch(p, s string) (res bool, panicked string) {
	defer func() {
		if r := recover(); r != nil {
			panicked = fmt.Sprintf("%v", r)
			_ = debug.Stack
		}
	}()
	return util.PattenMatch(p, s), ""
}

type pair struct {
	Pattern kit.B `json:"pattern"`
	Subject kit.B `json:"subject"`
}

func checkPair(c pair) kit.Outcome {
	p, s := string(c.Pattern), string(c.Subject)
	defined, want := globref.Expect(p, s)
	got, pan := safeMatch(p, s)
	o := kit.Outcome{}
	if pan != "" {
		o.Fail = fmt.Sprintf("PattenMatch(%q,%q) panicked: %s", p, s, pan)
		return o
	}
	if !defined {
		o.Labels = []string{"unspecified"}
		return o
	}
	o.NonTrivial = strings.ContainsAny(p, "*?[\\")
	if got != want {
		o.Fail = fmt.Sprintf("PattenMatch(%q,%q) = %v, documented grammar says %v", p, s, got, want)
	}
	return o
}

// enumerate calls f for every string over alpha of length 0..maxLen, shortest first.
func enumerate(alpha string, maxLen int, f func(string)) {
	var rec func(prefix []byte, n int)
	rec = func(prefix []byte, n int) {
		if len(prefix) == n {
			f(string(prefix))
			return
		}
		for i := 0; i < len(alpha); i++ {
			rec(append(prefix, alpha[i]), n)
		}
	}
	for n := 0; n <= maxLen; n++ {
		rec(nil, n)
	}
}

// TestExhaustive enumerates every pattern up to a length bound over an alphabet containing every
// metacharacter against every subject up to a bound.
func TestExhaustive(t *testing.T) {
	patAlpha := "ab*?[]^-\\"
	subAlpha := "ab-]"
	patLen, subLen := 5, 4
	if kit.Thorough() {
		patLen, subLen = 6, 5
		subAlpha = "ab-]^"
	}
	failures := exhaustive(t, patAlpha, patLen, subAlpha, subLen)
	// second space: bytes >= 0x80, alone and as well-formed multi-byte UTF-8 sequences ("?" and a set item
	// are one byte, not one character), and ranges written high-low over three ordered bytes
	failures += exhaustive(t, "a?*[^]\xc3\xa9", 4, "a\xc3\xa9\xe2\x82", 4)
	failures += exhaustive(t, "[]^-acz", 6, "abcz", 2)
	kit.C.SetExtra("exhaustive_done", failures == 0)
	if failures > 3 {
		t.Errorf("%d failing pairs in total (first 3 of each space saved)", failures)
	}
}

func exhaustive(t *testing.T, patAlpha string, patLen int, subAlpha string, subLen int) int {
	var subjects []string
	enumerate(subAlpha, subLen, func(s string) { subjects = append(subjects, s) })
	idx := 0
	var evals, nt, unspec, broken, reversed int64
	failures := 0
	shard, shards := kit.Shard(), kit.Shards()
	enumerate(patAlpha, patLen, func(p string) {
		idx++
		if idx%shards != shard {
			return
		}
		toks, cls := globref.Parse(p)
		meta := strings.ContainsAny(p, "*?[\\")
		for _, s := range subjects {
			evals++
			got, pan := safeMatch(p, s)
			defined, want := globref.Decide(toks, cls, s)
			switch cls {
			case globref.Broken:
				broken++
			case globref.Reversed:
				if defined {
					reversed++
				}
			}
			if !defined {
				unspec++
				if pan == "" {
					continue
				}
			}
			if meta && defined {
				nt++
			}
			if pan != "" || got != want {
				failures++
				if failures <= 3 {
					c := pair{kit.B(p), kit.B(s)}
					o := checkPair(c)
					js := mustJSON(c)
					kit.C.Failure("pair", js, o.Fail)
					t.Errorf("%s", o.Fail)
				}
			}
		}
	})
	kit.C.Bulk(evals, nt, "exhaustive-pairs")
	kit.C.Label("unspecified-pairs", unspec)
	kit.C.Label("broken-pattern-pairs", broken)
	kit.C.Label("reversed-range-pairs-decided", reversed)
	kit.C.AddSample(map[string]any{"engine": "exhaustive", "pattern_alphabet": patAlpha, "max_pattern_len": patLen,
		"subject_alphabet": subAlpha, "max_subject_len": subLen, "example": pair{"a*[^b]?", "ab-]"}})
	return failures
}

func mustJSON(v any) []byte {
	b, err := jsonMarshal(v)
	if err != nil {
		panic(err)
	}
	return b
}

// genPattern draws a long pattern dense in metacharacters.
func genPattern(t *rapid.T) string {
	n := rapid.SampledFrom([]int{1, 3, 6, 12, 25, 40}).Draw(t, "plen")
	var sb strings.Builder
	stars := 0
	for i := 0; i < n; i++ {
		switch rapid.IntRange(0, 9).Draw(t, "tok") {
		case 0, 1, 2:
			if stars >= 5 && !strings.HasSuffix(sb.String(), "*") {
				sb.WriteByte('a') // bound the backtracking depth: at most 5 star groups
				continue
			}
			if !strings.HasSuffix(sb.String(), "*") {
				stars++
			}
			sb.WriteByte('*')
		case 3:
			sb.WriteByte('?')
		case 4:
			sb.WriteString(rapid.SampledFrom([]string{"[ab]", "[^a]", "[a-c]", "[^a-b]", "[\\]]", "[a\\-]", "[*?]", "[abc-e]", "[c-a]", "[^c-b]", "[\xc3\xa9]", "[\x80-\xff]"}).Draw(t, "cls"))
		case 5:
			sb.WriteString(rapid.SampledFrom([]string{"\\*", "\\?", "\\[", "\\\\", "\\a"}).Draw(t, "esc"))
		case 6:
			sb.WriteString(rapid.SampledFrom([]string{"[", "\\", "]", "^", "-", "[a", "[^"}).Draw(t, "odd"))
		default:
			sb.WriteByte(rapid.SampledFrom([]byte("abc")).Draw(t, "lit"))
		}
	}
	return sb.String()
}

func genSubject(t *rapid.T) string {
	n := rapid.SampledFrom([]int{0, 1, 2, 5, 12, 24}).Draw(t, "slen")
	var sb strings.Builder
	for i := 0; i < n; i++ {
		if rapid.IntRange(0, 7).Draw(t, "mb") == 0 {
			// well-formed multi-byte sequences: the grammar counts bytes, not characters
			sb.WriteString(rapid.SampledFrom([]string{"\xc3\xa9", "\xe2\x82\xac", "\xf0\x9f\x98\x80"}).Draw(t, "seq"))
			continue
		}
		sb.WriteByte(rapid.SampledFrom([]byte("aaabbc*?[]\\-^\x00\xff")).Draw(t, "sb"))
	}
	return sb.String()
}

// execLong runs the reference first (plain backtracking, the slowest sensible algorithm); if it
// finishes quickly and the code under test has not finished 10 s later, matching "does not terminate".
func execLong(c pair) kit.Outcome {
	start := time.Now()
	globref.Expect(string(c.Pattern), string(c.Subject))
	if time.Since(start) > 100*time.Millisecond {
		return kit.Outcome{Inconclusive: true, Labels: []string{"reference-slow"}}
	}
	done := make(chan kit.Outcome, 1)
	go func() { done <- checkPair(c) }()
	select {
	case o := <-done:
		return o
	case <-time.After(10 * time.Second):
		return kit.Outcome{Fail: fmt.Sprintf("PattenMatch(%q,%q) did not return within 10 s (reference: <100 ms)", c.Pattern, c.Subject)}
	}
}

// TestLong: long star-dense patterns: agreement with the reference and termination within a bound.
func TestLong(t *testing.T) {
	kit.Check(t, kit.Spec[pair]{Sub: "pair", Quick: 6000, Thorough: 500000,
		Gen:  func(t *rapid.T) pair { return pair{kit.B(genPattern(t)), kit.B(genSubject(t))} },
		Exec: execLong})
}

type keysCase struct {
	Keys    []kit.B `json:"keys"`
	Pattern kit.B   `json:"pattern"`
}

func execKeys(c keysCase) kit.Outcome {
	db := inproc.New(0, 0)
	live := map[string]bool{}
	for _, k := range c.Keys {
		r := db.Do([][]byte{[]byte("RPUSH"), []byte(k), []byte("x")})
		if r.Panic != "" {
			return kit.Outcome{Fail: "RPUSH panicked: " + r.Panic}
		}
		live[string(k)] = true
	}
	p := string(c.Pattern)
	_, cls := globref.Parse(p)
	r := db.Do([][]byte{[]byte("KEYS"), []byte(p)})
	if r.Panic != "" {
		return kit.Outcome{Fail: fmt.Sprintf("KEYS %q panicked: %s", p, r.Panic)}
	}
	if cls == globref.Unspecified {
		return kit.Outcome{Labels: []string{"unspecified"}}
	}
	if r.DecErr != nil || r.Val.Kind != '*' || r.Val.Null {
		return kit.Outcome{Fail: fmt.Sprintf("KEYS %q: reply is not an array: %q", p, r.Raw)}
	}
	var got, want []string
	undefined := map[string]bool{} // keys for which the grammar leaves the answer open (reversed ranges)
	for k := range live {
		d, w := globref.Expect(p, k)
		if !d {
			undefined[k] = true
		} else if w {
			want = append(want, k)
		}
	}
	for _, e := range r.Val.Arr {
		if !undefined[string(e.Str)] {
			got = append(got, string(e.Str))
		}
	}
	sort.Strings(got)
	sort.Strings(want)
	o := kit.Outcome{NonTrivial: len(want) > 0 && len(want) < len(live) && strings.ContainsAny(p, "*?[\\")}
	if len(undefined) > 0 {
		o.Labels = append(o.Labels, "keys-with-undefined-answer")
	}
	if fmt.Sprintf("%q", got) != fmt.Sprintf("%q", want) {
		o.Fail = fmt.Sprintf("KEYS %q over %q returned %q, grammar says %q (keys with an undefined answer left out: %d)", p, c.Keys, got, want, len(undefined))
	}
	return o
}

// TestKeys: KEYS on a populated keyspace returns exactly the matching live keys (as a set).
func TestKeys(t *testing.T) {
	kit.Check(t, kit.Spec[keysCase]{Sub: "keys", Quick: 1500, Thorough: 100000,
		Gen: func(t *rapid.T) keysCase {
			n := rapid.IntRange(1, 12).Draw(t, "nkeys")
			c := keysCase{}
			for i := 0; i < n; i++ {
				c.Keys = append(c.Keys, kit.B(genSubject(t)))
			}
			if rapid.Bool().Draw(t, "short") {
				c.Pattern = kit.B(rapid.StringOfN(rapid.RuneFrom([]rune("ab*?[]^-\\")), 0, 5, -1).Draw(t, "pat"))
			} else {
				c.Pattern = kit.B(genPattern(t))
			}
			return c
		},
		Exec: execKeys})
}

func TestReplay(t *testing.T) {
	kit.Replay[pair](t, map[string]func(kit.RawCase) kit.Outcome{
		"pair":     kit.ReplaySub(execLong),
		"keys":     kit.ReplaySub(execKeys),
		"conckeys": kit.ReplaySub(execConcKeys),
		"volkeys":  kit.ReplaySub(execVolKeys),
	})
}
