package c17

import (
	"fmt"
	"sort"
	"strings"
	"sync"
	"testing"
	"time"

	"pgregory.net/rapid"

	"verifharness/globref"
	"verifharness/inproc"
	"verifharness/kit"
)

// KEYS issued by several clients at the same time over a keyspace nobody writes to: every reply is exactly
// the set of live keys matching that client's pattern (whatever buffers the implementation reuses
// between calls belong to one call at a time).
type ConcKeysCase struct {
	Keys     []kit.B `json:"keys"`
	Patterns []kit.B `json:"patterns"` // one per client
	Rounds   int     `json:"rounds"`
	Writer   bool    `json:"writer,omitempty"` // another client keeps overwriting the values of the existing keys
}

func execConcKeys(c ConcKeysCase) kit.Outcome {
	db := inproc.New(0, 0)
	live := map[string]bool{}
	for _, k := range c.Keys {
		if r := db.Do([][]byte{[]byte("SET"), []byte(k), []byte("1")}); r.Panic != "" {
			return kit.Outcome{Fail: "SET panicked: " + r.Panic}
		}
		live[string(k)] = true
	}
	o := kit.Outcome{NonTrivial: len(c.Patterns) >= 2 && len(live) >= 4, Labels: []string{"concurrent-KEYS"}}
	type exp struct {
		want      []string
		undefined map[string]bool
		skip      bool
	}
	exps := make([]exp, len(c.Patterns))
	for i, p := range c.Patterns {
		_, cls := globref.Parse(string(p))
		if cls == globref.Unspecified {
			exps[i].skip = true
			continue
		}
		exps[i].undefined = map[string]bool{}
		for k := range live {
			d, w := globref.Expect(string(p), k)
			if !d {
				exps[i].undefined[k] = true
			} else if w {
				exps[i].want = append(exps[i].want, k)
			}
		}
		sort.Strings(exps[i].want)
	}
	var wg sync.WaitGroup
	fails := make(chan string, len(c.Patterns)+1)
	start := make(chan struct{})
	for i, p := range c.Patterns {
		if exps[i].skip {
			continue
		}
		wg.Add(1)
		go func(i int, p kit.B) {
			defer wg.Done()
			<-start
			for r := 0; r < c.Rounds; r++ {
				res := db.Do([][]byte{[]byte("KEYS"), []byte(p)})
				if res.Panic != "" {
					fails <- fmt.Sprintf("KEYS %q panicked while other clients ran KEYS: %.300s", string(p), res.Panic)
					return
				}
				if res.DecErr != nil || res.Val.Kind != '*' {
					fails <- fmt.Sprintf("KEYS %q: reply is not an array: %.100q", string(p), res.Raw)
					return
				}
				var got []string
				for _, e := range res.Val.Arr {
					if !exps[i].undefined[string(e.Str)] {
						got = append(got, string(e.Str))
					}
				}
				sort.Strings(got)
				if strings.Join(got, "\x00") != strings.Join(exps[i].want, "\x00") {
					fails <- fmt.Sprintf("round %d: KEYS %q returned %q while %d other clients ran KEYS on the same unchanging keyspace; alone it returns %q", r, string(p), got, len(c.Patterns)-1, exps[i].want)
					return
				}
			}
		}(i, p)
	}
	// a writer that overwrites the values of existing keys: the set of keys, and with it every expected
	// answer, stays the same, but the keyspace is being written while it is listed
	stopW := make(chan struct{})
	var ww sync.WaitGroup
	if c.Writer {
		ww.Add(1)
		go func() {
			defer ww.Done()
			<-start
			for i := 0; ; i++ {
				select {
				case <-stopW:
					return
				default:
				}
				k := c.Keys[i%len(c.Keys)]
				if res := db.Do([][]byte{[]byte("SET"), []byte(k), []byte(fmt.Sprintf("%d", i))}); res.Panic != "" {
					fails <- "SET panicked while clients ran KEYS: " + res.Panic
					return
				}
			}
		}()
	}
	close(start)
	wg.Wait()
	close(stopW)
	ww.Wait()
	select {
	case f := <-fails:
		o.Fail = f
	default:
	}
	return o
}

func TestKeysConcurrent(t *testing.T) {
	kit.Check(t, kit.Spec[ConcKeysCase]{Sub: "conckeys", Quick: 25, Thorough: 1500, TrackCase: true,
		Gen: func(t *rapid.T) ConcKeysCase {
			c := ConcKeysCase{Rounds: rapid.SampledFrom([]int{50, 300}).Draw(t, "rounds"), Writer: rapid.Bool().Draw(t, "writer")}
			for i, n := 0, rapid.IntRange(6, 40).Draw(t, "nkeys"); i < n; i++ {
				c.Keys = append(c.Keys, kit.B(genSubject(t)+fmt.Sprintf("%d", i%7)))
			}
			for i, n := 0, rapid.IntRange(2, 6).Draw(t, "clients"); i < n; i++ {
				if rapid.Bool().Draw(t, "simple") {
					c.Patterns = append(c.Patterns, kit.B(rapid.SampledFrom([]string{"*", "*1", "a*", "*[0-3]", "?*", "*b*", "[^a]*"}).Draw(t, "sp")))
				} else {
					c.Patterns = append(c.Patterns, kit.B(genPattern(t)))
				}
			}
			return c
		},
		Exec: execConcKeys})
}

// KEYS over a keyspace in which some keys have just reached their deadline and have not been removed yet
// (the timer of a deadline attached late in a second fires late in the next one): matching terminates
// and lists exactly the matching keys that have no deadline; whether a key whose deadline second has
// just begun is still listed is left open (whole-second deadlines).
type VolKeysCase struct {
	Persistent []kit.B `json:"persistent"`
	Volatile   []kit.B `json:"volatile"`
	Patterns   []kit.B `json:"patterns"`
}

func execVolKeys(c VolKeysCase) kit.Outcome {
	db := inproc.New(0, 0)
	o := kit.Outcome{NonTrivial: len(c.Volatile) > 0, Labels: []string{"KEYS-right-after-deadlines"}}
	vol := map[string]bool{}
	for _, k := range c.Persistent {
		db.Do([][]byte{[]byte("SET"), []byte("p:" + string(k)), []byte("1")})
	}
	// attach the deadlines late in a second, probe early in the next
	now := time.Now()
	arm := now.Truncate(time.Second).Add(880 * time.Millisecond)
	if arm.Before(now) {
		arm = arm.Add(time.Second)
	}
	time.Sleep(time.Until(arm))
	for i, k := range c.Volatile {
		name := "v:" + string(k)
		vol[name] = true
		switch i % 3 {
		case 0:
			db.Do([][]byte{[]byte("SET"), []byte(name), []byte("1"), []byte("EX"), []byte("1")})
		case 1:
			db.Do([][]byte{[]byte("RPUSH"), []byte(name), []byte("x")})
			db.Do([][]byte{[]byte("EXPIRE"), []byte(name), []byte("1")})
		default:
			db.Do([][]byte{[]byte("SADD"), []byte(name), []byte("x")})
			db.Do([][]byte{[]byte("EXPIRE"), []byte(name), []byte("1")})
		}
	}
	time.Sleep(time.Until(arm.Truncate(time.Second).Add(time.Second + 40*time.Millisecond)))
	for _, p := range c.Patterns {
		_, cls := globref.Parse(string(p))
		if cls == globref.Unspecified {
			continue
		}
		type res struct{ r inproc.Result }
		done := make(chan res, 1)
		go func() { done <- res{db.Do([][]byte{[]byte("KEYS"), []byte(p)})} }()
		var r inproc.Result
		select {
		case x := <-done:
			r = x.r
		case <-time.After(4 * time.Second):
			o.Fail = fmt.Sprintf("KEYS %q did not return within 4 s on a keyspace of %d keys, %d of which had just reached their deadline", string(p), len(c.Persistent)+len(c.Volatile), len(c.Volatile))
			return o
		}
		if r.Panic != "" {
			o.Fail = fmt.Sprintf("KEYS %q panicked: %.300s", string(p), r.Panic)
			return o
		}
		if r.DecErr != nil || r.Val.Kind != '*' {
			o.Fail = fmt.Sprintf("KEYS %q: reply is not an array: %.100q", string(p), r.Raw)
			return o
		}
		var got, want []string
		for _, e := range r.Val.Arr {
			if !vol[string(e.Str)] {
				got = append(got, string(e.Str))
			}
		}
		for _, k := range c.Persistent {
			name := "p:" + string(k)
			if d, w := globref.Expect(string(p), name); d && w {
				want = append(want, name)
			} else if !d {
				// undefined for this key: drop it from both sides
				for i := 0; i < len(got); i++ {
					if got[i] == name {
						got = append(got[:i], got[i+1:]...)
						i--
					}
				}
			}
		}
		sort.Strings(got)
		sort.Strings(want)
		want = dedupe(want)
		if strings.Join(got, "\x00") != strings.Join(want, "\x00") {
			o.Fail = fmt.Sprintf("KEYS %q right after %d other keys reached their deadline returned %q of the keys without a deadline, the grammar says %q", string(p), len(c.Volatile), got, want)
			return o
		}
	}
	// the keyspace still answers
	done := make(chan struct{}, 1)
	go func() {
		db.Do([][]byte{[]byte("EXISTS"), []byte("p:x")})
		db.Do([][]byte{[]byte("SET"), []byte("v:again"), []byte("1")})
		done <- struct{}{}
	}()
	select {
	case <-done:
	case <-time.After(3 * time.Second):
		o.Fail = "after KEYS ran over keys that had just reached their deadline, EXISTS / SET do not return: a lock was left behind"
	}
	return o
}

func dedupe(a []string) []string {
	var out []string
	for i, s := range a {
		if i == 0 || s != a[i-1] {
			out = append(out, s)
		}
	}
	return out
}

func TestKeysVolatile(t *testing.T) {
	kit.Check(t, kit.Spec[VolKeysCase]{Sub: "volkeys", Quick: 2, Thorough: 40, NoShrink: true,
		Gen: func(t *rapid.T) VolKeysCase {
			var c VolKeysCase
			seen := map[string]bool{}
			for i, n := 0, rapid.IntRange(2, 10).Draw(t, "np"); i < n; i++ {
				k := genSubject(t) + fmt.Sprint(i)
				if !seen[k] {
					seen[k] = true
					c.Persistent = append(c.Persistent, kit.B(k))
				}
			}
			for i, n := 0, rapid.IntRange(1, 10).Draw(t, "nv"); i < n; i++ {
				c.Volatile = append(c.Volatile, kit.B(genSubject(t)+fmt.Sprint(i)))
			}
			c.Patterns = []kit.B{"*", "v:*", "p:*", kit.B(genPattern(t)), kit.B("?:" + genPattern(t))}
			return c
		},
		Exec: execVolKeys})
}
