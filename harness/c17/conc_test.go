package c17

import (
	"fmt"
	"sort"
	"strings"
	"sync"
	"testing"

	"pgregory.net/rapid"

	"verifharness/globref"
	"verifharness/inproc"
	"verifharness/kit"
)

// KEYS issued by several clients at the same time over a keyspace nobody writes to: every reply is exactly
// the set of live keys matching that client's pattern (whatever buffers the implementation reuses
// between calls belong to one call at a time).
type ConcKeysCase struct {
	Keys     []kit.B `json:"keys"`
	Patterns []kit.B `json:"patterns"` // one per client
	Rounds   int     `json:"rounds"`
	Writer   bool    `json:"writer,omitempty"` // another client keeps overwriting the values of the existing keys
}

func execConcKeys(c ConcKeysCase) kit.Outcome {
	db := inproc.New(0, 0)
	live := map[string]bool{}
	for _, k := range c.Keys {
		if r := db.Do([][]byte{[]byte("SET"), []byte(k), []byte("1")}); r.Panic != "" {
			return kit.Outcome{Fail: "SET panicked: " + r.Panic}
		}
		live[string(k)] = true
	}
	o := kit.Outcome{NonTrivial: len(c.Patterns) >= 2 && len(live) >= 4, Labels: []string{"concurrent-KEYS"}}
	type exp struct {
		want      []string
		undefined map[string]bool
		skip      bool
	}
	exps := make([]exp, len(c.Patterns))
	for i, p := range c.Patterns {
		_, cls := globref.Parse(string(p))
		if cls == globref.Unspecified {
			exps[i].skip = true
			continue
		}
		exps[i].undefined = map[string]bool{}
		for k := range live {
			d, w := globref.Expect(string(p), k)
			if !d {
				exps[i].undefined[k] = true
			} else if w {
				exps[i].want = append(exps[i].want, k)
			}
		}
		sort.Strings(exps[i].want)
	}
	var wg sync.WaitGroup
	fails := make(chan string, len(c.Patterns)+1)
	start := make(chan struct{})
	for i, p := range c.Patterns {
		if exps[i].skip {
			continue
		}
		wg.Add(1)
		go func(i int, p kit.B) {
			defer wg.Done()
			<-start
			for r := 0; r < c.Rounds; r++ {
				res := db.Do([][]byte{[]byte("KEYS"), []byte(p)})
				if res.Panic != "" {
					fails <- fmt.Sprintf("KEYS %q panicked while other clients ran KEYS: %.300s", string(p), res.Panic)
					return
				}
				if res.DecErr != nil || res.Val.Kind != '*' {
					fails <- fmt.Sprintf("KEYS %q: reply is not an array: %.100q", string(p), res.Raw)
					return
				}
				var got []string
				for _, e := range res.Val.Arr {
					if !exps[i].undefined[string(e.Str)] {
						got = append(got, string(e.Str))
					}
				}
				sort.Strings(got)
				if strings.Join(got, "\x00") != strings.Join(exps[i].want, "\x00") {
					fails <- fmt.Sprintf("round %d: KEYS %q returned %q while %d other clients ran KEYS on the same unchanging keyspace; alone it returns %q", r, string(p), got, len(c.Patterns)-1, exps[i].want)
					return
				}
			}
		}(i, p)
	}
	// a writer that overwrites the values of existing keys: the set of keys, and with it every expected
	// answer, stays the same, but the keyspace is being written while it is listed
	stopW := make(chan struct{})
	var ww sync.WaitGroup
	if c.Writer {
		ww.Add(1)
		go func() {
			defer ww.Done()
			<-start
			for i := 0; ; i++ {
				select {
				case <-stopW:
					return
				default:
				}
				k := c.Keys[i%len(c.Keys)]
				if res := db.Do([][]byte{[]byte("SET"), []byte(k), []byte(fmt.Sprintf("%d", i))}); res.Panic != "" {
					fails <- "SET panicked while clients ran KEYS: " + res.Panic
					return
				}
			}
		}()
	}
	close(start)
	wg.Wait()
	close(stopW)
	ww.Wait()
	select {
	case f := <-fails:
		o.Fail = f
	default:
	}
	return o
}

func TestKeysConcurrent(t *testing.T) {
	kit.Check(t, kit.Spec[ConcKeysCase]{Sub: "conckeys", Quick: 25, Thorough: 600, TrackCase: true,
		Gen: func(t *rapid.T) ConcKeysCase {
			c := ConcKeysCase{Rounds: rapid.SampledFrom([]int{50, 300}).Draw(t, "rounds"), Writer: rapid.Bool().Draw(t, "writer")}
			for i, n := 0, rapid.IntRange(6, 40).Draw(t, "nkeys"); i < n; i++ {
				c.Keys = append(c.Keys, kit.B(genSubject(t)+fmt.Sprintf("%d", i%7)))
			}
			for i, n := 0, rapid.IntRange(2, 6).Draw(t, "clients"); i < n; i++ {
				if rapid.Bool().Draw(t, "simple") {
					c.Patterns = append(c.Patterns, kit.B(rapid.SampledFrom([]string{"*", "*1", "a*", "*[0-3]", "?*", "*b*", "[^a]*"}).Draw(t, "sp")))
				} else {
					c.Patterns = append(c.Patterns, kit.B(genPattern(t)))
				}
			}
			return c
		},
		Exec: execConcKeys})
}
