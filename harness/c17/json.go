package c17

import "encoding/json"

func jsonMarshal(v any) ([]byte, error) { return json.Marshal(v) }
