// Package lin checks concurrent histories for linearizability with porcupine, using the Redis
// reference model as the sequential specification.
package lin

import (
	"time"

	"github.com/anishathalye/porcupine"

	"verifharness/kit"
	"verifharness/model"
	"verifharness/respx"
)

// In is the input of one operation.
type In struct {
	Cmd  kit.Cmd
	Part string // partition label (operations with different labels are independent)
}

// Out is the observed reply; Unknown = the client never got a reply (timed out / connection lost):
// the operation may have taken effect at any time after its invocation, or never.
type Out struct {
	Val     respx.Value
	Unknown bool
}

const nowFixed = 1_000_000 // histories never use expiry

var nm = porcupine.NondeterministicModel{
	Init: func() []interface{} { return []interface{}{model.NewDB()} },
	Step: func(state, input, output interface{}) []interface{} {
		db := state.(*model.DB)
		in, out := input.(In), output.(Out)
		c := db.Clone()
		want := c.Exec(in.Cmd.Bytes(), nowFixed)
		if out.Unknown {
			// either it never happened, or it happened (with whatever reply)
			if want.T == 'x' || want.T == 'p' || want.T == '?' {
				return []interface{}{db} // outcome not determined by the model alone: assume no effect is observable
			}
			return []interface{}{db, c}
		}
		if want.T == '?' {
			return []interface{}{c}
		}
		if model.Match(want, out.Val) != nil {
			return nil
		}
		return []interface{}{c}
	},
	Equal: func(a, b interface{}) bool { return a.(*model.DB).Canon() == b.(*model.DB).Canon() },
	DescribeOperation: func(input, output interface{}) string {
		in, out := input.(In), output.(Out)
		if out.Unknown {
			return in.Cmd.String() + " -> ?"
		}
		return in.Cmd.String() + " -> " + out.Val.String()
	},
	DescribeState: func(s interface{}) string { return s.(*model.DB).Canon() },
}

// Model returns the porcupine model, partitioned by In.Part.
func Model() porcupine.Model {
	m := nm.ToModel()
	m.Partition = func(history []porcupine.Operation) [][]porcupine.Operation {
		parts := map[string][]porcupine.Operation{}
		var order []string
		for _, op := range history {
			p := op.Input.(In).Part
			if _, ok := parts[p]; !ok {
				order = append(order, p)
			}
			parts[p] = append(parts[p], op)
		}
		out := make([][]porcupine.Operation, 0, len(parts))
		for _, p := range order {
			out = append(out, parts[p])
		}
		return out
	}
	return m
}

// Check runs the checker with a time budget. Unknown = budget exhausted (inconclusive).
func Check(history []porcupine.Operation, budget time.Duration) porcupine.CheckResult {
	return porcupine.CheckOperationsTimeout(Model(), history, budget)
}

// Describe renders a history compactly for failure messages.
func Describe(history []porcupine.Operation, max int) string {
	s := ""
	for i, op := range history {
		if i >= max {
			s += "…"
			break
		}
		s += "\n  c" + itoa(op.ClientId) + " [" + itoa64(op.Call) + "," + itoa64(op.Return) + "] " + nm.DescribeOperation(op.Input, op.Output)
	}
	return s
}

func itoa(i int) string { return itoa64(int64(i)) }
func itoa64(i int64) string {
	if i == 0 {
		return "0"
	}
	neg := i < 0
	if neg {
		i = -i
	}
	var b []byte
	for i > 0 {
		b = append([]byte{byte('0' + i%10)}, b...)
		i /= 10
	}
	if neg {
		b = append([]byte{'-'}, b...)
	}
	return string(b)
}
