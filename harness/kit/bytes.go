package kit

import (
	"encoding/json"
	"fmt"
	"strings"
)

// B is a byte string that survives JSON unchanged and stays readable: printable ASCII is kept,
// every other byte (and backslash, double quote) is written as \xHH.
type B string

func (b B) MarshalJSON() ([]byte, error) {
	var sb strings.Builder
	for i := 0; i < len(b); i++ {
		c := b[i]
		if c >= 0x20 && c < 0x7f && c != '\\' && c != '"' {
			sb.WriteByte(c)
		} else {
			fmt.Fprintf(&sb, `\x%02x`, c)
		}
	}
	return json.Marshal(sb.String())
}

func (b *B) UnmarshalJSON(data []byte) error {
	var s string
	if err := json.Unmarshal(data, &s); err != nil {
		return err
	}
	var out []byte
	for i := 0; i < len(s); i++ {
		if s[i] == '\\' && i+3 < len(s) && s[i+1] == 'x' {
			var v byte
			if _, err := fmt.Sscanf(s[i+2:i+4], "%02x", &v); err == nil {
				out = append(out, v)
				i += 3
				continue
			}
		}
		out = append(out, s[i])
	}
	*b = B(out)
	return nil
}

// Cmd is one command: argument vector of byte strings.
type Cmd []B

func (c Cmd) Bytes() [][]byte {
	out := make([][]byte, len(c))
	for i, a := range c {
		out[i] = []byte(a)
	}
	return out
}

func (c Cmd) String() string {
	parts := make([]string, len(c))
	for i, a := range c {
		b, _ := a.MarshalJSON()
		parts[i] = string(b)
	}
	return strings.Join(parts, " ")
}

// MkCmd builds a Cmd from Go strings.
func MkCmd(args ...string) Cmd {
	c := make(Cmd, len(args))
	for i, a := range args {
		c[i] = B(a)
	}
	return c
}
