// Package kit is the shared runner of the verification harness: it owns seeds, tiers, per-case
// statistics (-> evidence), replay files and the known-findings table.  Every check is a Go test in
// its own package that calls kit.Check (rapid-driven cases) or the Collector API directly
// (enumerations), and a TestReplay that re-executes one saved case with no generator in the loop.
package kit

import (
	"bufio"
	"encoding/json"
	"flag"
	"fmt"
	"hash/fnv"
	"os"
	"path/filepath"
	"runtime"
	"sort"
	"strconv"
	"strings"
	"sync"
	"testing"
	"time"

	"pgregory.net/rapid"
)

// ---------------------------------------------------------------- environment

func envInt(name string, def int) int {
	if v := os.Getenv(name); v != "" {
		if n, err := strconv.Atoi(v); err == nil {
			return n
		}
	}
	return def
}

// Root is /verif (or VERIF_ROOT).
func Root() string {
	if v := os.Getenv("VERIF_ROOT"); v != "" {
		return v
	}
	return "/verif"
}

// Tier is "quick" or "thorough".
func Tier() string {
	if os.Getenv("VERIF_TIER") == "thorough" {
		return "thorough"
	}
	return "quick"
}

func Thorough() bool { return Tier() == "thorough" }

// Seed is VERIF_SEED (default 1).
func Seed() int { return envInt("VERIF_SEED", 1) }

// Shard / Shards identify this process among the parallel shards started by the driver.
func Shard() int  { return envInt("VERIF_SHARD", 0) }
func Shards() int { return envInt("VERIF_SHARDS", 1) }

// RapidSeed derives the rapid seed for a named sub-check; never 0 (rapid: 0 = random).
func RapidSeed(sub string) uint64 {
	h := fnv.New64a()
	fmt.Fprintf(h, "%d/%d/%s", Seed(), Shard(), sub)
	s := h.Sum64() >> 1
	if s == 0 {
		s = 1
	}
	return s
}

// Pick returns q in the quick tier and th in the thorough tier.
func Pick(q, th int) int {
	if Thorough() {
		return th
	}
	return q
}

// WorkDir returns a scratch directory private to this run (under /verif/.work).
func WorkDir() string {
	d := os.Getenv("VERIF_WORK")
	if d == "" {
		d = filepath.Join(Root(), ".work", "adhoc")
	}
	_ = os.MkdirAll(d, 0o755)
	return d
}

// ---------------------------------------------------------------- known findings

type Finding struct {
	Property string
	ID       string
	Witness  string
	Text     string
}

var (
	knownOnce sync.Once
	known     map[string]Finding
)

func loadKnown() {
	known = map[string]Finding{}
	f, err := os.Open(filepath.Join(Root(), "known-findings.txt"))
	if err != nil {
		return
	}
	defer f.Close()
	sc := bufio.NewScanner(f)
	for sc.Scan() {
		line := strings.TrimSpace(sc.Text())
		if !strings.HasPrefix(line, "finding:") {
			continue
		}
		head, text, _ := strings.Cut(strings.TrimPrefix(line, "finding:"), "::")
		fd := Finding{Text: strings.TrimSpace(text)}
		for _, kv := range strings.Fields(head) {
			k, v, _ := strings.Cut(kv, "=")
			switch k {
			case "property":
				fd.Property = v
			case "id":
				fd.ID = v
			case "witness":
				fd.Witness = v
			}
		}
		if fd.ID != "" {
			known[fd.ID] = fd
		}
	}
}

// Known reports whether finding id is listed (as "finding:", not "fixed:") in known-findings.txt.
// Generators use it to exclude the region of a recorded defect by construction; when the entry is
// removed or turned into "fixed:", the region is generated again automatically.
func Known(id string) bool {
	knownOnce.Do(loadKnown)
	_, ok := known[id]
	return ok
}

// ---------------------------------------------------------------- collector

// Outcome is what executing one case produced.
type Outcome struct {
	Fail       string   // "" = property held on this case
	NonTrivial bool     // by the property's stated rule
	Labels     []string // classification labels (histogram in evidence)
	Excluded   []string // known-finding ids whose region was avoided while generating this case
	Inconclusive bool   // budget/time-out style outcome: counted, never a violation
	// ReplayJSON, if set on a failing outcome, is saved as the replay case instead of the generated
	// case (checks that can cut a failing case down themselves, e.g. one scenario out of a batch).
	ReplayJSON []byte
}

type Collector struct {
	mu           sync.Mutex
	Property     string
	Evaluations  int64
	NonTrivial   int64
	Inconclusive int64
	distinct     map[uint64]struct{}
	Labels       map[string]int64
	Excluded     map[string]int64
	Samples      []json.RawMessage
	Extra        map[string]any
	Failures     []FailureRec
	InfraMsgs    []string
	start        time.Time
	maxSamples   int
	bulkDistinct int64
	longSamples  int
}

type FailureRec struct {
	Sub    string `json:"sub"`
	Replay string `json:"replay"`
	Msg    string `json:"msg"`
}

var C = &Collector{distinct: map[uint64]struct{}{}, Labels: map[string]int64{}, Excluded: map[string]int64{},
	Extra: map[string]any{}, start: time.Now(), maxSamples: 5}

func Hash(b []byte) uint64 {
	h := fnv.New64a()
	h.Write(b)
	return h.Sum64()
}

// Record adds one executed case to the statistics. caseJSON is the canonical text of the case.
func (c *Collector) Record(caseJSON []byte, o Outcome) {
	c.mu.Lock()
	defer c.mu.Unlock()
	c.Evaluations++
	if o.Inconclusive {
		c.Inconclusive++
	}
	for _, l := range o.Labels {
		c.Labels[l]++
	}
	for _, e := range o.Excluded {
		c.Excluded[e]++
	}
	if o.NonTrivial {
		c.NonTrivial++
		h := Hash(caseJSON)
		if _, ok := c.distinct[h]; !ok {
			c.distinct[h] = struct{}{}
			if len(c.Samples) < c.maxSamples {
				if len(caseJSON) < 4000 {
					c.Samples = append(c.Samples, append(json.RawMessage(nil), caseJSON...))
				} else if c.longSamples < 2 {
					// long cases: keep the beginning as text so that a reader still sees what they look like
					c.longSamples++
					t, _ := json.Marshal(map[string]any{"truncated_case_json": string(caseJSON[:1500]) + " ...", "full_length": len(caseJSON)})
					c.Samples = append(c.Samples, t)
				}
			}
		}
	}
}

// RecordHash is Record for enumerations that do not want to keep case text around.
func (c *Collector) RecordHash(h uint64, nontrivial bool, label string) {
	c.mu.Lock()
	defer c.mu.Unlock()
	c.Evaluations++
	if label != "" {
		c.Labels[label]++
	}
	if nontrivial {
		c.NonTrivial++
		c.distinct[h] = struct{}{}
	}
}

// Bulk adds counts for enumerations where every case is distinct by construction.
func (c *Collector) Bulk(evals, nontrivialDistinct int64, label string) {
	c.mu.Lock()
	defer c.mu.Unlock()
	c.Evaluations += evals
	c.NonTrivial += nontrivialDistinct
	c.bulkDistinct += nontrivialDistinct
	if label != "" {
		c.Labels[label] += evals
	}
}

func (c *Collector) AddSample(v any) {
	b, err := json.Marshal(v)
	if err != nil {
		return
	}
	c.mu.Lock()
	defer c.mu.Unlock()
	if len(c.Samples) < c.maxSamples+3 {
		c.Samples = append(c.Samples, b)
	}
}

func (c *Collector) Label(l string, n int64) {
	c.mu.Lock()
	c.Labels[l] += n
	c.mu.Unlock()
}

func (c *Collector) SetExtra(k string, v any) {
	c.mu.Lock()
	c.Extra[k] = v
	c.mu.Unlock()
}

// MaxExtra keeps the maximum of an integer-valued extra.
func (c *Collector) MaxExtra(k string, v int64) {
	c.mu.Lock()
	if old, ok := c.Extra[k].(int64); !ok || v > old {
		c.Extra[k] = v
	}
	c.mu.Unlock()
}

// Failure saves a failing case as a replay file and remembers it; returns the replay path.
func (c *Collector) Failure(sub string, caseJSON []byte, msg string) string {
	id := c.Property
	if id == "" {
		id = os.Getenv("VERIF_PROPERTY")
	}
	dir := filepath.Join(Root(), "replays", "found")
	_ = os.MkdirAll(dir, 0o755)
	path := filepath.Join(dir, fmt.Sprintf("%s-%s-%016x.json", id, sub, Hash(caseJSON)))
	wrapper := map[string]any{"property": id, "sub": sub, "msg": msg, "case": json.RawMessage(caseJSON)}
	b, _ := json.MarshalIndent(wrapper, "", " ")
	_ = os.WriteFile(path, b, 0o644)
	c.mu.Lock()
	c.Failures = append(c.Failures, FailureRec{Sub: sub, Replay: path, Msg: msg})
	c.mu.Unlock()
	fmt.Printf("FAILURE property=%s sub=%s replay=%s :: %s\n", id, sub, path, firstLine(msg))
	return path
}

func firstLine(s string) string {
	if i := strings.IndexByte(s, '\n'); i >= 0 {
		s = s[:i]
	}
	if len(s) > 400 {
		s = s[:400]
	}
	return s
}

type statsFile struct {
	Property     string            `json:"property"`
	Shard        int               `json:"shard"`
	Seed         int               `json:"seed"`
	Tier         string            `json:"tier"`
	Evaluations  int64             `json:"evaluations"`
	NonTrivial   int64             `json:"nontrivial"`
	Inconclusive int64             `json:"inconclusive"`
	Distinct     []string          `json:"distinct_hashes"`
	BulkDistinct int64             `json:"bulk_distinct"`
	Labels       map[string]int64  `json:"labels"`
	Excluded     map[string]int64  `json:"excluded"`
	Samples      []json.RawMessage `json:"samples"`
	Extra        map[string]any    `json:"extra"`
	Failures     []FailureRec      `json:"failures"`
	InfraMsgs    []string          `json:"infra_msgs"`
	WallS        float64           `json:"wall_s"`
}

// Flush writes the statistics to $VERIF_STATS_OUT (if set). Called from TestMain.
func (c *Collector) Flush() {
	out := os.Getenv("VERIF_STATS_OUT")
	if out == "" {
		return
	}
	c.mu.Lock()
	defer c.mu.Unlock()
	sf := statsFile{Property: c.Property, Shard: Shard(), Seed: Seed(), Tier: Tier(), Evaluations: c.Evaluations,
		NonTrivial: c.NonTrivial, Inconclusive: c.Inconclusive, Labels: c.Labels, Excluded: c.Excluded,
		Samples: c.Samples, Extra: c.Extra, Failures: c.Failures, InfraMsgs: c.InfraMsgs, WallS: time.Since(c.start).Seconds(),
		BulkDistinct: c.bulkDistinct}
	hs := make([]string, 0, len(c.distinct))
	for h := range c.distinct {
		hs = append(hs, strconv.FormatUint(h, 16))
	}
	sort.Strings(hs)
	sf.Distinct = hs
	b, _ := json.Marshal(sf)
	tmp := out + ".tmp"
	if err := os.WriteFile(tmp, b, 0o644); err == nil {
		_ = os.Rename(tmp, out)
	}
}

// Main is the TestMain body of every check package.
func Main(m *testing.M, property string) {
	C.Property = property
	code := m.Run()
	C.Flush()
	os.Exit(code)
}

// ---------------------------------------------------------------- rapid-driven checks

// Spec describes one rapid-driven sub-check of a property.
//   Gen draws a case (plain data, JSON-marshalable); Exec runs it against the code under test.
type Spec[T any] struct {
	Sub      string
	Quick    int // cases per shard, quick tier
	Thorough int // cases per shard, thorough tier
	Gen      func(t *rapid.T) T
	Exec     func(c T) Outcome
	NoShrink bool // expensive cases that minimise themselves (Outcome.ReplayJSON): skip rapid's shrinking
	// TrackCase writes every case to $VERIF_WORK/current-case.json before it is executed, so that the
	// driver can name the case when the code under test aborts the whole test binary (fatal runtime
	// errors such as "concurrent map writes" cannot be recovered).
	TrackCase bool
	// Watchdog > 0: a case whose execution does not return within this time is examined instead of
	// waited for until the driver kills the shard: when the executing goroutine sits inside the code under
	// test, at the same place, in two stack samples taken 5 s apart (parked on a lock = deadlock, or
	// running = endless loop), the case fails with that place; otherwise it is inconclusive. For checks
	// whose cases normally take milliseconds (in-process programs); the bound is far above anything load
	// can explain.
	Watchdog time.Duration
}

// watchdog runs f; see Spec.Watchdog.
func watchdog(d time.Duration, f func() Outcome) Outcome {
	done := make(chan Outcome, 1)
	idc := make(chan string, 1)
	go func() {
		var b [64]byte
		n := runtime.Stack(b[:], false)
		hdr := string(b[:n]) // "goroutine 123 [running]:..."
		if i := strings.Index(hdr, " ["); i > 0 {
			hdr = hdr[:i]
		}
		idc <- hdr
		done <- f()
	}()
	hdr := <-idc
	select {
	case o := <-done:
		return o
	case <-time.After(d):
	}
	where := func() (state, frame string) {
		buf := make([]byte, 8<<20)
		buf = buf[:runtime.Stack(buf, true)]
		for _, blk := range strings.Split(string(buf), "\n\n") {
			if !strings.HasPrefix(blk, hdr+" [") {
				continue
			}
			lines := strings.Split(blk, "\n")
			state = strings.TrimSuffix(strings.TrimPrefix(lines[0], hdr+" ["), "]:")
			if i := strings.IndexAny(state, ",]"); i > 0 {
				state = state[:i]
			}
			for i := 1; i+1 < len(lines); i += 2 {
				if strings.Contains(lines[i], "innovationb1ue/RedisGO") || strings.Contains(lines[i], "go.etcd.io/") {
					return state, strings.TrimSpace(lines[i]) + " " + strings.TrimSpace(strings.SplitN(strings.TrimSpace(lines[i+1]), " ", 2)[0])
				}
			}
			return state, ""
		}
		return "", ""
	}
	st1, fr1 := where()
	select {
	case o := <-done:
		return o
	case <-time.After(5 * time.Second):
	}
	st2, fr2 := where()
	if fr1 != "" && fr1 == fr2 {
		kind := "endless loop or a wait that nothing ends"
		if strings.Contains(st2, "sync.") || strings.Contains(st2, "semacquire") {
			kind = "deadlock: parked on a lock"
		}
		return Outcome{NonTrivial: true, Fail: fmt.Sprintf("the case did not return within %v: the executing goroutine sits in the code under test at %s (state %q then %q, samples 5 s apart): %s", d+5*time.Second, fr2, st1, st2, kind)}
	}
	// not inside the code under test, or moving: slow, not wrong. Give it time, then give up on the case.
	select {
	case o := <-done:
		return o
	case <-time.After(4 * d):
		return Outcome{Fail: "infrastructure: a case did not return within " + (5*d + 5*time.Second).String() + " and was not found inside the code under test"}
	}
}

// Check runs spec under rapid with the derived seed; a failing case is shrunk by rapid, and the last
// failing execution (= the minimal one: rapid re-runs the minimum at the end) is saved as a replay.
func Check[T any](t *testing.T, spec Spec[T]) {
	n := Pick(spec.Quick, spec.Thorough)
	if v := envInt("VERIF_CASES", 0); v > 0 {
		n = v
	}
	if n <= 0 {
		return
	}
	_ = flag.Set("rapid.checks", strconv.Itoa(n))
	_ = flag.Set("rapid.seed", strconv.FormatUint(RapidSeed(spec.Sub), 10))
	_ = flag.Set("rapid.nofailfile", "true")
	_ = flag.Set("rapid.shrinktime", Env("VERIF_SHRINKTIME", "20s"))
	if spec.NoShrink {
		_ = flag.Set("rapid.shrinktime", "1ms")
	}
	var lastJSON []byte
	var lastMsg string
	defer func() {
		if lastJSON != nil && t.Failed() {
			C.Failure(spec.Sub, lastJSON, lastMsg)
		}
	}()
	rapid.Check(t, func(rt *rapid.T) {
		c := spec.Gen(rt)
		js, err := json.Marshal(c)
		if err != nil {
			panic("kit: case not marshalable: " + err.Error())
		}
		if spec.TrackCase {
			if dir := os.Getenv("VERIF_WORK"); dir != "" {
				w, _ := json.Marshal(map[string]any{"property": C.Property, "sub": spec.Sub, "msg": "the test binary aborted while executing this case", "case": json.RawMessage(js)})
				_ = os.WriteFile(filepath.Join(dir, "current-case.json"), w, 0o644)
			}
		}
		var o Outcome
		if spec.Watchdog > 0 {
			o = watchdog(spec.Watchdog, func() Outcome { return spec.Exec(c) })
		} else {
			o = spec.Exec(c)
		}
		if strings.HasPrefix(o.Fail, "infrastructure:") {
			// trouble of the harness's own making (ports, process start-up, ...) is never a violation: the
			// case is counted as inconclusive and the message is kept for the driver
			C.mu.Lock()
			C.Labels["infrastructure-trouble"]++
			if len(C.InfraMsgs) < 5 {
				C.InfraMsgs = append(C.InfraMsgs, firstLine(o.Fail))
			}
			C.mu.Unlock()
			o.Fail, o.Inconclusive, o.NonTrivial = "", true, false
		}
		C.Record(js, o)
		if o.Fail != "" {
			lastJSON, lastMsg = js, o.Fail
			if o.ReplayJSON != nil {
				lastJSON = o.ReplayJSON
			}
			rt.Fatalf("%s", o.Fail)
		}
	})
}

func Env(name, def string) string {
	if v := os.Getenv(name); v != "" {
		return v
	}
	return def
}

// Replay loads $VERIF_REPLAY, decodes its "case" into T and executes it. It reports through the
// process exit status and a line "REPLAY-FAIL: ..." / "REPLAY-PASS".
func Replay[T any](t *testing.T, subs map[string]func(c RawCase) Outcome) {
	path := os.Getenv("VERIF_REPLAY")
	if path == "" {
		t.Skip("VERIF_REPLAY not set")
	}
	b, err := os.ReadFile(path)
	if err != nil {
		t.Fatalf("replay: %v", err)
	}
	var w struct {
		Sub  string          `json:"sub"`
		Case json.RawMessage `json:"case"`
	}
	if err := json.Unmarshal(b, &w); err != nil {
		t.Fatalf("replay: %v", err)
	}
	f, ok := subs[w.Sub]
	if !ok {
		t.Fatalf("replay: unknown sub %q", w.Sub)
	}
	o := f(w.Case)
	if o.Fail != "" {
		fmt.Printf("REPLAY-FAIL: %s\n", o.Fail)
		t.Fail()
		return
	}
	fmt.Printf("REPLAY-PASS nontrivial=%v inconclusive=%v labels=%v\n", o.NonTrivial, o.Inconclusive, o.Labels)
}

// ReplaySub adapts a typed Exec to the Replay table.
func ReplaySub[T any](exec func(c T) Outcome) func(json.RawMessage) Outcome {
	return func(raw json.RawMessage) Outcome {
		var c T
		if err := json.Unmarshal(raw, &c); err != nil {
			return Outcome{Fail: "replay: cannot decode case: " + err.Error()}
		}
		return exec(c)
	}
}

// RawCase is the undecoded "case" member of a replay file.
type RawCase = json.RawMessage
