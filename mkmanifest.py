#!/usr/bin/env python3
"""Regenerates MANIFEST.json from checks.json (single source of truth for the registered checks)."""
import json, subprocess
checks = json.load(open('checks.json'))
props = [json.loads(l) for l in open('properties.jsonl')]
hooks = json.load(open('hooks.json'))
m = {"version": 1, "setup_cmd": "./setup.sh",
     "hooks": {"guard": "verif (Go build tag)", "enable": "go build/test -tags verif (the driver ./check always builds /repo with it)",
               "baseline_off_cmd": "./baseline.sh", "source_commits": hooks["source_commits"], "add_only": True},
     "engines": [
        {"name": "rapid", "path": "harness/kit", "kind_free_text": "pgregory.net/rapid v1.3.0 property-based testing: generated programs/histories/schedules against explicit oracles, shrinking, replay files", "serves_properties": sorted(checks)},
        {"name": "enumerators", "path": "harness", "kind_free_text": "home-grown bounded-exhaustive enumerations (C17 pattern x subject, C04 command x arity x alphabet, C15 breadth-first macro-schedules, C16 sector subsets)", "serves_properties": [p for p in sorted(checks) if checks[p].get("exhaustive_note")]},
     ],
     "checks": [], "not_applicable": [],
     "notes": "Every check is ./check <ID> <tier>; replay: ./check <ID> --replay <file>. known-findings.txt lists recorded findings and fix: commits. DESIGN.md explains each oracle."}
for p in props:
    pid = p["id"]
    if pid in checks:
        c = checks[pid]
        m["checks"].append({"property_id": pid, "quick_cmd": "./check %s quick" % pid, "thorough_cmd": "./check %s thorough" % pid,
            "evidence_file": "evidence/%s.json" % pid, "replay_cmd_template": "./check %s --replay {path}" % pid,
            "engine": c.get("engine", "rapid"),
            "level_claimed": {"category": c["level"], "text": c.get("level_text", c["rule"]), "design_ref": "DESIGN.md section 4, " + pid},
            "level_note": c.get("level_note", "; ".join(c.get("assumptions", [])) or "trusted: the harness oracle"),
            "technique": c.get("technique", "property-based testing (rapid) against an explicit oracle")})
    else:
        m["not_applicable"].append({"property_id": pid, "reason": "check not built yet in this session (planned in DESIGN.md section 4); the technique applies"})
json.dump(m, open('MANIFEST.json', 'w'), indent=1)
print("MANIFEST.json:", len(m["checks"]), "checks,", len(m["not_applicable"]), "not claimed")
